"""C02 cells, round 3 classes 6 and 8: near-special operands, magnitudes far from one, extreme dynamic range.

Every cell here draws a case of an ordinary cell (same strategy, same body, same oracle) and then *transforms* it.
Tolerance-based shortcuts ("is this the identity / orthonormal / zero?", ``np.isclose(x, 0)`` with its absolute
``atol = 1e-8``) are right for the data of the other cells (magnitudes 1e-3 .. 1e3, generic matrices) and wrong next to
them, so the transforms produce

  mag            the whole tensor operand(s) in units of 1e-9 .. 1e-12 or 1e+9 .. 1e+12 (class 6: values below every
                 absolute tolerance), also 1e-100 / 1e+100
  mag-operand    the multiplicands (vectors, matrices, factor operand, scaling factor) in such units, so that *results*
                 fall below 1e-8 while the tensor is of order one
  spread         slice i of one mode scaled by 10**e_i, e_i in -12 .. 12 (class 8: order-one entries next to 1e-9
                 ones; kept modes keep their separate scales, so the comparison, which is relative *per entry*, sees them)
  unbalanced     Kruskal / Tucker holders whose magnitude sits in the wrong place: a factor column scaled by 10**-e and
                 its weight / core slice by 10**+e, e in 6 .. 100 (columns of norm 1e-18 carrying a weight 1e+18)
  factors        Kruskal / Tucker holders with structured factor matrices, *exactly* special, *epsilon-perturbed*
                 (1e-12 .. 1e-5) and merely normalised: identity-like, orthonormal columns, near-orthonormal, unit-norm but
                 not orthogonal columns, partial permutations
  multiplicand   ttm with identity / near-identity / permutation / orthonormal / near-orthonormal matrices; ttv and ttsv
                 with unit, near-unit, all-ones and near-ones vectors; mttkrp with such factor operands; scale by
                 ones / near-ones
  symmetric      ttsv on exactly symmetric and on nearly symmetric (relative noise 1e-12 .. 1e-5) tensors

All transformed values are stored in the case (floats), the reference array is computed from them, and every bound
stays relative to the same sum on absolute values: nothing here widens a tolerance.  For norm and innerprod the count
of rounding errors is the tight one of the Gram / core-contraction algorithms (``tight`` in the case) instead of the
generous product used by the ordinary cells, so that a perturbation of 1e-9 in an orthonormal factor is visible.
"""

from __future__ import annotations

import numpy as np
from hypothesis import strategies as st

from .. import ref
from ..core import cell
from . import _c02_common as cm
from . import _c02_modes as MD
from . import _c02_mttkrp as MK
from . import _c02_pairs as PR
from . import _c02_unary as UN

SEED = st.integers(0, 2**31 - 1)
MAG_EXPS = (-12, -11, -10, -9, -9, 9, 10, 11, 12, -100, 100)
PERTURB = (1e-12, 1e-10, 1e-9, 3e-9, 1e-8, 3e-8, 1e-7, 1e-6, 1e-5)
UNBALANCE = (6, 18, 18, 60, 100)


# --------------------------------------------------------------------------
# holders
# --------------------------------------------------------------------------


def to_float(h):
    """the holder's values are general floats now: no integer storage, no exact comparison"""
    h["vkind"] = "float"
    h.pop("dtype", None)
    h.pop("cdtype", None)
    if "fdtypes" in h:
        h["fdtypes"] = [None] * len(h["shape"])
    for p in h.get("parts", []):
        to_float(p)


def scale_holder(h, f):
    k = h["holder"]
    if k == "tensor":
        h["data"] = [v * f for v in h["data"]]
    elif k == "sptensor":
        h["vals"] = [v * f for v in h["vals"]]
    elif k == "ktensor":
        h["weights"] = [w * f for w in h["weights"]]
    elif k == "ttensor":
        h["core"] = [v * f for v in h["core"]]
    elif k == "sumtensor":
        for p in h["parts"]:
            scale_holder(p, f)
    to_float(h)


def spread_holder(h, m, exps):
    """slice i of mode m times 10**exps[i]"""
    k, shape = h["holder"], h["shape"]
    f = [10.0 ** e for e in exps]
    if k == "tensor":
        stride = ref.prod(shape[:m])
        h["data"] = [v * f[(p // stride) % shape[m]] for p, v in enumerate(h["data"])]
    elif k == "sptensor":
        h["vals"] = [v * f[s[m]] for s, v in zip(h["subs"], h["vals"])]
    elif k in ("ktensor", "ttensor"):
        h["factors"][m] = [[x * f[i] for x in row] for i, row in enumerate(h["factors"][m])]
    elif k == "sumtensor":
        for p in h["parts"]:
            spread_holder(p, m, exps)
    to_float(h)


def unbalance_holder(draw, h, mild=False):
    """move magnitude between a factor column and its weight / core slice; False if the holder has no such parts"""
    k, shape = h["holder"], h["shape"]
    if k == "sumtensor":
        return any([unbalance_holder(draw, p, mild) for p in h["parts"]])
    if k not in ("ktensor", "ttensor"):
        return False
    m = draw(st.integers(0, len(shape) - 1))
    e = draw(st.sampled_from(UNBALANCE[:3] if mild else UNBALANCE)) * draw(st.sampled_from([1, 1, -1]))
    if k == "ktensor":
        r = draw(st.integers(0, h["rank"] - 1))
        h["factors"][m] = [[x * 10.0 ** -e if j == r else x for j, x in enumerate(row)] for row in h["factors"][m]]
        h["weights"] = [w * 10.0 ** e if j == r else w for j, w in enumerate(h["weights"])]
    else:
        c = draw(st.integers(0, h["cshape"][m] - 1))
        h["factors"][m] = [[x * 10.0 ** -e if j == c else x for j, x in enumerate(row)] for row in h["factors"][m]]
        stride = ref.prod(h["cshape"][:m])
        h["core"] = [v * 10.0 ** e if (p // stride) % h["cshape"][m] == c else v for p, v in enumerate(h["core"])]
    to_float(h)
    return True


MATRIX_HOWS = ("unit-columns", "near-orthonormal", "orthonormal", "near-identity", "unit-columns", "near-orthonormal",
               "near-unit-columns", "identity", "permutation", "orthonormal")


def special_matrix(rng, rows, cols, how, eps):
    """rows x cols matrix of the structure ``how`` (nested list); ``eps`` = size of the perturbation of the near-* ones"""
    G = rng.uniform(-1.0, 1.0, size=(rows, cols))
    E = np.eye(rows, cols)
    if how == "identity":
        M = E
    elif how == "near-identity":
        M = E + eps * G
    elif how in ("orthonormal", "near-orthonormal"):
        if rows >= cols:
            Q, _ = np.linalg.qr(G + 2 * E)
            M = Q[:, :cols]
        else:
            Q, _ = np.linalg.qr((G + 2 * E).T)
            M = Q[:, :rows].T
        if how == "near-orthonormal":
            M = M + eps * G
    elif how in ("unit-columns", "near-unit-columns"):
        G = G + 0.25 * np.sign(G) + (G == 0)
        M = G / np.linalg.norm(G, axis=0, keepdims=True)
        if how == "near-unit-columns":
            M = M * (1.0 + eps * rng.uniform(-1, 1, size=(1, cols)))
    elif how == "permutation":
        p = rng.permutation(max(rows, cols))
        M = np.eye(max(rows, cols))[p][:rows, :cols]
    else:
        raise ValueError(how)
    return [[float(x) for x in row] for row in np.asarray(M, dtype=float)]


def special_factors(draw, h):
    """replace the factor matrices of a Kruskal / Tucker holder (or of such parts) by structured ones; returns the
    label of what was done or None"""
    k = h["holder"]
    if k == "sumtensor":
        labs = [special_factors(draw, p) for p in h["parts"]]
        labs = [x for x in labs if x]
        return labs[0] if labs else None
    if k not in ("ktensor", "ttensor"):
        return None
    rng = np.random.default_rng(draw(SEED))
    how = pick(draw, rng, MATRIX_HOWS)
    eps = pick(draw, rng, PERTURB)
    cols = [h["rank"]] * len(h["shape"]) if k == "ktensor" else h["cshape"]
    which = draw(st.sampled_from(["all", "all", "all", "one"]))
    keep = draw(st.integers(0, len(h["shape"]) - 1)) if which == "one" else None
    for m, (s, c) in enumerate(zip(h["shape"], cols)):
        if keep is not None and m != keep:
            continue
        h["factors"][m] = special_matrix(rng, s, c, how, eps)
    if k == "ktensor" and draw(st.booleans()):
        h["weights"] = [1.0] * h["rank"]
    to_float(h)
    return how + ("" if not how.startswith("near") else f":{eps:g}") + ":" + which


def holders_of(case):
    return [case[k] for k in ("X", "Y") if isinstance(case.get(k), dict) and "holder" in case[k]]


# --------------------------------------------------------------------------
# multiplicands
# --------------------------------------------------------------------------


def _float_spec(dt):
    """storage spec of a multiplicand whose values became general floats: keep the layout, drop the integer dtype"""
    if dt is None:
        return None
    lay = dt.partition("@")[2]
    return ("float64@" + lay) if lay else None


VECTOR_HOWS = ("unit", "unit", "near-unit", "near-unit", "ones", "near-ones", "tiny", "huge")


def special_vector(rng, n, how, eps):
    g = rng.uniform(-1.0, 1.0, size=n)
    if how in ("unit", "near-unit"):
        v = np.zeros(n)
        v[int(rng.integers(0, n))] = 1.0
        if how == "near-unit":
            v = v + eps * g
    elif how in ("ones", "near-ones"):
        v = np.ones(n)
        if how == "near-ones":
            v = v + eps * g
    elif how == "tiny":
        v = (g + np.sign(g) + (g == 0)) * 1e-9
    else:
        v = (g + np.sign(g) + (g == 0)) * 1e9
    return [float(x) for x in v]


def _multiplicand(draw, op, case):
    """op-specific structured multiplicands; returns a label or None"""
    rng = np.random.default_rng(draw(SEED))
    eps = pick(draw, rng, PERTURB)
    shape = case["X"]["shape"]
    if op == "ttv":
        how = pick(draw, rng, VECTOR_HOWS)
        sel = case["des"]["sel"]
        hit = draw(st.sampled_from(["all", "one"]))
        j0 = draw(st.integers(0, len(sel) - 1))
        for j, m in enumerate(sel):
            if hit == "all" or j == j0:
                case["vecs"][j] = special_vector(rng, shape[m], how, eps)
        case["vdtypes"] = [_float_spec(d) for d in case["vdtypes"]]
        case["vvkind"] = "float"
        return f"vector-{how}" + (f":{eps:g}" if how.startswith("near") else "")
    if op == "ttsv":
        how = pick(draw, rng, VECTOR_HOWS)
        case["v"] = special_vector(rng, shape[0], how, eps)
        case["vdtype"] = _float_spec(case.get("vdtype"))
        case["vvkind"] = "float"
        return f"vector-{how}" + (f":{eps:g}" if how.startswith("near") else "")
    if op == "ttm":
        how = pick(draw, rng, MATRIX_HOWS)
        sel = case["des"]["sel"]
        hit = draw(st.sampled_from(["all", "one"]))
        j0 = draw(st.integers(0, len(sel) - 1))
        for j, m in enumerate(sel):
            if hit == "all" or j == j0:
                J = shape[m] if draw(st.integers(0, 3)) else len(case["mats"][j])
                case["mats"][j] = special_matrix(rng, J, shape[m], how, eps)
        case["mdtypes"] = [_float_spec(d) for d in case["mdtypes"]]
        case["mvkind"] = "float"
        return f"matrix-{how}" + (f":{eps:g}" if how.startswith("near") else "")
    if op in ("mttkrp", "mttkrps"):
        how = pick(draw, rng, MATRIX_HOWS)
        u = case["U"]
        u["factors"] = [special_matrix(rng, s, u["rank"], how, eps) for s in shape]
        u["fdtypes"] = [_float_spec(d) for d in (u.get("fdtypes") or [None] * len(shape))]
        u["vkind"] = "float"
        return f"U-{how}" + (f":{eps:g}" if how.startswith("near") else "")
    if op == "scale":
        how = draw(st.sampled_from(["ones", "near-ones", "tiny", "huge"]))
        case["fdata"] = special_vector(rng, len(case["fdata"]), how, eps)
        case["fdtype"] = _float_spec(case.get("fdtype"))
        case["fvkind"] = "float"
        case["fpattern"] = "all"
        return f"factor-{how}" + (f":{eps:g}" if how.startswith("near") else "")
    return None


def _scale_multiplicands(op, case, f):
    """multiplicands in units of ``f``; returns True if the operation has any"""
    if op == "ttv":
        case["vecs"] = [[x * f for x in v] for v in case["vecs"]]
        case["vdtypes"] = [_float_spec(d) for d in case["vdtypes"]]
        case["vvkind"] = "float"
    elif op == "ttsv":
        case["v"] = [x * f for x in case["v"]]
        case["vdtype"] = _float_spec(case.get("vdtype"))
        case["vvkind"] = "float"
    elif op == "ttm":
        case["mats"] = [[[x * f for x in row] for row in M] for M in case["mats"]]
        case["mdtypes"] = [_float_spec(d) for d in case["mdtypes"]]
        case["mvkind"] = "float"
    elif op in ("mttkrp", "mttkrps"):
        u = case["U"]
        if u["kind"] == "ktensor":
            u["weights"] = [w * f for w in u["weights"]]
        else:
            u["factors"][0] = [[x * f for x in row] for row in u["factors"][0]]
            if len(u["factors"]) > 1:
                u["factors"][-1] = [[x * f for x in row] for row in u["factors"][-1]]
        u["fdtypes"] = [_float_spec(d) for d in (u.get("fdtypes") or [None] * len(u["factors"]))]
        u["vkind"] = "float"
    elif op == "scale":
        case["fdata"] = [x * f for x in case["fdata"]]
        case["fdtype"] = _float_spec(case.get("fdtype"))
        case["fvkind"] = "float"
    else:
        return False
    return True


def _symmetric(draw, case):
    """ttsv: the data made exactly symmetric, or symmetric up to relative noise"""
    h = case["X"]
    shape = h["shape"]
    N = len(shape)
    if N < 2 or shape[0] < 2:
        return None
    import itertools

    A = np.reshape(np.array(h["data"], dtype=float), tuple(shape), order="F")
    S = sum(np.transpose(A, p) for p in itertools.permutations(range(N)))
    how = draw(st.sampled_from(["symmetric", "near-symmetric", "near-symmetric"]))
    lab = how
    if how == "near-symmetric":
        eps = draw(st.sampled_from(PERTURB))
        rng = np.random.default_rng(draw(SEED))
        S = S * (1.0 + eps * rng.uniform(-1, 1, size=S.shape))
        lab += f":{eps:g}"
    h["data"] = [float(x) for x in S.reshape(-1, order="F")]
    to_float(h)
    return lab


# --------------------------------------------------------------------------
# the transformed strategies
# --------------------------------------------------------------------------

HAS_MULTIPLICAND = ("ttv", "ttsv", "ttm", "mttkrp", "mttkrps", "scale")


def _structured(h):
    return h["holder"] in ("ktensor", "ttensor") or any(_structured(p) for p in h.get("parts", []))


def _transforms(op, case):
    """names of the transforms that apply to this case (those about Kruskal / Tucker parameters first where the case
    holds such an operand: they are what the other cells lack most)"""
    out = []
    if any(_structured(h) for h in holders_of(case)):
        out += ["factors", "factors", "factors", "factors", "unbalanced", "unbalanced"]
    if op in HAS_MULTIPLICAND:
        out += ["multiplicand", "multiplicand", "multiplicand", "mag-operand"]
    if op == "ttsv" and len(case["X"]["shape"]) >= 2 and case["X"]["shape"][0] >= 2:
        out += ["symmetric", "symmetric", "symmetric"]
    return out + ["mag", "mag", "spread", "spread"]


def pick(draw, rng, options):
    """one of ``options``, spread evenly (Hypothesis favours the first entries of a list when the budget is small, a
    seeded generator does not)"""
    return options[(draw(st.integers(0, len(options) - 1)) + int(rng.integers(0, len(options)))) % len(options)]


def _apply(draw, op, case, name, mild=False):
    hs = holders_of(case)
    if name == "mag":
        labs = []
        for h in hs if draw(st.booleans()) else hs[:1]:
            e = pick(draw, np.random.default_rng(draw(SEED)), MAG_EXPS)
            if abs(e) > 12 and (mild or len(hs) > 1):
                # (two transforms, or two operands: the very large / very small units would meet in one product)
                e = 12 if e > 0 else -12
            scale_holder(h, 10.0 ** e)
            labs.append(f"mag:1e{e:+d}")
        return labs
    if name == "mag-operand":
        e = draw(st.sampled_from([-12, -10, -9, -9, 9, 12]))
        return [f"mag-operand:1e{e:+d}"] if _scale_multiplicands(op, case, 10.0 ** e) else []
    if name == "spread":
        h = draw(st.sampled_from(hs))
        m = draw(st.integers(0, len(h["shape"]) - 1))
        exps = [draw(st.sampled_from([-12, -9, -9, -6, 0, 0, 0, 6, 9, 12])) for _ in range(h["shape"][m])]
        spread_holder(h, m, exps)
        return ["spread:%d-decades" % (max(exps) - min(exps))]
    if name == "unbalanced":
        return ["unbalanced"] if any([unbalance_holder(draw, h, mild or len(hs) > 1) for h in hs]) else []
    if name == "factors":
        labs = [special_factors(draw, h) for h in hs]
        return ["factors:" + x for x in labs if x]
    if name == "multiplicand":
        lab = _multiplicand(draw, op, case)
        return ["multiplicand:" + lab] if lab else []
    if name == "symmetric":
        lab = _symmetric(draw, case)
        return [lab] if lab else []
    raise ValueError(name)


# kinds with structure (Kruskal / Tucker / sums of them) are drawn more often: most transforms are about them
KINDS = {
    "ttv": ("tensor", "sptensor", "sptensor", "ktensor", "ktensor", "ttensor", "ttensor", "sumtensor"),
    "ttm": ("tensor", "sptensor", "sptensor", "ttensor", "ttensor"),
    "mttkrp": ("tensor", "sptensor", "sptensor", "ktensor", "ktensor", "ttensor", "ttensor", "sumtensor"),
    "innerprod": ("tensor", "sptensor", "ktensor", "ktensor", "ttensor", "ttensor", "sumtensor"),
    "norm": ("tensor", "sptensor", "ktensor", "ktensor", "ttensor", "ttensor", "ttensor", "tenmat", "sptenmat"),
    "contract": ("tensor", "sptensor"),
    "collapse": ("tensor", "sptensor"),
    "scale": ("tensor", "sptensor"),
    "mask": ("tensor", "sptensor", "ktensor"),
}
BASE = {
    "ttv": (MD._ttv_strategy, MD.ttv_body), "ttm": (MD._ttm_strategy, MD.ttm_body),
    "mttkrp": (MK._strategy, MK.mttkrp_body), "innerprod": (PR._inner_strategy, PR.innerprod_body),
    "norm": (UN._norm_strategy, UN.norm_body), "contract": (UN._contract_strategy, UN.contract_body),
    "collapse": (UN._collapse_strategy, UN.collapse_body), "scale": (PR._scale_strategy, PR.scale_body),
    "mask": (PR._mask_strategy, PR.mask_body),
}
SINGLE = {
    "mttkrps": (MK._mttkrps_strategy, MK.mttkrps_tensor), "ttt": (PR._ttt_strategy, PR.ttt_tensor),
    "ttsv": (UN._ttsv_strategy, UN.ttsv_body), "reconstruct": (UN._reconstruct_strategy, UN.reconstruct_ttensor),
}


def _special_strategy(op):
    @st.composite
    def s(draw, tier):
        if op in BASE:
            kind = draw(st.sampled_from(KINDS[op]))
            case = draw(BASE[op][0](kind)(tier))
        else:
            case = draw(SINGLE[op][0](tier))
        names = _transforms(op, case)
        rng = np.random.default_rng(draw(SEED))
        picked = [pick(draw, rng, names)]
        if draw(st.integers(0, 2)) == 0:
            picked.append(pick(draw, rng, names))
        labs = []
        picked = list(dict.fromkeys(picked))
        for name in picked:
            labs += _apply(draw, op, case, name, mild=len(picked) > 1)
        if not labs:
            # (the drawn transform needs a Kruskal / Tucker holder or a multiplicand and the case has none)
            labs += _apply(draw, op, case, "mag")
        case["special"] = labs
        case["tight"] = True
        return case

    return s


def _special_body(op):
    body = BASE[op][1] if op in BASE else SINGLE[op][1]

    def run(ctx, case):
        ctx.label(*["special:" + x for x in case.get("special", [])],
                  *sorted({"special-class:" + x.split(":")[0] for x in case.get("special", [])}))
        body(ctx, case)

    run.__doc__ = "an ordinary %s case after the round-3 transforms (see the module docstring)" % op
    return run


for _op, (_q, _t) in {"ttv": (500, 4000), "ttm": (400, 3000), "mttkrp": (400, 3000), "mttkrps": (150, 1500),
                      "ttt": (150, 1500), "innerprod": (500, 4000), "norm": (500, 4000), "contract": (150, 1500),
                      "collapse": (200, 1500), "scale": (200, 1500), "mask": (150, 1500), "ttsv": (300, 2000),
                      "reconstruct": (200, 1500)}.items():
    cell(f"C02/special/{_op}", strategy=_special_strategy(_op), quick=_q, thorough=_t, shards=(2, 8))(_special_body(_op))
