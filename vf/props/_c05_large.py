"""C05 cells, round 3 class 7: a few operands per run above internal block sizes.

Kernels that handle stored nonzeros / rows / components in blocks, or that re-order a big operand "for locality", may
touch their operands only beyond a size that no other C05 cell reaches (<= 120 cells).  Each cell here draws an
operation of one class and a *compact description* of a large operand (expanded deterministically from an integer seed
by ``_c02_large.expand``: sparse tensors with 1e4 .. 6e4 stored nonzeros, dense tensors of 1e5 .. 1e6 cells, Kruskal
tensors of rank 10 .. 20, Tucker tensors with wide or sparse cores); the oracle is the ordinary one (``check_op``):
operands bit-identical afterwards, no memory shared with the result, writes and documented in-place operations on
one side invisible on the other, a second call independent of the first.
"""

from __future__ import annotations

import numpy as np
from hypothesis import strategies as st

import pyttb as ttb

from .. import ref
from . import _c02_common as cm
from . import _c02_large as LG
from ._c05_reg import op

SEED = LG.SEED


def _vec(rng, n):
    return rng.uniform(-1.0, 1.0, size=n)


def _factors(rng, shape, R):
    return [rng.uniform(-1.0, 1.0, size=(s, R)) for s in shape]


# op name -> function (X, rng, shape) -> (extra operands, call)
def _ttv_one(X, rng, shape):
    m = int(rng.integers(0, len(shape)))
    v = _vec(rng, shape[m])
    return {"vector": v}, lambda: X.ttv(v, m)


def _ttv_all(X, rng, shape):
    vs = [_vec(rng, s) for s in shape]
    return {"vector": vs}, lambda: X.ttv(vs)


def _ttm(X, rng, shape):
    m = int(rng.integers(0, len(shape)))
    M = rng.uniform(-1.0, 1.0, size=(int(rng.integers(1, 4)), shape[m]))
    return {"matrix": M}, lambda: X.ttm(M, m)


def _mttkrp_list(X, rng, shape):
    U = _factors(rng, shape, int(rng.integers(1, 4)))
    n = int(rng.integers(0, len(shape)))
    return {"U": U}, lambda: X.mttkrp(U, n)


def _mttkrp_kt(X, rng, shape):
    R = int(rng.integers(2, 4))
    U = ttb.ktensor(_factors(rng, shape, R), rng.uniform(0.5, 2.0, size=R))
    n = int(rng.integers(0, len(shape)))
    return {"U": U}, lambda: X.mttkrp(U, n)


def _inner_dense(X, rng, shape):
    Y = ttb.tensor(np.asfortranarray(rng.uniform(-1, 1, size=tuple(shape))), tuple(shape))
    return {"other": Y}, lambda: X.innerprod(Y)


def _inner_kt(X, rng, shape):
    R = int(rng.integers(2, 4))
    Y = ttb.ktensor(_factors(rng, shape, R), rng.uniform(0.5, 2.0, size=R))
    return {"other": Y}, lambda: X.innerprod(Y)


def _permute(X, rng, shape):
    p = rng.permutation(len(shape))
    return {"order": p}, lambda: X.permute(p)


def _collapse(X, rng, shape):
    d = np.array([int(rng.integers(0, len(shape)))])
    return {"dims": d}, lambda: X.collapse(d)


def _scale(X, rng, shape):
    m = int(rng.integers(0, len(shape)))
    f = rng.uniform(0.5, 1.5, size=shape[m])
    return {"factor": f}, lambda: X.scale(f, m)


def _subs(rng, shape, k):
    return np.stack([rng.integers(0, s, size=k) for s in shape], axis=1)


def _nkeys(X):
    # a sparse tensor looks every requested subscript up in its stored list (nnz x keys comparisons): few keys there
    return 600 if isinstance(X, ttb.sptensor) else 12000


def _get_subs(X, rng, shape):
    key = _subs(rng, shape, _nkeys(X))
    return {"key": key}, lambda: X[key]


def _get_lin(X, rng, shape):
    key = rng.integers(0, ref.prod(shape), size=_nkeys(X))
    return {"key": key}, lambda: X[key]


def _get_region(X, rng, shape):
    key = tuple(slice(0, max(1, s - 1)) for s in shape)
    return {}, lambda: X[key]


def _set_subs(X, rng, shape):
    key = np.unique(_subs(rng, shape, _nkeys(X)), axis=0)
    v = rng.uniform(1.0, 2.0, size=(key.shape[0], 1))
    return {"key": key, "value": v}, lambda: X.__setitem__(key, v if isinstance(X, ttb.sptensor) else v[:, 0])


COMMON = {"ttv-one": _ttv_one, "ttv-all": _ttv_all, "mttkrp-list": _mttkrp_list, "mttkrp-ktensor": _mttkrp_kt,
          "innerprod-tensor": _inner_dense, "innerprod-ktensor": _inner_kt, "permute": _permute,
          "copy": lambda X, r, s: ({}, lambda: X.copy()), "norm": lambda X, r, s: ({}, lambda: X.norm()),
          "full": lambda X, r, s: ({}, lambda: X.full())}
OPS = {
    "tensor": dict(COMMON, **{
        "ttm": _ttm, "collapse": _collapse, "scale": _scale, "getitem-subs": _get_subs, "getitem-lin": _get_lin,
        "getitem-region": _get_region, "setitem-subs": _set_subs, "find": lambda X, r, s: ({}, lambda: X.find()),
        "to_sptensor": lambda X, r, s: ({}, lambda: X.to_sptensor()),
        "reshape": lambda X, r, s: ({}, lambda: X.reshape((ref.prod(s),))),
        "mttkrps": lambda X, r, s: (lambda U: ({"U": U}, lambda: X.mttkrps(U)))(_factors(r, s, 2)),
        "times2": lambda X, r, s: ({}, lambda: X * 2.0), "plus-self": lambda X, r, s: ({}, lambda: X + X),
        "gt0": lambda X, r, s: ({}, lambda: X > 0),
        "to_tenmat": lambda X, r, s: ({}, lambda: X.to_tenmat(rdims=np.array([0]))),
    }),
    "sptensor": dict(COMMON, **{
        "ttm": _ttm, "collapse": _collapse, "scale": _scale, "getitem-subs": _get_subs, "getitem-lin": _get_lin,
        "getitem-region": _get_region, "setitem-subs": _set_subs, "find": lambda X, r, s: ({}, lambda: X.find()),
        "to_tensor": lambda X, r, s: ({}, lambda: X.to_tensor()),
        "reshape": lambda X, r, s: ({}, lambda: X.reshape((ref.prod(s),))),
        "elemfun": lambda X, r, s: ({}, lambda: X.elemfun(lambda v: v + 1)),
        "times2": lambda X, r, s: ({}, lambda: X * 2.0), "plus-self": lambda X, r, s: ({}, lambda: X + X),
        "gt0": lambda X, r, s: ({}, lambda: X > 0), "ones": lambda X, r, s: ({}, lambda: X.ones()),
        "to_sptenmat": lambda X, r, s: ({}, lambda: X.to_sptenmat(rdims=np.array([0]))),
        "squash": lambda X, r, s: ({}, lambda: X.squash()),
        "extract": lambda X, r, s: (lambda k: ({"key": k}, lambda: X.extract(k)))(_subs(r, s, 600)),
    }),
    "ktensor": dict(COMMON, **{
        "normalize": lambda X, r, s: ({}, lambda: X.normalize()), "arrange": lambda X, r, s: ({}, lambda: X.arrange()),
        "redistribute": lambda X, r, s: ({}, lambda: X.redistribute(0)), "tovec": lambda X, r, s: ({}, lambda: X.tovec()),
        "tolist": lambda X, r, s: ({}, lambda: X.tolist()), "times2": lambda X, r, s: ({}, lambda: X * 2.0),
        "plus-self": lambda X, r, s: ({}, lambda: X + X),
        "extract": lambda X, r, s: ({}, lambda: X.extract(np.arange(0, X.ncomponents, 2))),
    }),
    "ttensor": dict(COMMON, **{
        "ttm": _ttm, "reconstruct": lambda X, r, s: ({}, lambda: X.reconstruct(np.array([0, 1]), 0)),
        "times2": lambda X, r, s: ({}, lambda: X * 2.0),
    }),
}
INPLACE = ("setitem-subs", "normalize", "arrange", "redistribute")


def _register(kind):
    names = sorted(OPS[kind])

    @st.composite
    def g(draw, tier):
        aseed = draw(SEED)
        # (operations spread evenly: Hypothesis favours the first entries of a list when the budget is small)
        name = names[(draw(st.integers(0, len(names) - 1)) + aseed) % len(names)]
        return dict(X=draw(LG.big(tier, kind, min_order=2)), op=name, aseed=aseed)

    @op(f"large/{kind}", g, quick=6 if kind == "sptensor" else 3, thorough=12 if kind == "sptensor" else 6, shards=(1, 2))
    def _(ctx, c, kind=kind):
        h = LG.expand(c["X"])
        X = cm.build(h)
        rng = np.random.default_rng(c["aseed"])
        ctx.label("op-" + c["op"], *LG.size_labels(c["X"]))
        made = OPS[kind][c["op"]](X, rng, [int(s) for s in h["shape"]])
        if made is None:
            return None
        extra, call = made
        ops = dict(extra)
        ops["self"] = X
        return ops, call, ("self" if c["op"] in INPLACE else None)


for _k in ("tensor", "sptensor", "ktensor", "ttensor"):
    _register(_k)
