"""C05, round 4, class 12: the state of the operands after a *rejected* request.

``C05/<class>/rejected``: the receiver is built as in the other cells of the class (derived states, dtypes, presentations
included), then one ill-formed request out of a table is made: a mode out of range, a list of the wrong length, values
of the wrong count or shape, a shape mismatch between the two operands, a permutation that is none, an invalid option.
Whatever the library answers (the requests are written so that it should raise; a request that is accepted is judged by
the ordinary clauses), the receiver - also when the operation is a documented in-place one: item assignment,
ktensor.update / arrange / normalize / redistribute / fixsigns - and every other operand must afterwards be bit for bit
what it was (clause ``operand-changed-by-rejected-call:<operand>`` of ``_c05_helpers.check_op``).  A case is
non-trivial when the request was rejected and there was an operand array to protect.
"""

from __future__ import annotations

import numpy as np
from hypothesis import strategies as st

import pyttb as ttb

from .. import gen
from . import _c05_kruskal as CK
from . import _c05_mat as CM
from . import _c05_reg as R
from . import _c05_sptensor as CSP
from ._c05_reg import op


def _ones(*shape):
    return np.ones(shape)


def _other_shape(shape, k):
    s = list(shape)
    s[k % len(s)] += 1
    return s


def _dense_other(shape, k):
    s = _other_shape(shape, k)
    return ttb.tensor(np.arange(1.0, 1.0 + int(np.prod(s))).reshape(s, order="F"))


def _sparse_other(shape, k):
    s = _other_shape(shape, k)
    return ttb.sptensor(np.zeros((1, len(s)), dtype=int), np.array([[2.0]]), tuple(s))


def _kt_other(shape, k, r=2):
    s = _other_shape(shape, k)
    return ttb.ktensor([np.arange(1.0, 1.0 + n * r).reshape(n, r) for n in s], np.arange(1.0, r + 1.0))


def _bad_perm(n, k):
    if n >= 2 and k % 2:
        return np.zeros(n, dtype=int)  # a repeated mode
    return np.arange(n + 1)  # one mode too many


# --------------------------------------------------------------------------
# request tables: name -> f(X, c, k, ops) -> call     (k: a small drawn integer; arrays handed over go into ops)
# --------------------------------------------------------------------------


def _reg(ops, name, a):
    ops[name] = a
    return a


def _common(shape_of):
    """ill-formed requests shared by the tensor classes that implement the operation"""
    n = lambda X: len(shape_of(X))  # noqa: E731
    m = lambda X, k: k % n(X)  # noqa: E731
    return {
        "permute-no-permutation": lambda X, c, k, ops: (lambda o=_reg(ops, "order", _bad_perm(n(X), k)): X.permute(o)),
        "ttv-wrong-length": lambda X, c, k, ops: (
            lambda v=_reg(ops, "vector", R.CS.aux(c, _ones(shape_of(X)[m(X, k)] + 1))): X.ttv(v, m(X, k))),
        "ttv-mode-out-of-range": lambda X, c, k, ops: (
            lambda v=_reg(ops, "vector", R.CS.aux(c, _ones(shape_of(X)[-1]))): X.ttv(v, n(X) + k % 2)),
        "ttv-list-too-long": lambda X, c, k, ops: (
            lambda v=_reg(ops, "vector", [_ones(s) for s in shape_of(X)] + [_ones(2)]): X.ttv(v)),
        "mttkrp-wrong-rows": lambda X, c, k, ops: (
            lambda U=_reg(ops, "U", [R.CS.aux(c, _ones(s + (i == (m(X, k) + 1) % n(X)), 2)) for i, s in enumerate(shape_of(X))]):
            X.mttkrp(U, m(X, k))),
        "mttkrp-mode-out-of-range": lambda X, c, k, ops: (
            lambda U=_reg(ops, "U", [_ones(s, 2) for s in shape_of(X)]): X.mttkrp(U, n(X) + k % 2)),
        "mttkrp-ranks-differ": lambda X, c, k, ops: (
            lambda U=_reg(ops, "U", [_ones(s, 2 + (i == n(X) - 1)) for i, s in enumerate(shape_of(X))]): X.mttkrp(U, 0)),
        "innerprod-shape-mismatch": lambda X, c, k, ops: (
            lambda Y=_reg(ops, "other", _dense_other(shape_of(X), k)): X.innerprod(Y)),
        "innerprod-ktensor-shape-mismatch": lambda X, c, k, ops: (
            lambda Y=_reg(ops, "other", _kt_other(shape_of(X), k)): X.innerprod(Y)),
    }


def _ttm(shape_of):
    n = lambda X: len(shape_of(X))  # noqa: E731
    return {
        "ttm-wrong-columns": lambda X, c, k, ops: (
            lambda M=_reg(ops, "matrix", R.CS.aux(c, _ones(2, shape_of(X)[k % n(X)] + 1))): X.ttm(M, k % n(X))),
        "ttm-mode-out-of-range": lambda X, c, k, ops: (
            lambda M=_reg(ops, "matrix", _ones(2, shape_of(X)[-1])): X.ttm(M, n(X) + k % 2)),
        "ttm-list-wrong-length": lambda X, c, k, ops: (
            lambda M=_reg(ops, "matrix", [_ones(2, s) for s in shape_of(X)] + [_ones(2, 2)]): X.ttm(M)),
    }


_SH = lambda X: tuple(int(v) for v in X.shape)  # noqa: E731

TENSOR = dict(_common(_SH), **_ttm(_SH))
TENSOR.update({
    "setitem-subs-wrong-count": lambda X, c, k, ops: (
        lambda s=_reg(ops, "key", np.zeros((2, X.ndims), dtype=int)), v=_reg(ops, "value", np.array([1.0, 2.0, 3.0])):
        X.__setitem__(s, v)),
    "setitem-linear-wrong-count": lambda X, c, k, ops: (
        lambda s=_reg(ops, "key", np.array([0, 0])), v=_reg(ops, "value", np.array([1.0, 2.0, 3.0])): X.__setitem__(s, v)),
    "setitem-region-shape-mismatch": lambda X, c, k, ops: (
        lambda v=_reg(ops, "value", _ones(*[s + 1 for s in X.shape])): X.__setitem__(tuple(slice(None) for _ in X.shape), v)),
    "setitem-region-tensor-shape-mismatch": lambda X, c, k, ops: (
        lambda v=_reg(ops, "value", _dense_other(X.shape, k)): X.__setitem__(tuple(slice(None) for _ in X.shape), v)),
    "setitem-grow-then-wrong-count": lambda X, c, k, ops: (
        # the subscripts lie outside the tensor (an item assignment may grow it) and the value count is wrong
        lambda s=_reg(ops, "key", np.array([[n + 1 for n in X.shape], [n for n in X.shape]])),
        v=_reg(ops, "value", np.array([1.0, 2.0, 3.0])): X.__setitem__(s, v)),
    "setitem-key-not-a-key": lambda X, c, k, ops: (lambda: X.__setitem__("all", 1.0)),
    "getitem-out-of-range": lambda X, c, k, ops: (lambda: X[tuple(int(s) for s in X.shape)]),
    "reshape-other-size": lambda X, c, k, ops: (lambda: X.reshape(tuple(_other_shape(X.shape, k)))),
    "scale-wrong-length": lambda X, c, k, ops: (
        lambda f=_reg(ops, "factor", R.CS.aux(c, _ones(X.shape[k % X.ndims] + 1))): X.scale(f, k % X.ndims)),
    "collapse-mode-out-of-range": lambda X, c, k, ops: (lambda d=_reg(ops, "dims", np.array([X.ndims + k % 2])): X.collapse(d)),
    "add-shape-mismatch": lambda X, c, k, ops: (lambda Y=_reg(ops, "other", _dense_other(X.shape, k)): X + Y),
    "mul-shape-mismatch": lambda X, c, k, ops: (lambda Y=_reg(ops, "other", _dense_other(X.shape, k)): X * Y),
    "lt-shape-mismatch": lambda X, c, k, ops: (lambda Y=_reg(ops, "other", _dense_other(X.shape, k)): X < Y),
    "mask-shape-mismatch": lambda X, c, k, ops: (lambda Y=_reg(ops, "W", _dense_other(X.shape, k)): X.mask(Y)),
    "to_tenmat-repeated-mode": lambda X, c, k, ops: (
        lambda r=_reg(ops, "rdims", np.zeros(2, dtype=int)), cd=_reg(ops, "cdims", np.arange(X.ndims)): X.to_tenmat(r, cd)),
    "ttt-extent-mismatch": lambda X, c, k, ops: (
        lambda Y=_reg(ops, "other", _dense_other(X.shape, k)): X.ttt(Y, np.arange(X.ndims), np.arange(X.ndims))),
    "tenfun-callback-raises": lambda X, c, k, ops: (lambda: X.tenfun(lambda a: a / (None))),
    "nvecs-mode-out-of-range": lambda X, c, k, ops: (lambda: X.nvecs(X.ndims + 1, 1)),
})

SPTENSOR = dict(_common(_SH), **_ttm(_SH))
SPTENSOR.update({
    "setitem-subs-wrong-count": lambda X, c, k, ops: (
        lambda s=_reg(ops, "key", np.vstack([np.zeros(X.ndims, dtype=int), np.array(X.shape) - 1])),
        v=_reg(ops, "value", np.array([[1.0], [2.0], [3.0]])): X.__setitem__(s, v)),
    "setitem-grow-then-wrong-count": lambda X, c, k, ops: (
        lambda s=_reg(ops, "key", np.array([[n + 1 for n in X.shape], [n for n in X.shape]])),
        v=_reg(ops, "value", np.array([[1.0], [2.0], [3.0]])): X.__setitem__(s, v)),
    "setitem-values-not-a-column": lambda X, c, k, ops: (
        lambda s=_reg(ops, "key", np.vstack([np.zeros(X.ndims, dtype=int), np.array(X.shape) - 1, np.zeros(X.ndims, dtype=int)])),
        v=_reg(ops, "value", np.array([[1.0, 2.0], [3.0, 4.0]])): X.__setitem__(s, v)),
    "setitem-region-tensor-shape-mismatch": lambda X, c, k, ops: (
        lambda v=_reg(ops, "value", _sparse_other(X.shape, k)): X.__setitem__(tuple(slice(None) for _ in X.shape), v)),
    "setitem-negative-subscript": lambda X, c, k, ops: (
        lambda s=_reg(ops, "key", np.vstack([np.zeros(X.ndims, dtype=int), -np.ones(X.ndims, dtype=int) * (max(X.shape) + 2)])),
        v=_reg(ops, "value", np.array([[1.0], [2.0]])): X.__setitem__(s, v)),
    "setitem-key-not-a-key": lambda X, c, k, ops: (lambda: X.__setitem__("all", 1.0)),
    "reshape-other-size": lambda X, c, k, ops: (lambda: X.reshape(tuple(_other_shape(X.shape, k)))),
    "scale-wrong-length": lambda X, c, k, ops: (
        lambda f=_reg(ops, "factor", R.CS.aux(c, _ones(X.shape[k % X.ndims] + 1))): X.scale(f, k % X.ndims)),
    "collapse-mode-out-of-range": lambda X, c, k, ops: (lambda d=_reg(ops, "dims", np.array([X.ndims + k % 2])): X.collapse(d)),
    "add-shape-mismatch": lambda X, c, k, ops: (lambda Y=_reg(ops, "other", _sparse_other(X.shape, k)): X + Y),
    "sub-dense-shape-mismatch": lambda X, c, k, ops: (lambda Y=_reg(ops, "other", _dense_other(X.shape, k)): X - Y),
    "mul-shape-mismatch": lambda X, c, k, ops: (lambda Y=_reg(ops, "other", _sparse_other(X.shape, k)): X * Y),
    "ge-shape-mismatch": lambda X, c, k, ops: (lambda Y=_reg(ops, "other", _sparse_other(X.shape, k)): X >= Y),
    "logical_and-shape-mismatch": lambda X, c, k, ops: (lambda Y=_reg(ops, "other", _sparse_other(X.shape, k)): X.logical_and(Y)),
    "mask-shape-mismatch": lambda X, c, k, ops: (lambda Y=_reg(ops, "W", _sparse_other(X.shape, k)): X.mask(Y)),
    "elemfun-callback-raises": lambda X, c, k, ops: (lambda: X.elemfun(lambda a: a / (None))),
    "to_sptenmat-repeated-mode": lambda X, c, k, ops: (
        lambda r=_reg(ops, "rdims", np.zeros(2, dtype=int)), cd=_reg(ops, "cdims", np.arange(X.ndims)): X.to_sptenmat(r, cd)),
    "ttt-extent-mismatch": lambda X, c, k, ops: (
        lambda Y=_reg(ops, "other", _sparse_other(X.shape, k)): X.ttt(Y, np.arange(X.ndims), np.arange(X.ndims))),
    "nvecs-mode-out-of-range": lambda X, c, k, ops: (lambda: X.nvecs(X.ndims + 1, 1)),
})

KTENSOR = dict(_common(_SH))
KTENSOR.update({
    # documented in-place operations
    "update-data-too-short": lambda X, c, k, ops: (
        lambda mo=_reg(ops, "modes", np.arange(X.ndims)),
        d=_reg(ops, "data", np.arange(1.0, sum(X.shape) * X.ncomponents)): X.update(mo, d)),
    "update-data-too-short-with-weights": lambda X, c, k, ops: (
        lambda mo=_reg(ops, "modes", np.arange(-1, X.ndims)),
        d=_reg(ops, "data", np.arange(1.0, (sum(X.shape) + 1) * X.ncomponents)): X.update(mo, d)),
    "update-second-mode-out-of-range": lambda X, c, k, ops: (
        lambda mo=_reg(ops, "modes", np.array([0, X.ndims + 1])),
        d=_reg(ops, "data", np.arange(1.0, 1.0 + (X.shape[0] + 2) * X.ncomponents)): X.update(mo, d)),
    "arrange-no-permutation": lambda X, c, k, ops: (
        lambda p=_reg(ops, "permutation", np.arange(X.ncomponents + 1) if k % 2 else np.full(X.ncomponents, X.ncomponents)):
        X.arrange(permutation=p)),
    "arrange-weight-factor-out-of-range": lambda X, c, k, ops: (lambda: X.arrange(weight_factor=X.ndims + k % 2)),
    "normalize-weight-factor-out-of-range": lambda X, c, k, ops: (lambda: X.normalize(weight_factor=X.ndims + k % 2)),
    "normalize-mode-out-of-range": lambda X, c, k, ops: (lambda: X.normalize(mode=X.ndims + k % 2)),
    "normalize-bad-normtype": lambda X, c, k, ops: (lambda: X.normalize(normtype="two")),
    "redistribute-mode-out-of-range": lambda X, c, k, ops: (lambda: X.redistribute(X.ndims + k % 2)),
    "fixsigns-other-more-components": lambda X, c, k, ops: (
        lambda Y=_reg(ops, "other", ttb.ktensor([np.arange(1.0, 1.0 + s * (X.ncomponents + 1)).reshape(s, X.ncomponents + 1)
                                                 for s in X.shape])): X.fixsigns(Y)),
    "fixsigns-other-shape-mismatch": lambda X, c, k, ops: (
        lambda Y=_reg(ops, "other", _kt_other(X.shape, k, X.ncomponents)): X.fixsigns(Y)),
    # the rest
    "extract-out-of-range": lambda X, c, k, ops: (lambda i=_reg(ops, "idx", np.array([0, X.ncomponents + k % 2])): X.extract(i)),
    "add-shape-mismatch": lambda X, c, k, ops: (lambda Y=_reg(ops, "other", _kt_other(X.shape, k)): X + Y),
    "sub-shape-mismatch": lambda X, c, k, ops: (lambda Y=_reg(ops, "other", _kt_other(X.shape, k)): X - Y),
    "score-shape-mismatch": lambda X, c, k, ops: (lambda Y=_reg(ops, "other", _kt_other(X.shape, k, X.ncomponents)): X.score(Y)),
    "score-fewer-components-in-self": lambda X, c, k, ops: (
        lambda Y=_reg(ops, "other", ttb.ktensor([np.arange(1.0, 1.0 + s * (X.ncomponents + 1)).reshape(s, X.ncomponents + 1)
                                                 for s in X.shape])): X.score(Y)),
    "mask-shape-mismatch": lambda X, c, k, ops: (lambda Y=_reg(ops, "W", _dense_other(X.shape, k)): X.mask(Y)),
    "to_tenmat-repeated-mode": lambda X, c, k, ops: (
        lambda r=_reg(ops, "rdims", np.zeros(2, dtype=int)), cd=_reg(ops, "cdims", np.arange(X.ndims)): X.to_tenmat(r, cd)),
    "nvecs-mode-out-of-range": lambda X, c, k, ops: (lambda: X.nvecs(X.ndims + 1, 1)),
    "tolist-mode-out-of-range": lambda X, c, k, ops: (lambda: X.tolist(X.ndims + k % 2)),
})
KT_INPLACE = {"update-data-too-short", "update-data-too-short-with-weights", "update-second-mode-out-of-range",
              "arrange-no-permutation", "arrange-weight-factor-out-of-range", "normalize-weight-factor-out-of-range",
              "normalize-mode-out-of-range", "normalize-bad-normtype", "redistribute-mode-out-of-range",
              "fixsigns-other-more-components", "fixsigns-other-shape-mismatch"}

TTENSOR = dict(_common(_SH), **_ttm(_SH))
TTENSOR.update({
    "reconstruct-mode-out-of-range": lambda X, c, k, ops: (
        lambda s=_reg(ops, "samples", [np.array([0])]), mo=_reg(ops, "modes", np.array([X.ndims + k % 2])): X.reconstruct(s, mo)),
    "reconstruct-sample-out-of-range": lambda X, c, k, ops: (
        lambda s=_reg(ops, "samples", [np.array([0, X.shape[0] + 1])]), mo=_reg(ops, "modes", np.array([0])): X.reconstruct(s, mo)),
    "nvecs-mode-out-of-range": lambda X, c, k, ops: (lambda: X.nvecs(X.ndims + 1, 1)),
    "mul-by-tensor": lambda X, c, k, ops: (lambda Y=_reg(ops, "other", _dense_other(X.shape, k)): X * Y),
})

SUMTENSOR = {q: f for q, f in _common(_SH).items() if q != "permute-no-permutation"}
SUMTENSOR.update({
    "add-shape-mismatch": lambda X, c, k, ops: (lambda Y=_reg(ops, "other", _dense_other(X.shape, k)): X + Y),
    "add-ktensor-shape-mismatch": lambda X, c, k, ops: (lambda Y=_reg(ops, "other", _kt_other(X.shape, k)): X + Y),
    "radd-shape-mismatch": lambda X, c, k, ops: (lambda Y=_reg(ops, "other", _sparse_other(X.shape, k)): Y + X),
    "add-not-a-tensor": lambda X, c, k, ops: (lambda Y=_reg(ops, "other", np.ones(X.shape)): X + Y),
})

_MSH = lambda X: tuple(int(v) for v in X.shape)  # noqa: E731  (rows, columns)
TENMAT = {
    "setitem-out-of-range": lambda X, c, k, ops: (lambda: X.__setitem__((_MSH(X)[0], _MSH(X)[1]), 1.0)),
    "setitem-shape-mismatch": lambda X, c, k, ops: (
        lambda v=_reg(ops, "value", _ones(_MSH(X)[0] + 1, _MSH(X)[1] + 1)): X.__setitem__((slice(None), slice(None)), v)),
    "getitem-out-of-range": lambda X, c, k, ops: (lambda: X[_MSH(X)[0], _MSH(X)[1]]),
    "add-shape-mismatch": lambda X, c, k, ops: (
        lambda Y=_reg(ops, "other", ttb.tenmat(_ones(_MSH(X)[0] + 1, _MSH(X)[1]), np.array([0]), np.array([1]),
                                               (_MSH(X)[0] + 1, _MSH(X)[1]))): X + Y),
    "sub-shape-mismatch": lambda X, c, k, ops: (
        lambda Y=_reg(ops, "other", ttb.tenmat(_ones(_MSH(X)[0], _MSH(X)[1] + 1), np.array([0]), np.array([1]),
                                               (_MSH(X)[0], _MSH(X)[1] + 1))): X - Y),
    "mul-inner-extent-mismatch": lambda X, c, k, ops: (
        lambda Y=_reg(ops, "other", ttb.tenmat(_ones(_MSH(X)[1] + 1, 2), np.array([0]), np.array([1]), (_MSH(X)[1] + 1, 2))): X * Y),
    "mul-by-array": lambda X, c, k, ops: (lambda Y=_reg(ops, "other", _ones(_MSH(X)[1] + 1, 2)): X * Y),
}

# constructors: the caller's arrays are the operands
CTOR = {
    "tensor-shape-other-size": lambda c, k, ops: (
        lambda d=_reg(ops, "data", R.CS.aux(c, np.arange(1.0, 7.0).reshape(2, 3))), s=_reg(ops, "shape", np.array([2, 2 + k % 2 * 2])):
        ttb.tensor(d, s)),
    "sptensor-vals-wrong-count": lambda c, k, ops: (
        lambda s=_reg(ops, "subs", np.array([[0, 0], [1, 1]])), v=_reg(ops, "vals", np.array([[1.0], [2.0], [3.0]])):
        ttb.sptensor(s, v, (2, 2))),
    "sptensor-subs-out-of-shape": lambda c, k, ops: (
        lambda s=_reg(ops, "subs", np.array([[0, 0], [1, 2 + k % 2]])), v=_reg(ops, "vals", np.array([[1.0], [2.0]])):
        ttb.sptensor(s, v, (2, 2))),
    "sptensor-duplicate-subs": lambda c, k, ops: (
        lambda s=_reg(ops, "subs", np.array([[0, 0], [1, 1], [0, 0]])), v=_reg(ops, "vals", np.array([[1.0], [2.0], [3.0]])):
        ttb.sptensor(s, v, (2, 2))),
    "ktensor-columns-differ": lambda c, k, ops: (
        lambda f=_reg(ops, "factor_matrices", [R.CS.aux(c, _ones(2, 2)), _ones(3, 3)]): ttb.ktensor(f)),
    "ktensor-weights-wrong-length": lambda c, k, ops: (
        lambda f=_reg(ops, "factor_matrices", [_ones(2, 2), R.CS.aux(c, _ones(3, 2))]), w=_reg(ops, "weights", _ones(3)): ttb.ktensor(f, w)),
    "ttensor-factor-columns-wrong": lambda c, k, ops: (
        lambda co=_reg(ops, "core", ttb.tensor(_ones(2, 2))), f=_reg(ops, "factors", [R.CS.aux(c, _ones(3, 2)), _ones(3, 3)]):
        ttb.ttensor(co, f)),
    "ttensor-too-few-factors": lambda c, k, ops: (
        lambda co=_reg(ops, "core", ttb.tensor(_ones(2, 2))), f=_reg(ops, "factors", [R.CS.aux(c, _ones(3, 2))]): ttb.ttensor(co, f)),
    "tenmat-dims-do-not-partition": lambda c, k, ops: (
        lambda d=_reg(ops, "data", R.CS.aux(c, _ones(2, 3))), r=_reg(ops, "rdims", np.array([0])), cd=_reg(ops, "cdims", np.array([0])):
        ttb.tenmat(d, r, cd, (2, 3))),
    "tenmat-data-other-size": lambda c, k, ops: (
        lambda d=_reg(ops, "data", R.CS.aux(c, _ones(2, 4))), r=_reg(ops, "rdims", np.array([0])), cd=_reg(ops, "cdims", np.array([1])):
        ttb.tenmat(d, r, cd, (2, 3))),
    "sptenmat-subs-out-of-shape": lambda c, k, ops: (
        lambda s=_reg(ops, "subs", np.array([[0, 0], [2, 1]])), v=_reg(ops, "vals", np.array([[1.0], [2.0]])),
        r=_reg(ops, "rdims", np.array([0])), cd=_reg(ops, "cdims", np.array([1])): ttb.sptenmat(s, v, r, cd, (2, 3))),
    "sumtensor-part-shapes-differ": lambda c, k, ops: (
        lambda p=_reg(ops, "tensors", [ttb.tensor(_ones(2, 3)), ttb.tensor(_ones(3, 2))]): ttb.sumtensor(p)),
    "from_vector-wrong-length": lambda c, k, ops: (
        lambda d=_reg(ops, "data", R.CS.aux(c, np.arange(1.0, 12.0))): ttb.ktensor.from_vector(d, (2, 3), False)),
    # algorithm entry points: the data and the caller's initial guess are the operands
    "cp_als-init-wrong-rank": lambda c, k, ops: (
        lambda X=_reg(ops, "data", _dense_other([2, 3], 0)), i=_reg(ops, "init", ttb.ktensor([_ones(3, 3), _ones(3, 3)])):
        ttb.cp_als(X, 2, init=i, maxiters=2, printitn=k % 2)),
    "cp_als-init-wrong-shape": lambda c, k, ops: (
        lambda X=_reg(ops, "data", _dense_other([2, 3], 0)), i=_reg(ops, "init", ttb.ktensor([_ones(3, 2), _ones(4, 2)])):
        ttb.cp_als(X, 2, init=i, maxiters=2, printitn=k % 2)),
    "cp_als-dimorder-no-permutation": lambda c, k, ops: (
        lambda X=_reg(ops, "data", _dense_other([2, 3], 0)), i=_reg(ops, "init", ttb.ktensor([_ones(3, 2), _ones(3, 2)])),
        d=_reg(ops, "dimorder", np.array([0, 0])): ttb.cp_als(X, 2, init=i, dimorder=d, maxiters=2, printitn=k % 2)),
    "cp_apr-init-wrong-shape": lambda c, k, ops: (
        lambda X=_reg(ops, "data", _dense_other([2, 3], 0)), i=_reg(ops, "init", ttb.ktensor([_ones(3, 2), _ones(4, 2)])):
        ttb.cp_apr(X, 2, init=i, maxiters=2, printitn=k % 2)),
    "cp_apr-unknown-algorithm": lambda c, k, ops: (
        lambda X=_reg(ops, "data", _dense_other([2, 3], 0)), i=_reg(ops, "init", ttb.ktensor([_ones(3, 2), _ones(3, 2)])):
        ttb.cp_apr(X, 2, init=i, algorithm="newton", maxiters=2, printitn=k % 2)),
    "tucker_als-init-wrong-rows": lambda c, k, ops: (
        lambda X=_reg(ops, "data", _dense_other([2, 3], 0)), i=_reg(ops, "init", [_ones(3, 2), _ones(4, 2)]):
        ttb.tucker_als(X, 2, init=i, maxiters=2, printitn=k % 2)),
    "tucker_als-dimorder-no-permutation": lambda c, k, ops: (
        lambda X=_reg(ops, "data", _dense_other([2, 3], 0)), i=_reg(ops, "init", [_ones(3, 2), _ones(3, 2)]),
        d=_reg(ops, "dimorder", np.array([1, 1])): ttb.tucker_als(X, 2, init=i, dimorder=d, maxiters=2, printitn=k % 2)),
    "hosvd-ranks-wrong-length": lambda c, k, ops: (
        lambda X=_reg(ops, "data", _dense_other([2, 3], 0)), r=_reg(ops, "ranks", np.array([1, 1, 1])):
        ttb.hosvd(X, 0.1, ranks=r, verbosity=k % 2)),
    "hosvd-dimorder-no-permutation": lambda c, k, ops: (
        lambda X=_reg(ops, "data", _dense_other([2, 3], 0)), d=_reg(ops, "dimorder", np.array([0, 0])):
        ttb.hosvd(X, 0.1, dimorder=d, verbosity=k % 2)),
}


# --------------------------------------------------------------------------
# cells
# --------------------------------------------------------------------------


def _with_request(base, table):
    names = sorted(table)

    @st.composite
    def g(draw, tier):
        c = draw(base(tier))
        c["req"] = draw(st.sampled_from(names))
        c["k"] = draw(st.integers(0, 5))
        return c

    return g


def _reg_rejected(cls, base, table, build, inplace_requests=(), quick=80, thorough=800):
    @op(cls + "/rejected", _with_request(base, table), quick=quick, thorough=thorough, rejected=True)
    def _(ctx, c, table=table, build=build):
        X = build(c)
        ops = {"self": X}
        ctx.label("req-" + c["req"])
        call = table[c["req"]](X, c, c["k"], ops)
        # a documented in-place operation may change its receiver when it accepts the request; when it rejects it the
        # receiver is judged like every other operand
        return ops, call, ("self" if c["req"] in inplace_requests or c["req"].startswith("setitem") else None)


_reg_rejected("tensor", lambda tier: gen.dense_case(tier, min_order=2, max_order=3), TENSOR, R.CS.build_tensor)
_reg_rejected("sptensor", lambda tier: CSP.sparse(tier, min_order=2, max_order=3, min_nnz=1), SPTENSOR, R.CS.build_sptensor)
_reg_rejected("ktensor", lambda tier: CK.kt(tier, min_order=2, max_order=3), KTENSOR, R.CS.build_ktensor, KT_INPLACE)
_reg_rejected("ttensor", lambda tier: CK.ttc(tier, min_order=2, max_order=3), TTENSOR, R.CS.build_ttensor, quick=40, thorough=400)
_reg_rejected("sumtensor", lambda tier: R.sum_case(tier, min_order=2, max_order=3), SUMTENSOR, R.build_sumtensor, quick=40,
              thorough=400)
_reg_rejected("tenmat", lambda tier: CM.tm_case(tier, min_order=2), TENMAT, CM.TM, quick=30, thorough=300)


@st.composite
def g_ctor_rejected(draw, tier):
    return dict(req=draw(st.sampled_from(sorted(CTOR))), k=draw(st.integers(0, 5)))


@op("ctor/rejected", g_ctor_rejected, quick=40, thorough=400, rejected=True)
def _(ctx, c):
    ops = {}
    ctx.label("req-" + c["req"])
    return ops, CTOR[c["req"]](c, c["k"], ops)


R.pred("rejected_arrange_weight_factor")(lambda c: c.get("req") == "arrange-weight-factor-out-of-range")
R.pred("rejected_setitem_grow_wrong_count")(lambda c: c.get("req") == "setitem-grow-then-wrong-count")
R.pred("rejected_fixsigns_other")(lambda c: str(c.get("req", "")).startswith("fixsigns-other-"))
