"""C19 — ill-formed requests are rejected, not answered.

A *table*: every cell below is one operation; every ``viol`` value inside it is one way of violating one precondition
that the operation STATES.  "Stated" means: an ``assert`` / ``raise`` in the operation's code (or in the helper it
calls for this purpose) or a sentence of its docstring; the text is quoted in the ``STATED`` dictionary next to each
violation and goes into the evidence.  Nothing is inferred from names.  The handful of rows whose only source is the
property statement itself ("mode arguments that are ... repeated", "mismatched shapes in sparse element-wise
products") are marked ``[property statement]`` in STATED.

Each case builds valid operands over a generated shape, applies exactly ONE violation, and chooses coincidences on
purpose: a wrong shape that broadcasts against the right one (a size-1 mode in place of n, or a trailing singleton
mode), a permuted / merged shape with the same element count, a vector whose length is that of a *different* mode, a
repeated mode, an index equal to the bound.

Oracle: the call raises some ``Exception`` (type not constrained) — otherwise kind ``no-exception`` with clause
``<violation>`` — and the bit-exact snapshot of every operand taken before the call equals the one taken after it —
otherwise clause ``<violation>:operand-changed`` — and every operand still satisfies the invariants of its class (data / subs /
vals / factors consistent with the shape) — otherwise ``<violation>:operand-malformed`` (round 4).
"""

from __future__ import annotations

import logging
import os
import shutil
import tempfile

import numpy as np
from hypothesis import strategies as st

import pyttb as ttb
from pyttb import pyttb_utils as ttu

from .. import gen, ref
from ..core import cell

PROPERTY = "C19"
logging.getLogger().setLevel(logging.ERROR)

RULE = (
    "table of (operation, stated precondition, violation); case = (violation, base shape with >=2 modes, >=2 distinct "
    "sizes and singleton modes frequent, small integers selecting which mode / which coincidence, sparsity pattern, "
    "rank) drawn by Hypothesis; valid operands are built from the shape and exactly one violation is applied.  Oracle: "
    "the call raises and the snapshots (shape + dtype + bytes of every array an operand owns) are unchanged.  "
    "One cell per (operation, violation) so that every row of the table has its own counts.  Non-trivial: the "
    "violating operand differs from a valid one in exactly one stated respect (the algorithm and import rows also run the "
    "valid call as a control, which must be answered).  Round 2: the ill-formed part of a request is also generated so "
    "that it has no visible effect on any value (out-of-range subscripts carrying an explicit zero, a cancelling pair, a "
    "zero that is the group's maximum; receivers / other operands / vectors / matrices holding only zeros; sparse operands "
    "whose stored values are all explicit zeros; unused list entries), dense receivers are also grown tensors (C-ordered "
    "buffer, numpy integers in shape), vectors / matrices / subscripts come in integer dtypes (also 255 in uint8), "
    "sumtensor receivers for ttv, sparse files with a subscript beyond the stated size or read with a lower index base; every "
    "rejected request is repeated once and must be rejected again with the operands still unchanged.  Round 3: rows for every "
    "stated shape / size precondition of sumtensor (+, reversed +, + list, innerprod, mttkrp), tenmat (reversed - / +, operand "
    "types), sptenmat (from_array, item assignment), ktensor (from_vector, arrange, fixsigns, mask, normalize, score, symmetrize, "
    "tolist, update, *, to_tenmat), ttensor (mttkrp, reconstruct, *) and mttkrp of sptensor / ktensor / ttensor / sumtensor; "
    "receivers of in-place Kruskal operations that share their arrays with the caller (copy=False: the caller's arrays are "
    "operands too); cp_als / cp_apr requests that also carry maxiters=0 / stoptime=0 (nothing is iterated, the request is "
    "still ill-formed).  Round 4: every rejected request must also leave its operands well-formed (clause :operand-malformed); "
    "item assignment in all key forms on dense and sparse tensors (subscript array, subtensor, linear) with an ill-formed "
    "right-hand side or a later invalid key whose valid part reaches beyond the present extent / adds modes, in-place Kruskal "
    "operations (redistribute, arrange, fixsigns, normalize) with an invalid mode or an inconsistent operand, tenmat item "
    "assignment, sumtensor +=; requests that NumPy broadcasting would hide (C19/broadcast: shapes with mostly / only singleton "
    "modes; selfdims / otherdims of different lengths incl. length 0 and bare ints, orders that differ by singleton modes in "
    "innerprod / sparse operators / Kruskal sums, multiplicand lists of the wrong length on all-ones shapes, one-entry vectors, "
    "single-column factors, scale factors for fewer dims than named); out-of-range / negative / repeated modes in collapse, "
    "contract, mttkrp."
)
ASSUMPTIONS = [
    "exception type is not constrained (AssertionError, ValueError, IndexError raised by numpy on behalf of the "
    "operation all count as rejection)",
    "a precondition is in the table only if the operation states it (assert/raise/docstring, quoted in STATED); rows "
    "marked [property statement] rest on the wording of C19 itself",
]

STATED = {}  # "cell/viol" -> quoted statement


def stated(cellname, **viols):
    for k, v in viols.items():
        STATED[f"{cellname}/{k}"] = v
    return sorted(viols)


# --------------------------------------------------------------------------
# snapshots
# --------------------------------------------------------------------------


def _arr(a):
    a = np.asarray(a)
    return (str(a.dtype), a.shape, a.tobytes())


def snap(x):
    if isinstance(x, ttb.tensor):
        return ("tensor", tuple(x.shape), _arr(x.data))
    if isinstance(x, ttb.sptensor):
        return ("sptensor", tuple(x.shape), _arr(x.subs), _arr(x.vals))
    if isinstance(x, ttb.ktensor):
        return ("ktensor", _arr(x.weights), tuple(_arr(f) for f in x.factor_matrices))
    if isinstance(x, ttb.ttensor):
        return ("ttensor", snap(x.core), tuple(_arr(f) for f in x.factor_matrices))
    if isinstance(x, ttb.tenmat):
        return ("tenmat", tuple(x.tshape), _arr(x.rindices), _arr(x.cindices), _arr(x.data))
    if isinstance(x, ttb.sptenmat):
        return ("sptenmat", tuple(x.tshape), _arr(x.rdims), _arr(x.cdims), _arr(x.subs), _arr(x.vals))
    if isinstance(x, ttb.sumtensor):
        return ("sumtensor", tuple(snap(p) for p in x.parts))
    if isinstance(x, np.ndarray):
        return _arr(x)
    if isinstance(x, (list, tuple)):
        return tuple(snap(e) for e in x)
    return ("other", repr(x))


def wellformed(x):
    """(round 4) the invariants of an object's class: what every operation may rely on, also after a rejected request"""
    try:
        if isinstance(x, ttb.tensor):
            return isinstance(x.data, np.ndarray) and tuple(x.data.shape) == tuple(x.shape)
        if isinstance(x, ttb.sptensor):
            if np.asarray(x.vals).size == 0:
                return np.asarray(x.subs).size == 0
            n = x.vals.shape[0]
            return (x.subs.ndim == 2 and x.subs.shape == (n, len(x.shape)) and x.vals.shape == (n, 1)
                    and np.issubdtype(x.subs.dtype, np.integer) and bool(np.all(x.subs >= 0))
                    and bool(np.all(x.subs < np.array(x.shape, dtype=np.int64)[None, :])))
        if isinstance(x, ttb.ktensor):
            R = x.weights.shape[0]
            return x.weights.ndim == 1 and all(f.ndim == 2 and f.shape[1] == R for f in x.factor_matrices)
        if isinstance(x, ttb.ttensor):
            return (wellformed(x.core) and len(x.factor_matrices) == len(x.core.shape)
                    and all(f.ndim == 2 and f.shape[1] == c for f, c in zip(x.factor_matrices, x.core.shape)))
        if isinstance(x, ttb.tenmat):
            return x.data.size == ref.prod(x.tshape)
        if isinstance(x, ttb.sumtensor):
            return all(wellformed(p) for p in x.parts)
        if isinstance(x, (list, tuple)):
            return all(wellformed(e) for e in x)
        return True
    except Exception:  # noqa: BLE001
        return False


_ALSO = []  # further objects that must stay as they are (arrays a receiver shares with its caller); cleared by begin()


def reject(ctx, viol, fn, *operands):
    """The property says ``fn()`` must raise and leave ``operands`` as they were."""
    operands = tuple(operands) + tuple(_ALSO)
    before = [snap(o) for o in operands]
    raised = False
    try:
        r = fn()
    except Exception:  # noqa: BLE001
        raised = True
    else:
        sh = getattr(r, "shape", None)
        ctx.fail("no-exception", viol, f"returned {type(r).__name__} shape={sh}: {repr(r)[:200]}")
    after = [snap(o) for o in operands]
    ctx.check(before == after, f"{viol}:operand-changed")
    ctx.check(all(wellformed(o) for o in operands), f"{viol}:operand-malformed")
    if not raised:
        return
    # the same request once more: what the rejected attempt left behind (caches, half-done work) must not make it pass
    try:
        r = fn()
    except Exception:  # noqa: BLE001
        pass
    else:
        ctx.fail("no-exception", f"{viol}:second-attempt", f"returned {type(r).__name__} on the second attempt")
    ctx.check(before == [snap(o) for o in operands], f"{viol}:operand-changed-by-second-attempt")


# --------------------------------------------------------------------------
# operands
# --------------------------------------------------------------------------


def vals_for(n, k=0):
    """n small non-zero integers (deterministic, depend on k)"""
    return [float(((i * 7 + 3 * k) % 11) - 5) or 6.0 for i in range(n)]


# Round 2: the state of the operands is part of the case (``state(case)`` is applied by the cell before it builds them):
#   zs / zo  - the receiver / the other operand holds only zeros (dense zero data, zero Kruskal weights, zero Tucker core):
#              the ill-formed request then has no visible effect on any value that could be returned
#   prov     - dense tensors come from the constructor or from growth by assignment (C-ordered buffer, numpy ints in shape)
#   idt      - dtype of the vectors / matrices handed in
_STATE = dict(zs=False, zo=False, prov="ctor", idt="float")


def state(case):
    _STATE.update(zs=bool(case.get("zs")), zo=bool(case.get("zo")), prov=case.get("prov", "ctor"), idt=case.get("idt", "float"))


def _zero(role):
    return _STATE["zs"] if role == "self" else (_STATE["zo"] if role == "other" else False)


def dense(shape, k=0, role="self"):
    shape = tuple(int(s) for s in shape)
    v = [0.0] * ref.prod(shape) if _zero(role) else vals_for(ref.prod(shape), k)
    if _STATE["prov"] == "grown" and role == "self":
        return gen.build_tensor(dict(shape=list(shape), data=v, prov="grown"))
    return ttb.tensor(gen.arr_F(shape, v).copy(order="F"), shape)


def sparse(shape, pattern="some", k=0, role="self"):
    shape = tuple(int(s) for s in shape)
    n = ref.prod(shape)
    subsF = ref.all_subs_F(shape)
    if pattern == "empty":
        keep = []
    elif pattern == "one":
        keep = [k % n]
    elif pattern == "full":
        keep = list(range(n))
    else:
        keep = [i for i in range(n) if (i + k) % 2 == 0] or [0]
    if not keep:
        return ttb.sptensor(shape=shape)
    keep = keep[::-1]  # unsorted storage
    v = vals_for(n, k)
    vals = np.array([v[i] for i in keep], dtype=float).reshape(-1, 1)
    if pattern == "zeros":  # every stored value is an explicitly stored zero (the state S*0 / scale by 0 leave behind)
        vals = vals * 0.0
    return ttb.sptensor(np.array([subsF[i] for i in keep], dtype=int).reshape(len(keep), len(shape)), vals, shape)


def kten(shape, r=2, k=0, role="self"):
    fms = [np.array(vals_for(int(n) * r, k + j), dtype=float).reshape(int(n), r) for j, n in enumerate(shape)]
    w = np.array(vals_for(r, k + 9), dtype=float)
    return ttb.ktensor(fms, w * 0.0 if _zero(role) else w)


def tten(shape, cshape=None, k=0, sparse_core=False, role="self"):
    cshape = [2] * len(shape) if cshape is None else list(cshape)
    if _zero(role):
        core = ttb.tensor(np.zeros(tuple(cshape), order="F"), tuple(cshape))
    else:
        core = sparse(cshape, "some", k) if sparse_core else dense(cshape, k, role="core")
    fms = [np.array(vals_for(int(n) * c, k + j), dtype=float).reshape(int(n), c)
           for j, (n, c) in enumerate(zip(shape, cshape))]
    return ttb.ttensor(core, fms)


def holder(kind, shape, k=0, pattern="some", r=2, role="self"):
    if kind == "tensor":
        return dense(shape, k, role)
    if kind == "sptensor":
        return sparse(shape, pattern, k, role)
    if kind == "ktensor":
        return kten(shape, r, k, role)
    if kind == "ttensor":
        return tten(shape, None, k, role=role)
    if kind == "sumtensor":  # forwards to its parts, whose checks are the stated ones
        return ttb.sumtensor([dense(shape, k, role), sparse(shape, pattern, k + 1, role)])
    raise ValueError(kind)


def other(kind, shape, k=0, pattern="some", r=2):
    return holder(kind, shape, k, pattern, r, role="other")


def num(a):
    """a vector / matrix handed to the operation, in the dtype the case names (zeros when the case says so)"""
    a = np.asarray(a, dtype=float)
    if _STATE["zo"]:
        a = a * 0.0
    return a.astype({"float": np.float64, "int64": np.int64, "int32": np.int32}[_STATE["idt"]])


# --------------------------------------------------------------------------
# shapes and the ways of getting them wrong
# --------------------------------------------------------------------------

MISMATCH = ["singleton-for-n", "n-for-singleton", "permuted-same-count", "merged-same-count", "off-by-one-up",
            "off-by-one-down", "extra-trailing-singleton"]


def mismatch(shape, kind, a):
    """A shape that differs from ``shape`` the way ``kind`` says (falls back to the next applicable kind);
    returns (kind actually applied, other shape)."""
    shape = list(shape)
    N = len(shape)
    order = MISMATCH[MISMATCH.index(kind):] + MISMATCH[: MISMATCH.index(kind)]
    for kd in order:
        if kd == "singleton-for-n":
            c = [i for i in range(N) if shape[i] > 1]
            if c:
                o = list(shape)
                o[c[a % len(c)]] = 1
                return kd, o
        elif kd == "n-for-singleton":
            c = [i for i in range(N) if shape[i] == 1]
            if c:
                o = list(shape)
                o[c[a % len(c)]] = 2 + a % 2
                return kd, o
        elif kd == "permuted-same-count":
            for rot in range(1, N):
                o = shape[(rot + a) % N:] + shape[: (rot + a) % N]
                if o != shape:
                    return kd, o
        elif kd == "merged-same-count":
            if N >= 2:
                i = a % (N - 1)
                o = shape[:i] + [shape[i] * shape[i + 1]] + shape[i + 2:]
                return kd, o
        elif kd == "off-by-one-up":
            o = list(shape)
            o[a % N] += 1
            return kd, o
        elif kd == "off-by-one-down":
            c = [i for i in range(N) if shape[i] > 1]
            if c:
                o = list(shape)
                o[c[a % len(c)]] -= 1
                return kd, o
        elif kd == "extra-trailing-singleton":
            return kd, shape + [1]
    raise AssertionError("unreachable")


@st.composite
def base_shape(draw, tier, min_order=2, max_order=4):
    """>=2 modes, at least one mode > 1, at least two distinct sizes; singleton modes frequent."""
    N = draw(st.integers(min_order, max_order))
    maxs = 4 if tier == "quick" else 5
    shape = [draw(st.sampled_from([1, 2, 2, 3, 3, 4, maxs])) for _ in range(N)]
    if len(set(shape)) < 2:
        i = draw(st.integers(0, N - 1))
        shape[i] = shape[i] % maxs + 1 if shape[i] % maxs + 1 != shape[i] else 2
        if len(set(shape)) < 2:  # N == 1 cannot have two sizes
            pass
    while ref.prod(shape) > (96 if tier == "quick" else 300):
        j = int(np.argmax(shape))
        shape[j] -= 1
        if len(set(shape)) < 2 and N > 1:
            shape[j] = max(1, shape[j] - 1)
    return shape


def table_case(viols, min_order=2, max_order=4, **extra):
    """strategy factory: dict(viol, shape, a, b, k, pattern, r, mm) + extra sampled fields"""

    @st.composite
    def strat(draw, tier):
        c = dict(
            viol=draw(st.sampled_from(viols)),
            shape=draw(base_shape(tier, min_order, max_order)),
            a=draw(st.integers(0, 7)),
            b=draw(st.integers(0, 7)),
            k=draw(st.integers(0, 5)),
            pattern=draw(st.sampled_from(["some", "some", "full", "one", "empty", "zeros"])),
            r=draw(st.integers(1, 3)),
            mm=draw(st.sampled_from(MISMATCH)),
            zs=draw(st.sampled_from([False, False, False, True])),
            zo=draw(st.sampled_from([False, False, False, True])),
            prov=draw(st.sampled_from(["ctor", "ctor", "grown"])),
            idt=draw(st.sampled_from(["float", "float", "int64", "int32"])),
        )
        for name, choices in extra.items():
            c[name] = draw(st.sampled_from(choices))
        return c

    return strat


def table(cellname, viols, per=40, min_order=2, max_order=4, tmul=20, **extra):
    """one cell per (operation, violation): `cellname/<violation>`, `per` cases each (x20 in the thorough tier; x`tmul`)"""

    def deco(fn):
        for v in viols:
            cell(f"{cellname}/{v}", strategy=table_case([v], min_order, max_order, **extra), quick=per, thorough=per * tmul,
                 shards=(1, 2))(fn)
        return fn

    return deco


def other_mode_len(shape, n, a):
    """length of a mode different from shape[n] (a vector of that length matches *another* mode), else shape[n]+1"""
    c = [s for i, s in enumerate(shape) if i != n and s != shape[n]]
    return c[a % len(c)] if c else shape[n] + 1


def pick_distinct_mode(shape, a):
    """a mode whose size differs from some other mode's size"""
    N = len(shape)
    for off in range(N):
        n = (a + off) % N
        if any(s != shape[n] for i, s in enumerate(shape) if i != n):
            return n
    return a % N


def begin(ctx, cellname, case, *labels, plain=False):
    if plain:  # rows whose valid control call needs ordinary data: operands as in round 1
        case = dict(case, zs=False, zo=False, prov="ctor", idt="float")
    state(case)
    _ALSO.clear()
    ctx.label("viol-" + case["viol"], *labels, "receiver-zero" if case.get("zs") else "receiver-nonzero",
              "other-zero" if case.get("zo") else "other-nonzero", "dense-" + case.get("prov", "ctor"),
              "args-" + case.get("idt", "float"))
    ctx.nt = True
    ctx.notes["stated"] = STATED.get(f"{cellname}/{case['viol']}", "")


# ==========================================================================
# tt_dimscheck (pyttb_utils.py:150-202)
# ==========================================================================

_V = stated(
    "C19/dimscheck",
    both="ValueError('Either specify dims to include or exclude, but not both')",
    exclude_equal_bound="ValueError('Exclude dims provided ... were out of valid range[0,N]') — index equal to N",
    exclude_negative="same check: negative exclude_dims",
    negative_dims="ValueError(\"Negative dims aren't allowed in pyttb, see exclude_dims argument instead\")",
    more_multiplicands_than_modes="assert 'Cannot have more multiplicands than dimensions'",
    multiplicands_neither_N_nor_P="assert 'Invalid number of multiplicands'",
)


@table("C19/dimscheck", _V, min_order=1, max_order=5)
def c_dimscheck(ctx, case):
    begin(ctx, "C19/dimscheck", case, plain=True)
    N = len(case["shape"])
    v, a, b = case["viol"], case["a"], case["b"]
    valid = [m for m in range(N) if (a >> m) & 1] or [b % N]
    form = (lambda x: np.array(x)) if b % 2 else (lambda x: list(x))
    if v == "both":
        reject(ctx, v, lambda: ttu.tt_dimscheck(N, None, form(valid), form([b % N])))
    elif v == "exclude_equal_bound":
        ex = valid[: b % (len(valid) + 1)] + [N]
        reject(ctx, v, lambda: ttu.tt_dimscheck(N, None, None, form(ex)))
    elif v == "exclude_negative":
        ex = [-1 - (b % N)] + valid[: a % (len(valid) + 1)]
        reject(ctx, v, lambda: ttu.tt_dimscheck(N, None, None, form(ex)))
    elif v == "negative_dims":
        d = valid[: b % (len(valid) + 1)] + [-1 - (a % N)]
        reject(ctx, v, lambda: ttu.tt_dimscheck(N, None, form(d)))
        reject(ctx, v, lambda: ttu.tt_dimscheck(N, len(d), form(d)))
    elif v == "more_multiplicands_than_modes":
        reject(ctx, v, lambda: ttu.tt_dimscheck(N, N + 1 + b % 2, form(valid)))
    else:
        P = len(valid)
        bad = [m for m in range(0, N + 1) if m not in (N, P)]
        if not bad:
            ctx.skip("no bad M")
        reject(ctx, v, lambda: ttu.tt_dimscheck(N, bad[b % len(bad)], form(valid)))


# ==========================================================================
# tensor
# ==========================================================================

_V = stated(
    "C19/tensor/ctor",
    size_mismatch="tensor.py:177 'TTB:WrongSize, Size of data does not match specified size of tensor'",
    non_numeric_data="tensor.py:162 'First argument must be a multidimensional array.' (dtype neither number nor bool)",
)


@table("C19/tensor/ctor", _V)
def c_tensor_ctor(ctx, case):
    begin(ctx, "C19/tensor/ctor", case)
    shape, a = case["shape"], case["a"]
    data = gen.arr_F(shape, vals_for(ref.prod(shape)))
    if case["viol"] == "size_mismatch":
        kinds = [m for m in MISMATCH if "same-count" not in m and m != "extra-trailing-singleton"]
        kd, other = mismatch(shape, kinds[a % len(kinds)], case["b"])
        if ref.prod(other) == ref.prod(shape):
            other = list(other)
            other[0] += 1
        ctx.label("mm-" + kd, "flat-data" if a % 2 else "nd-data")
        d = data.ravel(order="F").copy() if a % 2 else data
        reject(ctx, "size_mismatch", lambda: ttb.tensor(d, tuple(other)), d)
    else:
        d = np.array([["a", "b"], ["c", "d"]]) if a % 2 else np.array([[None, 1], [2, 3]], dtype=object)
        reject(ctx, "non_numeric_data", lambda: ttb.tensor(d), )


_V = stated(
    "C19/tensor/innerprod",
    shape_mismatch="tensor.py:742 'Inner product must be between tensors of the same size' (tensor); sptensor.py:913, "
                   "ktensor.py:1051, ttensor.py:325 for the other holders (the call is forwarded to them)",
)


@table("C19/tensor/innerprod", _V, per=150, other=["tensor", "tensor", "sptensor", "ktensor", "ttensor"])
def c_tensor_innerprod(ctx, case):
    begin(ctx, "C19/tensor/innerprod", case, "other-" + case["other"])
    kd, oshape = mismatch(case["shape"], case["mm"], case["a"])
    ctx.label("mm-" + kd)
    X = dense(case["shape"], case["k"])
    Y = other(case["other"], oshape, case["k"] + 1, case["pattern"], case["r"])
    reject(ctx, f"shape_mismatch/{case['other']}", lambda: X.innerprod(Y), X, Y)


_V = stated(
    "C19/tensor/mttkrp",
    fewer_than_two_modes="tensor.py:1037 'MTTKRP is invalid for tensors with fewer than 2 dimensions'",
    list_wrong_length="pyttb_utils.py:814 'List of factor matrices is the wrong length'",
    factor_rows_wrong="tensor.py:1051 'Entry i of list of arrays is wrong size' (i != n)",
    factor_columns_differ="khatrirao.py:55 'All matrices must have the same number of columns.'",
)


@table("C19/tensor/mttkrp", _V)
def c_tensor_mttkrp(ctx, case):
    begin(ctx, "C19/tensor/mttkrp", case)
    shape, a, b, r, v = case["shape"], case["a"], case["b"], case["r"] + 1, case["viol"]
    N = len(shape)
    if v == "fewer_than_two_modes":
        X = dense([shape[0] + 1])
        U = [np.ones((shape[0] + 1, r))]
        reject(ctx, v, lambda: X.mttkrp(U, 0), X, U)
        return
    X = dense(shape, case["k"])
    U = [num(np.array(vals_for(n * r, j), dtype=float).reshape(n, r)) for j, n in enumerate(shape)]
    n = a % N
    if v == "list_wrong_length":
        U2 = U[:-1] if b % 2 else U + [np.ones((1, r))]
        ctx.label("shorter" if b % 2 else "longer")
        if len(U2) == 0:
            U2 = U + [np.ones((1, r))]
        reject(ctx, v, lambda: X.mttkrp(U2, min(n, len(U2) - 1)), X, U2)
    elif v == "factor_rows_wrong":
        i = [j for j in range(N) if j != n][b % (N - 1)]
        rows = other_mode_len(shape, i, b)
        ctx.label("rows-of-another-mode" if rows in shape else "rows-off-by-one")
        U[i] = np.ones((rows, r))
        reject(ctx, v, lambda: X.mttkrp(U, n), X, U)
    else:
        if N == 2:  # with two modes only one factor is used: add a mode
            shape = list(shape) + [2]
            N = 3
            X = dense(shape, case["k"])
            U = [num(np.array(vals_for(m * r, j), dtype=float).reshape(m, r)) for j, m in enumerate(shape)]
        i = [j for j in range(N) if j != n][b % (N - 1)]
        U[i] = np.ones((shape[i], r + 1))
        reject(ctx, v, lambda: X.mttkrp(U, n), X, U)


_PERM_V = dict(
    wrong_length="'Invalid permutation order' (order.size != ndims)",
    too_long_covers_all="same: an order longer than ndims that still names every mode (one mode repeated) is not a permutation",
    repeated_mode="'Invalid permutation order' — an order with a repeated mode is not a permutation",
    all_ones="same, the all-ones order (tensor.py:1265 special-cases it)",
    entry_equal_bound="same, an entry equal to ndims",
    negative_entry="same, a negative entry (pyttb_utils.py:182 \"Negative dims aren't allowed in pyttb\")",
)


def bad_order(N, viol, a, b):
    ident = list(range(N))
    p = ident[a % N:] + ident[: a % N]
    if viol == "wrong_length":
        return p[:-1] if b % 2 and N > 1 else p + [N]
    if viol == "too_long_covers_all":
        q = list(p)
        q.insert((a + b) % (N + 1), p[b % N])
        return q
    if viol == "repeated_mode":
        q = list(p)
        q[b % N] = q[(b + 1) % N]
        return q
    if viol == "all_ones":
        return [1] * N
    if viol == "entry_equal_bound":
        q = list(p)
        q[b % N] = N
        return q
    q = list(p)
    i = b % N
    q[i] = q[i] - N  # the same axis numpy-style
    return q


_V = stated("C19/tensor/permute", **{k: "tensor.py:1258 " + v for k, v in _PERM_V.items()})


@table("C19/tensor/permute", _V)
def c_tensor_permute(ctx, case):
    begin(ctx, "C19/tensor/permute", case)
    X = dense(case["shape"], case["k"])
    o = bad_order(len(case["shape"]), case["viol"], case["a"], case["b"])
    arg = np.array(o) if case["k"] % 2 else list(o)
    reject(ctx, case["viol"], lambda: X.permute(arg), X)


_V = stated("C19/tensor/reshape",
            element_count_changes="tensor.py:1294 'Reshaping a tensor cannot change number of elements'")


@table("C19/tensor/reshape", _V)
def c_tensor_reshape(ctx, case):
    begin(ctx, "C19/tensor/reshape", case)
    kinds = ["singleton-for-n", "n-for-singleton", "off-by-one-up", "off-by-one-down"]
    kd, other = mismatch(case["shape"], kinds[case["a"] % 4], case["b"])
    if ref.prod(other) == ref.prod(case["shape"]):
        other = list(other) + [2]
    ctx.label("mm-" + kd)
    X = dense(case["shape"], case["k"])
    reject(ctx, "element_count_changes", lambda: X.reshape(tuple(other)), X)


_V = stated(
    "C19/tensor/to_tenmat",
    neither_given="tensor.py:692 'Either rdims or cdims or both must be specified.'",
    rdims_equal_bound="tensor.py:694 'Values in rdims must be in [0, source.ndims].'",
    cdims_equal_bound="tensor.py:696 'Values in cdims must be in [0, source.ndims].'",
    rdims_negative="tensor.py:694 (same)",
    overlap="tensor.py:707 'the sorted concatenation of rdims and cdims must be range(source.ndims)' — a mode in both",
    missing_mode="tensor.py:707 (same) — a mode in neither",
    repeated_in_rdims="tensor.py:707 (same) — a mode twice in rdims",
)


def bad_partition(N, viol, a, b):
    modes = list(range(N))
    k = 1 + a % max(1, N - 1)
    r, c = modes[:k], modes[k:]
    if viol == "rdims_equal_bound":
        return r[:-1] + [N], c + r[-1:]
    if viol == "cdims_equal_bound":
        return r + c[-1:], c[:-1] + [N]
    if viol == "rdims_negative":
        return [-1] + r[1:], c + r[:1]
    if viol == "overlap":
        return r, c + [r[b % len(r)]]
    if viol == "missing_mode":
        return (r, c[:-1]) if c else (r[:-1], c)
    if viol == "repeated_in_rdims":
        # same number of entries as modes: one mode twice, another missing
        if c:
            return r + [r[b % len(r)]], c[:-1]
        return r[:-1] + [r[0]], c
    raise ValueError(viol)


@table("C19/tensor/to_tenmat", _V)
def c_tensor_to_tenmat(ctx, case):
    begin(ctx, "C19/tensor/to_tenmat", case)
    X = dense(case["shape"], case["k"])
    N = len(case["shape"])
    v = case["viol"]
    if v == "neither_given":
        reject(ctx, v, lambda: X.to_tenmat(), X)
        return
    r, c = bad_partition(N, v, case["a"], case["b"])
    reject(ctx, v, lambda: X.to_tenmat(rdims=np.array(r, dtype=int), cdims=np.array(c, dtype=int)), X)


_V = stated(
    "C19/tensor/contract",
    unequal_sizes="tensor.py:460 'Must contract along equally sized dimensions'",
    same_mode_twice="tensor.py:463 'Must contract along two different dimensions'",
)


@table("C19/tensor/contract", _V, per=60, holder=["tensor", "sptensor"])
def c_contract(ctx, case):
    """tensor.contract and sptensor.contract (sptensor.py:553-557 state the same two conditions)"""
    begin(ctx, "C19/tensor/contract", case, case["holder"])
    shape = list(case["shape"])
    N = len(shape)
    X = holder(case["holder"], shape, case["k"], case["pattern"])
    if case["viol"] == "unequal_sizes":
        i = pick_distinct_mode(shape, case["a"])
        j = [m for m in range(N) if shape[m] != shape[i]][case["b"] % len([m for m in range(N) if shape[m] != shape[i]])]
        ctx.label("one-is-singleton" if 1 in (shape[i], shape[j]) else "both-proper")
        reject(ctx, f"unequal_sizes/{case['holder']}", lambda: X.contract(i, j), X)
    else:
        i = case["a"] % N
        reject(ctx, f"same_mode_twice/{case['holder']}", lambda: X.contract(i, i), X)


_V = stated(
    "C19/tensor/scale",
    factor_wrong_length="tensor.py:1344 ValueError('Scaling factor has shape ..., but dimensions to scale had shape ...')",
    tensor_factor_wrong_shape="same check with a tensor as factor",
)


@table("C19/tensor/scale", _V)
def c_tensor_scale(ctx, case):
    begin(ctx, "C19/tensor/scale", case)
    shape = case["shape"]
    X = dense(shape, case["k"])
    n = pick_distinct_mode(shape, case["a"])
    if case["viol"] == "factor_wrong_length":
        L = other_mode_len(shape, n, case["b"]) if case["b"] % 3 else 1 if shape[n] != 1 else 2
        ctx.label("length-of-another-mode" if L in shape else "other-length", "length-1" if L == 1 else "length>1")
        f = num(np.arange(1.0, L + 1))
        reject(ctx, "factor_wrong_length", lambda: X.scale(f, n), X, f)
    else:
        N = len(shape)
        m = (n + 1) % N
        d = sorted({n, m})
        kd, other_shape = mismatch([shape[i] for i in d], case["mm"], case["b"])
        ctx.label("mm-" + kd)
        F = dense(other_shape, 1, role="other")
        reject(ctx, "tensor_factor_wrong_shape", lambda: X.scale(F, np.array(d)), X, F)


# -- ttm / ttv / ttt: shared by the holders that have them ------------------------------------------------------------

_TTV_V = dict(
    vector_wrong_length="'Multiplicand is wrong size' (tensor.py:1784, sptensor.py:1984, ktensor.py:2094, ttensor.py:407)",
    list_length_neither_N_nor_P="pyttb_utils.py:201 'Invalid number of multiplicands'",
    more_vectors_than_modes="pyttb_utils.py:196 'Cannot have more multiplicands than dimensions'",
    dims_and_exclude="pyttb_utils.py:150 'Either specify dims to include or exclude, but not both'",
    negative_dim="pyttb_utils.py:181 \"Negative dims aren't allowed in pyttb\"",
    exclude_equal_bound="pyttb_utils.py:162 exclude_dims 'out of valid range'",
    dim_equal_bound="[property statement] 'mode arguments that are out of range'",
    repeated_dim="[property statement] 'mode arguments that are ... repeated'",
)


def _vec(n, k=0):
    return num(np.array(vals_for(int(n), k), dtype=float))


def ttv_violation(ctx, X, shape, case, what):
    """apply one ttv violation to holder X of shape ``shape``"""
    N = len(shape)
    v, a, b = case["viol"], case["a"], case["b"]
    name = f"{v}/{what}"
    if v == "vector_wrong_length":
        n = pick_distinct_mode(shape, a)
        L = other_mode_len(shape, n, b)
        ctx.label("length-of-another-mode" if L in shape else "length-off-by-one")
        style = b % 3
        if style == 0:  # single vector, dims = n
            vec = _vec(L)
            reject(ctx, name, lambda: X.ttv(vec, n), X, vec)
        elif style == 1:  # one vector per mode, the n-th wrong
            vs = [_vec(s, j) for j, s in enumerate(shape)]
            vs[n] = _vec(L)
            reject(ctx, name, lambda: X.ttv(vs), X, vs)
        else:  # two modes given out of order, vectors swapped (each has the other's length)
            m = [j for j in range(N) if shape[j] != shape[n]][0]
            vs = [_vec(shape[n]), _vec(shape[m])]
            ctx.label("swapped-vectors")
            reject(ctx, name, lambda: X.ttv(vs, np.array([m, n])), X, vs)
    elif v == "list_length_neither_N_nor_P":
        if N < 3:
            vs = [_vec(shape[0])] * 0
            # dims = [0] with zero vectors is not expressible; use N-1 vectors with dims of length 1 only when N>=3
            shape = list(shape) + [2]
            X = type(X) is ttb.tensor and dense(shape, case["k"]) or X
            N = len(X.shape)
            shape = list(X.shape)
        if N < 3:
            ctx.skip("needs three modes")
        d = [a % N]
        vs = [_vec(shape[d[0]]), _vec(shape[(d[0] + 1) % N])]  # 2 vectors, P = 1, N >= 3
        reject(ctx, name, lambda: X.ttv(vs, np.array(d)), X, vs)
    elif v == "more_vectors_than_modes":
        vs = [_vec(s, j) for j, s in enumerate(shape)] + [_vec(1)]
        reject(ctx, name, lambda: X.ttv(vs), X, vs)
    elif v == "dims_and_exclude":
        n = a % N
        vec = _vec(shape[n])
        reject(ctx, name, lambda: X.ttv(vec, dims=n, exclude_dims=np.array([(n + 1) % N])), X, vec)
    elif v == "negative_dim":
        n = a % N
        vec = _vec(shape[n])
        reject(ctx, name, lambda: X.ttv(vec, np.array([n - N])), X, vec)
    elif v == "exclude_equal_bound":
        vs = [_vec(s, j) for j, s in enumerate(shape)]
        reject(ctx, name, lambda: X.ttv(vs, exclude_dims=np.array([N])), X, vs)
    elif v == "dim_equal_bound":
        vec = _vec(shape[-1])
        reject(ctx, name, lambda: X.ttv(vec, np.array([N])), X, vec)
    elif v == "repeated_dim":
        n = a % N
        vs = [_vec(shape[n], 1), _vec(shape[n], 2)]
        ctx.label("singleton-mode" if shape[n] == 1 else "proper-mode")
        reject(ctx, name, lambda: X.ttv(vs, np.array([n, n])), X, vs)
    else:
        raise ValueError(v)


_V = stated("C19/ttv", **_TTV_V)


@table("C19/ttv", _V, per=100, min_order=3, holder=["tensor", "sptensor", "ktensor", "ttensor", "sumtensor"])
def c_ttv(ctx, case):
    begin(ctx, "C19/ttv", case, case["holder"])
    X = holder(case["holder"], case["shape"], case["k"], case["pattern"], case["r"])
    ttv_violation(ctx, X, list(case["shape"]), case, case["holder"])


_TTM_V = dict(
    matrix_wrong_size="sptensor.py:3539 'Matrix shape doesn't match tensor shape'; ttensor.py:544 'Multiplicand i is wrong "
                      "size'; tensor.ttm: the product it documents (matrix @ unfolding) is undefined",
    matrix_transposed_shape="same, the matrix has the shape that would be right with the other value of transpose",
    not_a_matrix="sptensor.py:3520 'second argument must be a matrix'; tensor.py:1602 'matrix must be of type numpy.ndarray'",
    single_matrix_two_dims="tensor.py:1607 / sptensor.py:3532 'dims must contain values in [0,self.dims)' (dims.size == 1)",
    dim_equal_bound="same assertion: value equal to ndims",
    negative_dim="pyttb_utils.py:181 \"Negative dims aren't allowed in pyttb\"",
    list_length_neither_N_nor_P="pyttb_utils.py:201 'Invalid number of multiplicands'",
    dims_and_exclude="pyttb_utils.py:150 'Either specify dims to include or exclude, but not both'",
    repeated_dim_with_list="[property statement] 'mode arguments that are ... repeated'",
)


def ttm_violation(ctx, X, shape, case, what):
    N = len(shape)
    v, a, b = case["viol"], case["a"], case["b"]
    name = f"{v}/{what}"
    tr = bool(b % 2)
    n = pick_distinct_mode(shape, a)
    p = 2 + a % 2

    def mat(rows_in, k=0):  # a matrix that multiplies a mode of length rows_in
        M = num(np.array(vals_for(p * rows_in, k), dtype=float).reshape(p, rows_in))
        return M.T.copy() if tr else M

    if v == "matrix_wrong_size":
        L = other_mode_len(shape, n, b)
        ctx.label("inner-size-of-another-mode" if L in shape else "inner-size-off-by-one", "transpose" if tr else "plain")
        M = mat(L)
        reject(ctx, name, lambda: X.ttm(M, n, transpose=tr), X, M)
    elif v == "matrix_transposed_shape":
        if p == shape[n]:
            p += 1
        M = np.array(vals_for(p * shape[n]), dtype=float).reshape(p, shape[n])
        M = M if tr else M.T.copy()  # right for the other flag, wrong for this one
        reject(ctx, name, lambda: X.ttm(M, n, transpose=tr), X, M)
    elif v == "not_a_matrix":
        if what != "sptensor":  # only sptensor.ttm states it (tensor.ttm states the type, not the rank, of the argument)
            X = sparse(shape, case["pattern"], case["k"])
            name = f"{v}/sptensor"
        M = _vec(shape[n]) if b % 2 else np.ones((p, shape[n], 1))
        reject(ctx, name, lambda: X.ttm(M, n), X, M)
    elif v == "single_matrix_two_dims":
        m = (n + 1) % N
        M = mat(shape[n])
        reject(ctx, name, lambda: X.ttm(M, np.array([n, m]), transpose=tr), X, M)
    elif v == "dim_equal_bound":
        M = mat(shape[-1])
        reject(ctx, name, lambda: X.ttm(M, np.array([N]), transpose=tr), X, M)
        reject(ctx, name, lambda: X.ttm(M, N, transpose=tr), X, M)
    elif v == "negative_dim":
        M = mat(shape[n])
        reject(ctx, name, lambda: X.ttm(M, np.array([n - N]), transpose=tr), X, M)
    elif v == "list_length_neither_N_nor_P":
        Ms = [mat(shape[n]), mat(shape[(n + 1) % N], 1)]
        reject(ctx, name, lambda: X.ttm(Ms, np.array([n]), transpose=tr), X, Ms)
    elif v == "dims_and_exclude":
        M = mat(shape[n])
        reject(ctx, name, lambda: X.ttm(M, dims=n, exclude_dims=np.array([(n + 1) % N]), transpose=tr), X, M)
    elif v == "repeated_dim_with_list":
        # two square matrices for the same mode: every size check passes
        s = shape[n]
        Ms = [np.array(vals_for(s * s, 1), dtype=float).reshape(s, s), np.array(vals_for(s * s, 2), dtype=float).reshape(s, s)]
        ctx.label("singleton-mode" if s == 1 else "proper-mode")
        reject(ctx, name, lambda: X.ttm(Ms, np.array([n, n]), transpose=tr), X, Ms)
    else:
        raise ValueError(v)


_V = stated("C19/ttm", **_TTM_V)


@table("C19/ttm", _V, per=100, min_order=3, holder=["tensor", "sptensor", "ttensor"])
def c_ttm(ctx, case):
    begin(ctx, "C19/ttm", case, case["holder"])
    X = holder(case["holder"], case["shape"], case["k"], case["pattern"], case["r"])
    ttm_violation(ctx, X, list(case["shape"]), case, case["holder"])


_V = stated(
    "C19/tensor/ttt",
    contracted_sizes_differ="tensor.py:1706 'Specified dimensions do not match'",
    other_not_tensor="tensor.py:1691 'other must be of type tensor'",
)


@table("C19/tensor/ttt", _V)
def c_tensor_ttt(ctx, case):
    begin(ctx, "C19/tensor/ttt", case)
    shape = list(case["shape"])
    N = len(shape)
    X = dense(shape, case["k"])
    if case["viol"] == "other_not_tensor":
        Y = sparse(shape, "some") if case["a"] % 2 else np.ones(tuple(shape))
        reject(ctx, "other_not_tensor", lambda: X.ttt(Y, np.arange(N), np.arange(N)), X)
        return
    n = pick_distinct_mode(shape, case["a"])
    L = other_mode_len(shape, n, case["b"])
    style = case["b"] % 3
    if style == 0:  # same mode index, other tensor has a different size there (size of another mode)
        oshape = list(shape)
        oshape[n] = L
        Y = dense(oshape, 1, role="other")
        ctx.label("one-mode", "singleton-vs-n" if 1 in (L, shape[n]) else "n-vs-m")
        reject(ctx, "contracted_sizes_differ", lambda: X.ttt(Y, np.array([n]), np.array([n])), X, Y)
    elif style == 1:  # all modes against a permuted copy: same element count
        kd, oshape = mismatch(shape, "permuted-same-count", case["a"])
        Y = dense(oshape, 1, role="other")
        ctx.label("all-modes-" + kd)
        if len(oshape) != N:
            reject(ctx, "contracted_sizes_differ", lambda: X.ttt(Y, np.arange(N), np.arange(len(oshape))), X, Y)
        else:
            reject(ctx, "contracted_sizes_differ", lambda: X.ttt(Y, np.arange(N), np.arange(N)), X, Y)
    else:  # two modes paired crosswise with an identical tensor: sizes (s_n, s_m) vs (s_m, s_n)
        m = [j for j in range(N) if shape[j] != shape[n]][0]
        Y = dense(shape, 1, role="other")
        ctx.label("crosswise-pairing")
        reject(ctx, "contracted_sizes_differ", lambda: X.ttt(Y, np.array([n, m]), np.array([m, n])), X, Y)


# ==========================================================================
# sptensor
# ==========================================================================

_V = stated(
    "C19/sptensor/ctor",
    subscript_equal_bound="sptensor.py:152 'Shape provided was incorrect to fit all subscripts'",
    subs_width_differs="same assertion (subs.shape[1] == len(shape))",
    only_subs="sptensor.py:144 'If subs or vals are provided they must both be provided.'",
    only_vals="same",
    empty_with_zero_size="sptensor.py:140 ValueError('Invalid shape provided') for the empty constructor",
)


def ctor_subs_class(case):
    """pure function of the case: dtype of the subscript array handed to the constructor and whether the offending entry
    is the largest value of an unsigned byte"""
    sdt = ["int64", "int32", "uint8", "uint8"][case["k"] % 4]
    return sdt, (sdt == "uint8" and case["b"] % 2 == 1)


@table("C19/sptensor/ctor", _V)
def c_sptensor_ctor(ctx, case):
    begin(ctx, "C19/sptensor/ctor", case)
    shape = list(case["shape"])
    N = len(shape)
    S = sparse(shape, "some", case["k"])
    subs, vals = S.subs.copy(), S.vals.copy()
    v, a = case["viol"], case["a"]
    if v == "subscript_equal_bound":
        m = a % N
        sdt, top = ctor_subs_class(case)
        subs = subs.astype(sdt)
        # equal to the bound, or (unsigned bytes) the largest value the dtype holds: 255 + 1 must not wrap to 0
        subs[case["b"] % len(subs), m] = 255 if top else shape[m]
        ctx.label("subs-" + sdt, "offending-subscript-top-of-dtype" if top else "offending-subscript-equal-bound")
        v = v + ("/top-of-dtype" if top else "")
        if case.get("zo"):  # the offending entry is an explicitly stored zero: it changes no value of the tensor
            vals[case["b"] % len(subs), 0] = 0.0
            ctx.label("offending-value-zero")
        reject(ctx, v, lambda: ttb.sptensor(subs, vals, tuple(shape)), subs, vals)
    elif v == "subs_width_differs":
        if a % 2:
            s2 = np.hstack([subs, np.zeros((len(subs), 1), dtype=int)])  # an extra all-zero column
            ctx.label("extra-zero-column")
        else:
            s2 = subs[:, :-1]
            ctx.label("dropped-column")
        reject(ctx, v, lambda: ttb.sptensor(s2, vals, tuple(shape)), s2, vals)
    elif v == "only_subs":
        reject(ctx, v, lambda: ttb.sptensor(subs, None, tuple(shape)), subs)
    elif v == "only_vals":
        reject(ctx, v, lambda: ttb.sptensor(None, vals, tuple(shape)), vals)
    else:
        sh = list(shape)
        sh[a % N] = 0 if case["b"] % 2 else -1
        reject(ctx, v, lambda: ttb.sptensor(shape=tuple(sh)))


_V = stated(
    "C19/sptensor/from_aggregator",
    count_mismatch="sptensor.py:324 'Number of subscripts and values must be equal'",
    subs_wider_than_shape="sptensor.py:335 'More subscripts than specified by shape'",
    subscript_equal_bound="sptensor.py:340 'Subscript exceeds sptensor shape'",
    negative_subscript="pyttb_utils.py:649 'Subscripts must be a matrix of real positive integers'",
    float_subscripts="same (integer dtype required)",
    vals_not_a_column="pyttb_utils.py:690 'Values must be in array' (column array required)",
    zero_size_shape="pyttb_utils.py:601 'Size must be a row vector of real positive integers'",
)


_EFFECTS = ["nonzero", "nonzero", "zero-value", "cancelling-pair", "all-bad-all-cancel", "zero-under-max"]


def with_bad_row(subs, vals, bad, effect, pos):
    """subscripts / values with the ill-formed row ``bad`` attached so that its aggregated value is what ``effect`` says:
    a non-zero value, an explicit 0.0, two contributions that cancel exactly, nothing but cancelling bad rows, or a 0.0
    that is the maximum of its group (for function_handle=max)"""
    bad = np.asarray(bad, dtype=subs.dtype).reshape(1, -1)
    pos = pos % (len(subs) + 1)
    if effect == "nonzero":
        extra_s, extra_v = bad, [[3.0]]
    elif effect == "zero-value":
        extra_s, extra_v = bad, [[0.0]]
    elif effect == "zero-under-max":
        extra_s, extra_v = np.vstack([bad, bad]), [[-2.0], [0.0]]
    else:
        extra_s, extra_v = np.vstack([bad, bad]), [[2.5], [-2.5]]
    if effect == "all-bad-all-cancel":
        return extra_s.copy(), np.array(extra_v, dtype=float), {}
    s2 = np.vstack([subs[:pos], extra_s[:1], subs[pos:], extra_s[1:]])
    v2 = np.vstack([vals[:pos], np.array(extra_v[:1], dtype=float), vals[pos:], np.array(extra_v[1:], dtype=float).reshape(-1, 1)])
    return s2, v2, (dict(function_handle="max") if effect == "zero-under-max" else {})


@table("C19/sptensor/from_aggregator", _V, min_order=1, effect=_EFFECTS)
def c_sptensor_agg(ctx, case):
    begin(ctx, "C19/sptensor/from_aggregator", case, "effect-" + case["effect"])
    shape = list(case["shape"])
    N = len(shape)
    S = sparse(shape, "some" if case["pattern"] == "empty" else case["pattern"], case["k"])
    subs, vals = S.subs.copy(), S.vals.copy()
    v, a, b = case["viol"], case["a"], case["b"]
    ctx.label(f"rows-{min(len(subs), 2)}{'+' if len(subs) > 2 else ''}", f"order{min(N, 2)}{'+' if N > 2 else ''}")
    if v == "count_mismatch":
        if b % 2 and len(vals) > 1:
            v2 = vals[:-1]
            ctx.label("one-value-fewer")
        else:
            v2 = np.vstack([vals, [[7.0]]])
            ctx.label("one-value-more")
        reject(ctx, v, lambda: ttb.sptensor.from_aggregator(subs, v2, tuple(shape)), subs, v2)
    elif v == "subs_wider_than_shape":
        s2 = np.hstack([subs, np.zeros((len(subs), 1), dtype=int)])
        reject(ctx, v, lambda: ttb.sptensor.from_aggregator(s2, vals, tuple(shape)), s2, vals)
    elif v == "subscript_equal_bound":
        # the offending row's aggregated value may be anything - also exactly zero (then nothing of it would show in
        # the result): an explicit zero, a cancelling pair, an input that consists of cancelling bad rows only
        m = a % N
        bad = subs[b % len(subs)].copy()
        bad[m] = shape[m] + (case["k"] % 2)  # equal to the bound / one above it
        s2, v2, kw = with_bad_row(subs, vals, bad, case["effect"], case["k"])
        reject(ctx, v, lambda: ttb.sptensor.from_aggregator(s2, v2, tuple(shape), **kw), s2, v2)
    elif v == "negative_subscript":
        bad = subs[b % len(subs)].copy()
        bad[a % N] = -1
        s2, v2, kw = with_bad_row(subs, vals, bad, case["effect"], case["k"])
        reject(ctx, v, lambda: ttb.sptensor.from_aggregator(s2, v2, tuple(shape), **kw), s2, v2)
        reject(ctx, v, lambda: ttb.sptensor.from_aggregator(s2, v2, **kw), s2, v2)
    elif v == "float_subscripts":
        s2 = subs.astype(float)
        reject(ctx, v, lambda: ttb.sptensor.from_aggregator(s2, vals, tuple(shape)), s2, vals)
    elif v == "vals_not_a_column":
        if b % 2:
            v2 = vals.reshape(-1)
            ctx.label("flat-vals")
        else:
            v2 = np.hstack([vals, vals])
            ctx.label("two-column-vals")
        reject(ctx, v, lambda: ttb.sptensor.from_aggregator(subs, v2, tuple(shape)), subs, v2)
    else:
        sh = [max(s, 1) for s in shape]
        m = a % N
        sh[m] = 0
        keep = subs[:, m] == 0  # no subscript exceeds... the zero-size mode cannot hold any: keep none of that mode
        s2, v2 = subs[~keep], vals[~keep]
        reject(ctx, v, lambda: ttb.sptensor.from_aggregator(subs, vals, tuple(sh)), subs, vals)


_V = stated(
    "C19/sptensor/innerprod",
    shape_mismatch="sptensor.py:898 'Sptensors must be same shape for innerproduct'; :913 'Sptensor and tensor must be same "
                   "shape for innerproduct'; ktensor.py:1051 / ttensor.py:325 when forwarded",
)


@table("C19/sptensor/innerprod", _V, per=200, other=["sptensor", "sptensor", "tensor", "ktensor", "ttensor"])
def c_sptensor_innerprod(ctx, case):
    begin(ctx, "C19/sptensor/innerprod", case, "other-" + case["other"], "self-" + case["pattern"])
    kd, oshape = mismatch(case["shape"], case["mm"], case["a"])
    ctx.label("mm-" + kd)
    X = sparse(case["shape"], case["pattern"], case["k"])
    opat = ["some", "full", "empty", "one", "zeros"][case["b"] % 5]
    Y = other(case["other"], oshape, case["k"] + 1, opat, case["r"])
    if case["other"] == "sptensor":
        ctx.label("other-" + opat)
    reject(ctx, f"shape_mismatch/{case['other']}", lambda: X.innerprod(Y), X, Y)


_V = stated("C19/sptensor/permute", **{k: "sptensor.py:1549 " + v for k, v in _PERM_V.items()})


@table("C19/permute/others", _V, per=90, holder=["sptensor", "ktensor", "ttensor"])
def c_permute_others(ctx, case):
    """sptensor.py:1549 'Invalid permutation order', ktensor.py:1530 'Invalid permutation', ttensor.py:497 'Invalid permutation'"""
    begin(ctx, "C19/sptensor/permute", case, case["holder"])
    X = holder(case["holder"], case["shape"], case["k"], case["pattern"], case["r"])
    o = bad_order(len(case["shape"]), case["viol"], case["a"], case["b"])
    arg = np.array(o) if case["k"] % 2 else list(o)
    reject(ctx, f"{case['viol']}/{case['holder']}", lambda: X.permute(arg), X)


_V = stated("C19/sptensor/reshape",
            element_count_changes="sptensor.py:1638 'Reshape must maintain tensor size'",
            element_count_changes_old_modes="same, with old_modes given")


@table("C19/sptensor/reshape", _V)
def c_sptensor_reshape(ctx, case):
    begin(ctx, "C19/sptensor/reshape", case, "self-" + case["pattern"])
    shape = list(case["shape"])
    N = len(shape)
    X = sparse(shape, case["pattern"], case["k"])
    if case["viol"] == "element_count_changes":
        kinds = ["singleton-for-n", "n-for-singleton", "off-by-one-up", "off-by-one-down"]
        kd, other = mismatch(shape, kinds[case["a"] % 4], case["b"])
        if ref.prod(other) == ref.prod(shape):
            other = list(other) + [2]
        ctx.label("mm-" + kd)
        reject(ctx, "element_count_changes", lambda: X.reshape(tuple(other)), X)
    else:
        n = pick_distinct_mode(shape, case["a"])
        m = [j for j in range(N) if j != n][case["b"] % (N - 1)]
        old = sorted([n, m])
        # the product of ALL modes / of the other modes instead of the selected ones
        wrong = ref.prod(shape) if case["b"] % 2 else ref.prod(shape[j] for j in range(N) if j not in old)
        if wrong == shape[n] * shape[m]:
            wrong += 1
        ctx.label("count-of-whole-tensor" if case["b"] % 2 else "count-of-kept-modes")
        reject(ctx, "element_count_changes_old_modes", lambda: X.reshape((wrong,), np.array(old)), X)


_V = stated(
    "C19/sptensor/extract",
    subscript_equal_bound="sptensor.py:662-670 'The following subscripts are invalid ... Invalid subscripts'",
    negative_subscript="same",
)


@table("C19/sptensor/extract", _V)
def c_sptensor_extract(ctx, case):
    begin(ctx, "C19/sptensor/extract", case, "self-" + case["pattern"])
    shape = list(case["shape"])
    N = len(shape)
    X = sparse(shape, case["pattern"], case["k"])
    good = np.array(ref.all_subs_F(shape)[: 1 + case["a"] % 3], dtype=int).reshape(-1, N)
    q = good.copy()
    m = case["b"] % N
    q[-1, m] = shape[m] if case["viol"] == "subscript_equal_bound" else -1
    ctx.label("single-row" if len(q) == 1 else "several-rows")
    reject(ctx, case["viol"], lambda: X.extract(q), X, q)


# -- sptensor binary operators ------------------------------------------------------------------------------------------

_OPS = {
    "sub": (lambda x, y: x - y, "sptensor.py:2840 'Must be two sparse tensors of the same shape'"),
    "add": (lambda x, y: x + y, "sptensor.py:2840 via __add__ -> __sub__(-other)"),
    "mul": (lambda x, y: x * y, "sptensor.py:2960 'Sptensor multiply requires two tensors of the same shape.'"),
    "truediv": (lambda x, y: x / y, "sptensor.py:3293 'Sptensor division requires tensors of the same shape'"),
    "eq": (lambda x, y: x == y, "sptensor.py:2637 'Size mismatch in sptensor equality'"),
    "ne": (lambda x, y: x != y, "sptensor.py:2739 'Size mismatch'"),
    "lt": (lambda x, y: x < y, "sptensor.py:3052 'Size mismatch' (_compare)"),
    "le": (lambda x, y: x <= y, "sptensor.py:3052 'Size mismatch' (_compare)"),
    "gt": (lambda x, y: x > y, "sptensor.py:3052 'Size mismatch' (_compare)"),
    "ge": (lambda x, y: x >= y, "sptensor.py:3052 'Size mismatch' (_compare)"),
    "logical_and": (lambda x, y: x.logical_and(y), "sptensor.py:1018 'Must be tensors of the same shape'"),
    "logical_or": (lambda x, y: x.logical_or(y), "sptensor.py:1121 'Logical Or requires tensors of the same size'"),
    "logical_xor": (lambda x, y: x.logical_xor(y), "sptensor.py:1193 'Logical XOR requires tensors of the same size'"),
}
# which right-hand holders each operator's stated check covers in the code; the rest rests on the property statement
_DENSE_STATED = {"mul", "truediv", "eq", "ne", "lt", "le", "gt", "ge", "logical_or", "logical_xor"}
for _o, (_f, _txt) in _OPS.items():
    STATED[f"C19/sptensor/operators/{_o}/sptensor"] = _txt
    STATED[f"C19/sptensor/operators/{_o}/tensor"] = _txt if _o in _DENSE_STATED else (
        "[property statement] 'mismatched shapes in ... sparse ... element-wise ... products'; the code states the "
        "requirement for two sparse operands only (" + _txt + ")")
STATED["C19/sptensor/operators/mul/ktensor"] = _OPS["mul"][1]
STATED["C19/sptensor/operators/truediv/ktensor"] = _OPS["truediv"][1]


def _op_case_for(op):
    @st.composite
    def strat(draw, tier):
        c = draw(table_case([op])(tier))
        others = ["sptensor", "sptensor", "tensor", "tensor"] + (["ktensor"] if op in ("mul", "truediv") else [])
        c["other"] = draw(st.sampled_from(others))
        c["opattern"] = draw(st.sampled_from(["some", "full", "one", "empty", "zeros"]))
        return c

    return strat


def _op_cells(fn):
    for op in sorted(_OPS):
        cell(f"C19/sptensor/operators/{op}", strategy=_op_case_for(op), quick=90, thorough=1800, shards=(1, 2))(fn)
    return fn


@_op_cells
def c_sptensor_operators(ctx, case):
    op, rhs = case["viol"], case["other"]
    kd, oshape = mismatch(case["shape"], case["mm"], case["a"])
    state(case)
    ctx.label("op-" + op, "rhs-" + rhs, "mm-" + kd, "self-" + case["pattern"], "other-zero" if case.get("zo") else "other-nonzero")
    ctx.nt = True
    X = sparse(case["shape"], case["pattern"], case["k"])
    Y = other(rhs, oshape, case["k"] + 1, case["opattern"], case["r"])
    if rhs == "sptensor":
        ctx.label("rhs-" + case["opattern"])
    fn = _OPS[op][0]
    reject(ctx, f"{op}/shape_mismatch/{rhs}", lambda: fn(X, Y), X, Y)


_V = stated(
    "C19/sptensor/scale-mask-tenmat",
    scale_tensor_factor_wrong_shape="sptensor.py:1712 'Size mismatch in scale'",
    scale_sptensor_factor_wrong_shape="sptensor.py:1721 'Size mismatch in scale'",
    scale_array_wrong_length="sptensor.py:1728 'Size mismatch in scale'",
    mask_bigger_than_data="sptensor.py:1249 'Mask cannot be bigger than the data tensor'",
    mask_other_order="same (len(W.shape) != len(self.shape))",
    to_sptenmat_not_a_partition="sptensor.py:819 'the sorted concatenation of rdims and cdims must be range(source.ndims)'",
)


@table("C19/sptensor/scale-mask-tenmat", _V)
def c_sptensor_misc(ctx, case):
    begin(ctx, "C19/sptensor/scale-mask-tenmat", case, "self-" + case["pattern"])
    shape = list(case["shape"])
    N = len(shape)
    X = sparse(shape, case["pattern"], case["k"])
    v, a, b = case["viol"], case["a"], case["b"]
    n = pick_distinct_mode(shape, a)
    if v == "scale_array_wrong_length":
        L = other_mode_len(shape, n, b)
        ctx.label("length-of-another-mode" if L in shape else "other-length", "longer" if L > shape[n] else "shorter")
        f = num(np.arange(1.0, L + 1))
        reject(ctx, v, lambda: X.scale(f, np.array([n])), X, f)
    elif v in ("scale_tensor_factor_wrong_shape", "scale_sptensor_factor_wrong_shape"):
        L = other_mode_len(shape, n, b)
        ctx.label("longer" if L > shape[n] else "shorter")
        F = dense([L], 1, role="other") if v.startswith("scale_tensor") else sparse([L], "zeros" if case.get("zo") else "full", 1)
        reject(ctx, v, lambda: X.scale(F, np.array([n])), X, F)
    elif v == "mask_bigger_than_data":
        w = list(shape)
        w[a % N] += 1
        W = sparse(w, "some", 1)
        reject(ctx, v, lambda: X.mask(W), X, W)
    elif v == "mask_other_order":
        W = sparse(shape + [1], "some", 1) if b % 2 else sparse(shape[:-1], "some", 1)
        ctx.label("trailing-singleton-added" if b % 2 else "last-mode-dropped")
        reject(ctx, v, lambda: X.mask(W), X, W)
    else:
        sub = ["overlap", "missing_mode", "repeated_in_rdims", "rdims_equal_bound"][b % 4]
        r, c = bad_partition(N, sub, a, b)
        ctx.label("partition-" + sub)
        reject(ctx, v, lambda: X.to_sptenmat(np.array(r, dtype=int), np.array(c, dtype=int)), X)


# ==========================================================================
# ktensor
# ==========================================================================

_V = stated(
    "C19/ktensor/ctor",
    weights_without_factors="ktensor.py:146 'factor_matrices cannot be None if weights are provided.'",
    factors_not_a_sequence="ktensor.py:156 \"Input 'factor_matrices' must be a sequence.\"",
    factor_not_float="ktensor.py:162 \"Each item in 'factor_matrices' must be a numpy.ndarray object with dtype=float.\"",
    factor_not_ndarray="same",
    column_counts_differ="ktensor.py:169 \"The number of columns each item in 'factor_matrices' must be the same.\"",
    weights_wrong_length="ktensor.py:176 \"Input 'weights' must be a numpy.ndarray object with dtype=float and length equal to "
                         "the number of columns in each factor matrix.\"",
    weights_not_float="same",
    weights_column_shape="same (shape must be (R,))",
)


@table("C19/ktensor/ctor", _V)
def c_ktensor_ctor(ctx, case):
    begin(ctx, "C19/ktensor/ctor", case, plain=True)
    shape, r, a, b, v = list(case["shape"]), case["r"] + 1, case["a"], case["b"], case["viol"]
    N = len(shape)
    fms = [np.array(vals_for(n * r, j), dtype=float).reshape(n, r) for j, n in enumerate(shape)]
    w = np.array(vals_for(r, 3), dtype=float)
    i = a % N
    if v == "weights_without_factors":
        reject(ctx, v, lambda: ttb.ktensor(None, w), w)
    elif v == "factors_not_a_sequence":
        arg = np.stack([fms[0], fms[0]]) if b % 2 else {j: f for j, f in enumerate(fms)}
        reject(ctx, v, lambda: ttb.ktensor(arg, w))
    elif v == "factor_not_float":
        fms[i] = fms[i].astype(np.int64)
        reject(ctx, v, lambda: ttb.ktensor(fms, w), fms, w)
    elif v == "factor_not_ndarray":
        fms[i] = fms[i].tolist()
        reject(ctx, v, lambda: ttb.ktensor(fms, w), w)
    elif v == "column_counts_differ":
        # coincidence: the odd factor has as many columns as it has rows / as another mode is long
        c2 = shape[i] if shape[i] != r else r + 1
        fms[i] = np.ones((shape[i], c2))
        ctx.label("first-factor-odd" if i == 0 else "later-factor-odd")
        reject(ctx, v, lambda: ttb.ktensor(fms, w if b % 2 else None), fms, w)
    elif v == "weights_wrong_length":
        L = shape[i] if shape[i] != r else r + 1  # as long as a mode instead of as the rank
        w2 = np.ones(L)
        ctx.label("length-1" if L == 1 else "length>1")
        reject(ctx, v, lambda: ttb.ktensor(fms, w2), fms, w2)
    elif v == "weights_not_float":
        w2 = np.arange(1, r + 1)
        reject(ctx, v, lambda: ttb.ktensor(fms, w2), fms, w2)
    else:
        w2 = w.reshape(-1, 1) if b % 2 else w.reshape(1, -1)
        reject(ctx, v, lambda: ttb.ktensor(fms, w2), fms, w2)


_V = stated(
    "C19/ktensor/ops",
    extract_empty_list="ktensor.py:722 'Number of components requested is not valid: 0 (should be in [1,...,R])'",
    extract_too_many="same (more than R)",
    extract_index_equal_bound="ktensor.py:733 'Invalid component indices to be extracted ... not in range(R)'",
    extract_negative_index="same",
    extract_wrong_type="ktensor.py:745 'Input parameter must be an int, tuple, list or numpy.ndarray'",
    innerprod_shape_mismatch="ktensor.py:1051 'Innerprod can only be computed for tensors of the same size'",
    add_shape_mismatch="ktensor.py:2456 'Must be two ktensors of the same shape'",
    sub_shape_mismatch="ktensor.py:2504 'Must be two ktensors of the same shape'",
    add_other_type="ktensor.py:2453 'Cannot add instance of this type to a ktensor'",
    sub_other_type="ktensor.py:2501 'Cannot subtract instance of this type from a ktensor'",
)


@table("C19/ktensor/ops", _V, per=60, other=["ktensor", "tensor", "sptensor", "ttensor"])
def c_ktensor_ops(ctx, case):
    begin(ctx, "C19/ktensor/ops", case)
    shape, r, a, b, v = list(case["shape"]), case["r"] + 1, case["a"], case["b"], case["viol"]
    K = kten(shape, r, case["k"])
    if v == "extract_empty_list":
        arg = [] if b % 2 else np.array([], dtype=int)
        reject(ctx, v, lambda: K.extract(arg), K)
    elif v == "extract_too_many":
        arg = list(range(r)) + [0]
        reject(ctx, v, lambda: K.extract(arg), K)
    elif v == "extract_index_equal_bound":
        arg = r if b % 3 == 0 else ([0, r] if b % 3 == 1 else np.array([r]))
        reject(ctx, v, lambda: K.extract(arg), K)
    elif v == "extract_negative_index":
        arg = -1 if b % 2 else [0, -1][: min(2, r)]
        reject(ctx, v, lambda: K.extract(arg), K)
    elif v == "extract_wrong_type":
        arg = 0.0 if b % 2 else "0"
        reject(ctx, v, lambda: K.extract(arg), K)
    elif v == "innerprod_shape_mismatch":
        kd, oshape = mismatch(shape, case["mm"], a)
        ctx.label("mm-" + kd, "other-" + case["other"])
        Y = other(case["other"], oshape, 1, ["some", "full", "empty", "zeros"][b % 4], r)
        reject(ctx, f"{v}/{case['other']}", lambda: K.innerprod(Y), K, Y)
    elif v in ("add_shape_mismatch", "sub_shape_mismatch"):
        kd, oshape = mismatch(shape, case["mm"], a)
        ctx.label("mm-" + kd)
        Y = kten(oshape, r if b % 2 else r + 1, 1, role="other")
        reject(ctx, v, (lambda: K + Y) if v.startswith("add") else (lambda: K - Y), K, Y)
    else:
        Y = dense(shape, 1) if b % 2 else 1.0
        ctx.label("other-tensor" if b % 2 else "other-scalar")
        reject(ctx, v, (lambda: K + Y) if v.startswith("add") else (lambda: K - Y), K)


# ==========================================================================
# ttensor
# ==========================================================================

_V = stated(
    "C19/ttensor",
    ctor_only_core="ttensor.py:73 'For non-empty ttensor both core and factors must be provided'",
    ctor_factor_not_matrix="ttensor.py:170 'Factor matrix i has shape ... and is not a matrix!'",
    ctor_factor_count="ttensor.py:179 'CORE has order n but there are m factors'",
    ctor_factor_columns="ttensor.py:184 'Factor matrix i does not have n columns'",
    ctor_factor_wrong_type="ttensor.py:81 'Factor matrices must be numpy arrays or scipy sparse coo_matrices'",
    ctor_core_wrong_type="ttensor.py:113 (ALT_CORE_ERROR) core must be tensor or sptensor",
    innerprod_shape_mismatch="ttensor.py:308 / :325 'ttensors must have same shape to perform an innerproduct'",
)


@table("C19/ttensor", _V, per=60, other=["ttensor", "tensor", "sptensor"])
def c_ttensor(ctx, case):
    begin(ctx, "C19/ttensor", case)
    shape, a, b, v = list(case["shape"]), case["a"], case["b"], case["viol"]
    N = len(shape)
    cshape = [1 + (a + j) % 3 for j in range(N)]
    if len(set(cshape)) < 2:
        cshape[0] = cshape[0] % 3 + 1
    core = sparse(cshape, "zeros" if case.get("zs") else "some", 1) if b % 2 else dense(cshape, 1)
    fms = [np.array(vals_for(n * c, j), dtype=float).reshape(n, c) for j, (n, c) in enumerate(zip(shape, cshape))]
    i = a % N
    if v == "ctor_only_core":
        reject(ctx, v, (lambda: ttb.ttensor(core, None)) if b % 2 else (lambda: ttb.ttensor(None, fms)), core, fms)
    elif v == "ctor_factor_not_matrix":
        fms[i] = fms[i][:, 0] if cshape[i] == 1 else fms[i].reshape(shape[i], cshape[i], 1)
        reject(ctx, v, lambda: ttb.ttensor(core, fms), core, fms)
    elif v == "ctor_factor_count":
        f2 = fms[:-1] if b % 2 else fms + [np.ones((2, 1))]
        ctx.label("one-fewer" if b % 2 else "one-more-with-one-column")
        reject(ctx, v, lambda: ttb.ttensor(core, f2), core, f2)
    elif v == "ctor_factor_columns":
        # coincidences: transposed factor (columns = rows of the right one), or columns of the neighbouring core mode
        if b % 2 and shape[i] != cshape[i]:
            fms[i] = fms[i].T.copy()
            ctx.label("transposed-factor")
        else:
            c2 = cshape[(i + 1) % N] if cshape[(i + 1) % N] != cshape[i] else cshape[i] + 1
            fms[i] = np.ones((shape[i], c2))
            ctx.label("columns-of-neighbouring-core-mode")
        reject(ctx, v, lambda: ttb.ttensor(core, fms), core, fms)
    elif v == "ctor_factor_wrong_type":
        fms[i] = fms[i].tolist()
        reject(ctx, v, lambda: ttb.ttensor(core, fms), core)
    elif v == "ctor_core_wrong_type":
        c2 = np.ones(tuple(cshape)) if b % 2 else kten(cshape, 1)
        reject(ctx, v, lambda: ttb.ttensor(c2, fms), fms)
    else:
        T = ttb.ttensor(core, fms)
        kd, oshape = mismatch(shape, case["mm"], a)
        ctx.label("mm-" + kd, "other-" + case["other"])
        Y = other(case["other"], oshape, 1, ["some", "full", "empty", "zeros"][b % 4])
        reject(ctx, f"{v}/{case['other']}", lambda: T.innerprod(Y), T, Y)


# ==========================================================================
# tenmat / sptenmat / sumtensor / khatrirao
# ==========================================================================

_V = stated(
    "C19/tenmat",
    ctor_empty_data_with_dims="tenmat.py:101 'When data is empty, rdims, cdims, and tshape must also be empty.'",
    ctor_non_numeric="tenmat.py:112 'First argument must be a numeric numpy.ndarray.'",
    ctor_1d_without_tshape="tenmat.py:119 'tshape must be specified when data is 1d array.'",
    ctor_3d_data="tenmat.py:125 ValueError('Data must be a matrix or vector')",
    ctor_element_count="tenmat.py:136 'products of data.shape and tuple do not match'",
    ctor_not_a_partition="tenmat.py:161 'the sorted concatenation of rdims and cdims must be range(source.ndims)'",
    mul_inner_mismatch="tenmat.py:497 'tenmat shape mismatch: number or columns of left operand must match number of rows of "
                       "right operand.'",
    add_shape_mismatch="tenmat.py:586 'tenmat shape mismatch.'",
    sub_shape_mismatch="tenmat.py:656 'tenmat shape mismatch.'",
    add_other_type="tenmat.py:592 'tenmat addition only valid with scalar or tenmat objects.'",
)


@table("C19/tenmat", _V, min_order=3)
def c_tenmat(ctx, case):
    begin(ctx, "C19/tenmat", case)
    shape, a, b, v = list(case["shape"]), case["a"], case["b"], case["viol"]
    N = len(shape)
    k = 1 + a % (N - 1)
    r, c = list(range(k)), list(range(k, N))
    nr, nc = ref.prod(shape[:k]), ref.prod(shape[k:])
    data = np.array(vals_for(nr * nc), dtype=float).reshape(nr, nc) * (0.0 if case.get("zs") else 1.0)
    R, C = np.array(r, dtype=int), np.array(c, dtype=int)
    one = 0.0 if case.get("zo") else 1.0
    if v == "ctor_empty_data_with_dims":
        reject(ctx, v, lambda: ttb.tenmat(np.array([]), R, C, tuple(shape)))
    elif v == "ctor_non_numeric":
        d = np.array([["a", "b"], ["c", "d"]])
        reject(ctx, v, lambda: ttb.tenmat(d, np.array([0]), np.array([1]), (2, 2)))
    elif v == "ctor_1d_without_tshape":
        d = data.reshape(-1)
        reject(ctx, v, lambda: ttb.tenmat(d, np.array([0]), np.array([1])), d)
    elif v == "ctor_3d_data":
        d = data.reshape(nr, nc, 1)
        reject(ctx, v, lambda: ttb.tenmat(d, R, C, tuple(shape)), d)
    elif v == "ctor_element_count":
        kinds = ["singleton-for-n", "n-for-singleton", "off-by-one-up", "off-by-one-down"]
        kd, other = mismatch(shape, kinds[b % 4], a)
        if ref.prod(other) == ref.prod(shape):
            other[0] += 1
        ctx.label("mm-" + kd)
        reject(ctx, v, lambda: ttb.tenmat(data, R, C, tuple(other)), data)
    elif v == "ctor_not_a_partition":
        sub = ["overlap", "missing_mode", "repeated_in_rdims", "rdims_equal_bound"][b % 4]
        r2, c2 = bad_partition(N, sub, a, b)
        ctx.label("partition-" + sub)
        reject(ctx, v, lambda: ttb.tenmat(data, np.array(r2, dtype=int), np.array(c2, dtype=int), tuple(shape)), data)
    else:
        A = ttb.tenmat(data, R, C, tuple(shape))
        if v == "mul_inner_mismatch":
            # right operand whose ROW count is not our column count; coincidence: it equals our row count
            rows = nr if nr != nc else nc + 1
            ctx.label("rows-equal-left-rows" if rows == nr else "rows-off-by-one", "singleton-inner" if 1 in (rows, nc) else "proper-inner")
            Bm = ttb.tenmat(one * np.ones((rows, 2)), np.array([0]), np.array([1]), (rows, 2))
            reject(ctx, v, lambda: A * Bm, A, Bm)
        elif v in ("add_shape_mismatch", "sub_shape_mismatch"):
            # coincidences: transposed matrix shape (same count), a single row / column that broadcasts
            style = b % 3
            if style == 0 and nr != nc:
                Bm = ttb.tenmat(data.T.copy(), C - k, R + (N - k), tuple(shape[k:] + shape[:k]))
                ctx.label("transposed-same-count")
            elif style == 1 and nr > 1:
                Bm = ttb.tenmat(one * np.ones((1, nc)), np.array([0]), np.array([1]), (1, nc))
                ctx.label("single-row-broadcastable")
            else:
                Bm = ttb.tenmat(one * np.ones((nr, nc + 1)), np.array([0]), np.array([1]), (nr, nc + 1))
                ctx.label("one-more-column")
            reject(ctx, v, (lambda: A + Bm) if v.startswith("add") else (lambda: A - Bm), A, Bm)
        else:
            Y = dense(shape, 1) if b % 2 else data
            reject(ctx, v, lambda: A + Y, A)


_V = stated(
    "C19/sptenmat",
    values_without_dims="sptenmat.py:94 'Must provide rdims or cdims with values'",
    not_a_partition="sptenmat.py:120 'the sorted concatenation of rdims and cdims must be range(len(tshape))'",
    row_index_equal_bound="sptenmat.py:124 'Invalid row index.'",
    row_index_above_bound="same",
    column_index_equal_bound="sptenmat.py:127 'Invalid column index.'",
    column_index_above_bound="same",
)


@table("C19/sptenmat", _V, min_order=3)
def c_sptenmat(ctx, case):
    begin(ctx, "C19/sptenmat", case)
    state(dict(case, zo=False))
    shape, a, b, v = list(case["shape"]), case["a"], case["b"], case["viol"]
    N = len(shape)
    k = 1 + a % (N - 1)
    nr, nc = ref.prod(shape[:k]), ref.prod(shape[k:])
    R, C = np.arange(k), np.arange(k, N)
    subs = np.array([[0, 0], [nr - 1, nc - 1]][: 1 + b % 2], dtype=int)
    vals = np.array([[2.0], [3.0]][: len(subs)])
    if v == "values_without_dims":
        reject(ctx, v, lambda: ttb.sptenmat(subs, vals, None, None, tuple(shape)), subs, vals)
    elif v == "not_a_partition":
        sub = ["overlap", "missing_mode", "repeated_in_rdims", "rdims_equal_bound"][b % 4]
        r2, c2 = bad_partition(N, sub, a, b)
        ctx.label("partition-" + sub)
        reject(ctx, v, lambda: ttb.sptenmat(subs, vals, np.array(r2, dtype=int), np.array(c2, dtype=int), tuple(shape)),
               subs, vals)
    else:
        col = 0 if v.startswith("row") else 1
        bound = nr if col == 0 else nc
        subs[-1, col] = bound if v.endswith("equal_bound") else bound + 1 + a % 2
        if case.get("zo"):
            vals[-1, 0] = 0.0
            ctx.label("offending-value-zero")
        reject(ctx, v, lambda: ttb.sptenmat(subs, vals, R, C, tuple(shape)), subs, vals)


_V = stated(
    "C19/sumtensor",
    not_a_list="sumtensor.py:52 'Collection of tensors must be provided as a list'",
    shapes_differ="sumtensor.py:56 'All tensors must be the same shape'",
    add_unsupported_type="sumtensor.py:226 TypeError('Sumtensor only supports collections of tensor, sptensor, ktensor, and "
                         "ttensor')",
)


@table("C19/sumtensor", _V, per=60, first=["tensor", "sptensor", "ktensor", "ttensor"],
       other=["tensor", "sptensor", "ktensor", "ttensor"])
def c_sumtensor(ctx, case):
    begin(ctx, "C19/sumtensor", case)
    shape, a, b, v = list(case["shape"]), case["a"], case["b"], case["viol"]
    P = holder(case["first"], shape, 0, "some", 2)
    if v == "not_a_list":
        Q = holder(case["other"], shape, 1, "some", 2)
        reject(ctx, v, lambda: ttb.sumtensor((P, Q)), P, Q)
    elif v == "shapes_differ":
        kd, oshape = mismatch(shape, case["mm"], a)
        ctx.label("mm-" + kd, "first-" + case["first"], "other-" + case["other"])
        Q = other(case["other"], oshape, 1, "some", 2)
        parts = [P, Q] if b % 2 else [P, holder(case["other"], shape, 2, "some", 2), Q]
        reject(ctx, v, lambda: ttb.sumtensor(parts), P, Q)
    else:
        S = ttb.sumtensor([P])
        Y = np.ones(tuple(shape)) if b % 2 else 3.0
        reject(ctx, v, lambda: S + Y, S)


_V = stated(
    "C19/khatrirao",
    list_argument="khatrirao.py:37 ValueError('Khatrirao interface has changed ...')",
    reverse_not_bool="khatrirao.py:45 ValueError('Expected a bool for reverse')",
    not_a_matrix="khatrirao.py:51 'Each argument must be a matrix'",
    column_counts_differ="khatrirao.py:55 'All matrices must have the same number of columns.'",
)


@table("C19/khatrirao", _V)
def c_khatrirao(ctx, case):
    begin(ctx, "C19/khatrirao", case)
    shape, r, a, b, v = list(case["shape"]), case["r"] + 1, case["a"], case["b"], case["viol"]
    Ms = [num(np.array(vals_for(n * r, j), dtype=float).reshape(n, r)) for j, n in enumerate(shape)]
    i = a % len(Ms)
    if v == "list_argument":
        reject(ctx, v, lambda: ttb.khatrirao(Ms), Ms)
    elif v == "reverse_not_bool":
        rv = 1 if b % 2 else "True"
        reject(ctx, v, lambda: ttb.khatrirao(*Ms, reverse=rv), Ms)
    elif v == "not_a_matrix":
        Ms[i] = Ms[i][:, 0] if b % 2 else Ms[i].reshape(shape[i], r, 1)
        ctx.label("vector" if b % 2 else "3-way")
        reject(ctx, v, lambda: ttb.khatrirao(*Ms), Ms)
    else:
        # coincidences: one column (broadcasts against r columns), or transposed (columns = rows)
        style = b % 3
        if style == 0:
            Ms[i] = Ms[i][:, :1].copy()
            ctx.label("single-column-broadcastable", "odd-first" if i == 0 else "odd-later")
        elif style == 1 and shape[i] != r:
            Ms[i] = Ms[i].T.copy()
            ctx.label("transposed")
        else:
            Ms[i] = num(np.ones((shape[i], r + 1)))
            ctx.label("one-more-column")
        reject(ctx, v, lambda: ttb.khatrirao(*Ms, reverse=bool(a % 2)), Ms)


# ==========================================================================
# round 3: operations of sumtensor / tenmat / sptenmat / ktensor / ttensor (and mttkrp of the other holders) that state a
# shape / size precondition and were missing from the table
# ==========================================================================

_V = stated(
    "C19/sumtensor/ops",
    add_shape_mismatch="sumtensor.py:56 'All tensors must be the same shape' - S + X hands the receiver's parts and X to the "
                       "constructor (sumtensor.py:230)",
    radd_shape_mismatch="same, X + S: sumtensor.__radd__ (sumtensor.py:259), tensor.__add__ (tensor.py:2591) and "
                        "ktensor.__add__ (ktensor.py:2463) forward to S + X",
    add_list_shape_mismatch="same, S + [X, ...]: addends that agree with each other but not with the receiver's parts",
    innerprod_shape_mismatch="forwarded to every part: tensor.py:742 'Inner product must be between tensors of the same size', "
                             "sptensor.py:913, ktensor.py:1058, ttensor.py:308",
    mttkrp_list_wrong_length="forwarded to every part: pyttb_utils.py:826 'List of factor matrices is the wrong length'",
    mttkrp_factor_rows_wrong="forwarded to every part: tensor.py:1051 'Entry i of list of arrays is wrong size'",
)


@table("C19/sumtensor/ops", _V, per=40, first=["tensor", "sptensor", "ktensor", "ttensor"],
       other=["tensor", "sptensor", "ktensor", "ttensor"])
def c_sumtensor_ops(ctx, case):
    begin(ctx, "C19/sumtensor/ops", case)
    shape, a, b, v, r = list(case["shape"]), case["a"], case["b"], case["viol"], case["r"] + 1
    N = len(shape)
    P = holder(case["first"], shape, 0, case["pattern"], 2)
    parts = [P] if b % 3 == 0 else [P, holder(["tensor", "sptensor", "ktensor", "ttensor"][(a + b) % 4], shape, 2, "some", 2)]
    S = ttb.sumtensor(parts)
    ctx.label("first-" + case["first"], f"parts{len(parts)}")
    if v.startswith("mttkrp"):
        if case["first"] != "tensor":  # a dense part states the size check; put one in
            S = ttb.sumtensor(parts + [dense(shape, 3)])
        U = [num(np.array(vals_for(n * r, j), dtype=float).reshape(n, r)) for j, n in enumerate(shape)]
        n = a % N
        if v == "mttkrp_list_wrong_length":
            U2 = U[:-1] if (b % 2 and N > 2) else U + [np.ones((1, r))]
            ctx.label("shorter" if len(U2) < N else "longer")
            reject(ctx, v, lambda: S.mttkrp(U2, min(n, len(U2) - 1)), S, U2)
        else:
            i = [j for j in range(N) if j != n][b % (N - 1)]
            rows = other_mode_len(shape, i, b)
            ctx.label("rows-of-another-mode" if rows in shape else "rows-off-by-one")
            U[i] = num(np.ones((rows, r)))
            reject(ctx, v, lambda: S.mttkrp(U, n), S, U)
        return
    kd, oshape = mismatch(shape, case["mm"], a)
    ctx.label("mm-" + kd, "other-" + case["other"])
    Y = other(case["other"], oshape, 1, ["some", "full", "empty", "zeros"][b % 4], 2)
    tag = f"{v}/{case['other']}"
    if v == "add_shape_mismatch":
        reject(ctx, tag, lambda: S + Y, S, Y)
    elif v == "radd_shape_mismatch":
        reject(ctx, tag, lambda: Y + S, S, Y)
    elif v == "add_list_shape_mismatch":
        Y2 = other(["tensor", "sptensor", "ktensor", "ttensor"][(a + 1) % 4], oshape, 3, "some", 2)
        lst = [Y] if b % 2 else [Y, Y2]
        ctx.label(f"list{len(lst)}")
        reject(ctx, tag, (lambda: S + lst) if a % 2 else (lambda: lst + S), S, lst)
    else:
        reject(ctx, tag, lambda: S.innerprod(Y), S, Y)


_V = stated(
    "C19/mttkrp/others",
    list_wrong_length="pyttb_utils.py:826 'List of factor matrices is the wrong length' (get_mttkrp_factors, used by sptensor / "
                      "ktensor / ttensor / sumtensor.mttkrp)",
    factor_rows_wrong="sptensor.py 'Multiplicand is wrong size'; ktensor.py:1264 / ttensor.py:452 multiply "
                      "factor_matrices[i].T by U[i] (numpy rejects the inner dimension); [property statement] wrong-size matrices",
)


@table("C19/mttkrp/others", _V, per=50, min_order=3, holder=["sptensor", "ktensor", "ttensor", "sumtensor"])
def c_mttkrp_others(ctx, case):
    begin(ctx, "C19/mttkrp/others", case, case["holder"])
    shape, a, b, v, r = list(case["shape"]), case["a"], case["b"], case["viol"], case["r"] + 1
    N = len(shape)
    X = holder(case["holder"], shape, case["k"], case["pattern"], 2)
    U = [num(np.array(vals_for(n * r, j), dtype=float).reshape(n, r)) for j, n in enumerate(shape)]
    n = a % N
    if v == "list_wrong_length":
        U2 = U[:-1] if b % 2 else U + [np.ones((1, r))]
        ctx.label("shorter" if b % 2 else "longer")
        reject(ctx, f"{v}/{case['holder']}", lambda: X.mttkrp(U2, min(n, len(U2) - 1)), X, U2)
    else:
        i = [j for j in range(N) if j != n][b % (N - 1)]
        rows = other_mode_len(shape, i, b)
        ctx.label("rows-of-another-mode" if rows in shape else "rows-off-by-one", "longer" if rows > shape[i] else "shorter")
        U[i] = num(np.ones((rows, r)))
        reject(ctx, f"{v}/{case['holder']}", lambda: X.mttkrp(U, n), X, U)


_V = stated(
    "C19/tenmat/ops",
    rsub_shape_mismatch="tenmat.py:696 'tenmat shape mismatch.'",
    radd_shape_mismatch="tenmat.py:617 __radd__ is __add__: tenmat.py:588 'tenmat shape mismatch.'",
    mul_other_type="tenmat.py:523 'tenmat multiplication only valid with scalar or tenmat objects.'",
    rmul_other_type="same through __rmul__",
    sub_other_type="tenmat.py:663 'tenmat subtraction only valid with scalar or tenmat objects.'",
    rsub_other_type="tenmat.py:701 same",
    isequal_other_type="tenmat.py:416 ValueError('Can only compares against other tenmat')",
)


# not a row: tenmat.py:149 'data.shape does not match shape specified by rdims, cdims, and tshape' compares element counts
# only, and the pinned tests build tenmats whose matrix is not prod(rdims) x prod(cdims) on purpose (a 1-d vector stored as a
# row; np.ones((5, 5)) for tshape (1, 1, 1, 25)) - the library accepts them by design


@table("C19/tenmat/ops", _V, per=20, min_order=3)
def c_tenmat_ops(ctx, case):
    begin(ctx, "C19/tenmat/ops", case)
    shape, a, b, v = list(case["shape"]), case["a"], case["b"], case["viol"]
    N = len(shape)
    k = 1 + a % (N - 1)
    nr, nc = ref.prod(shape[:k]), ref.prod(shape[k:])
    R, C = np.arange(k), np.arange(k, N)
    data = np.array(vals_for(nr * nc), dtype=float).reshape(nr, nc) * (0.0 if case.get("zs") else 1.0)
    one = 0.0 if case.get("zo") else 1.0
    A = ttb.tenmat(data, R, C, tuple(shape))
    if v in ("rsub_shape_mismatch", "radd_shape_mismatch"):
        style = b % 3
        if style == 0 and nr != nc:
            Bm = ttb.tenmat(data.T.copy(), C - k, R + (N - k), tuple(shape[k:] + shape[:k]))
            ctx.label("transposed-same-count")
        elif style == 1 and nr > 1:
            Bm = ttb.tenmat(one * np.ones((1, nc)), np.array([0]), np.array([1]), (1, nc))
            ctx.label("single-row-broadcastable")
        else:
            Bm = ttb.tenmat(one * np.ones((nr, nc + 1)), np.array([0]), np.array([1]), (nr, nc + 1))
            ctx.label("one-more-column")
        reject(ctx, v, (lambda: A.__rsub__(Bm)) if v.startswith("rsub") else (lambda: A.__radd__(Bm)), A, Bm)
    else:
        Y = [dense(shape, 1), data.copy(), "2", [1.0, 2.0]][b % 4]
        ctx.label("other-" + type(Y).__name__)
        fn = {"mul_other_type": lambda: A * Y, "rmul_other_type": lambda: A.__rmul__(Y), "sub_other_type": lambda: A - Y,
              "rsub_other_type": lambda: A.__rsub__(Y), "isequal_other_type": lambda: A.isequal(Y)}[v]
        reject(ctx, v, fn, A)


_V = stated(
    "C19/sptenmat/ops",
    from_array_wrong_type="sptenmat.py:230 ValueError('Expected sparse matrix or array but received ...')",
    from_array_nonzero_beyond_tshape="sptenmat.py:124/127 'Invalid row index.' / 'Invalid column index.' - from_array hands the "
                                     "positions of the nonzeros of the matrix to the constructor",
    setitem_key_not_a_pair="sptenmat.py:530 IndexError('Sptenmat takes two arguments as a 2D array')",
    setitem_wrong_number_of_indices="sptenmat.py:532 IndexError('Wrong number of indices. Expected 2 received: n')",
    isequal_other_type="sptenmat.py:446 ValueError('Can only compares against other sptenmat')",
)


@table("C19/sptenmat/ops", _V, per=20, min_order=3)
def c_sptenmat_ops(ctx, case):
    begin(ctx, "C19/sptenmat/ops", case)
    import scipy.sparse as sps

    shape, a, b, v = list(case["shape"]), case["a"], case["b"], case["viol"]
    N = len(shape)
    k = 1 + a % (N - 1)
    nr, nc = ref.prod(shape[:k]), ref.prod(shape[k:])
    R, C = np.arange(k), np.arange(k, N)
    M = np.zeros((nr, nc))
    M[0, 0], M[nr - 1, nc - 1] = 2.0, 3.0
    if v == "from_array_wrong_type":
        arg = M.tolist() if b % 2 else ttb.tensor(M)
        reject(ctx, v, lambda: ttb.sptenmat.from_array(arg, R, C, tuple(shape)))
    elif v == "from_array_nonzero_beyond_tshape":
        grow_rows = b % 2 == 0
        big = np.zeros((nr + 1, nc)) if grow_rows else np.zeros((nr, nc + 1))
        big[:nr, :nc] = M
        big[-1, -1] = 0.0 if False else 5.0
        arg = big if (b // 2) % 2 == 0 else sps.coo_matrix(big)
        ctx.label("row-beyond" if grow_rows else "column-beyond", "dense-array" if (b // 2) % 2 == 0 else "scipy-sparse")
        reject(ctx, v, lambda: ttb.sptenmat.from_array(arg, R, C, tuple(shape)))
    else:
        X = ttb.sptenmat(np.array([[0, 0], [nr - 1, nc - 1]])[: 1 + b % 2], np.array([[2.0], [3.0]])[: 1 + b % 2], R, C,
                         tuple(shape))
        if v == "setitem_key_not_a_pair":
            key = [0, [0, 0], slice(None)][b % 3]
            reject(ctx, v, lambda: X.__setitem__(key, 7.0), X)
        elif v == "setitem_wrong_number_of_indices":
            key = [(0,), (0, 0, 0), ()][b % 3]
            reject(ctx, v, lambda: X.__setitem__(key, 7.0), X)
        else:
            Y = [M, sparse(shape, "some", 1), X.subs][b % 3]
            reject(ctx, v, lambda: X.isequal(Y), X)


_V = stated(
    "C19/ktensor/more",
    from_vector_wrong_length="ktensor.py:406 \"Input parameter 'data' is not the right length.\"",
    from_vector_not_a_vector="ktensor.py:390 \"Input parameter 'data' must be a numpy.array vector.\"",
    arrange_permutation_wrong_length="ktensor.py:546 'Number of elements in permutation does not match number of components in "
                                     "ktensor.'",
    arrange_weight_and_permutation="ktensor.py:532 'Weighting and permuting the ktensor at the same time is not allowed.'",
    fixsigns_other_not_ktensor="ktensor.py:835 'other must be a ktensor'",
    mask_bigger_than_tensor="ktensor.py:1210 'Mask cannot be bigger than the data tensor'",
    normalize_mode_out_of_range="ktensor.py:1376 'Parameter single_factor is invalid; index must be an int in range of number "
                                "of dimensions'",
    score_shape_mismatch="ktensor.py:1690 'Size mismatch'",
    score_fewer_components="ktensor.py:1704 'Tensor A must have at least as many components as tensor B'",
    score_threshold_out_of_range="ktensor.py:1695 'Threshold must be in range [0.0, 1.0]'",
    symmetrize_not_cubic="ktensor.py:1807 'Tensor is not cubic -- cannot be symmetrized'",
    tolist_mode_out_of_range="ktensor.py:1898 \"Input parameter'mode' must be in the range of self.ndims\"",
    update_data_too_short="ktensor.py:2239/2246 'Data is too short'",
    update_invalid_mode="ktensor.py:2254 'Invalid mode: k'",
    update_modes_not_sorted="ktensor.py:2229 'Modes must be sorted in ascending order'",
    mul_other_type="ktensor.py:2545 'Multiplication by ktensors only allowed for scalars, tensors, or sptensors'",
    to_tenmat_not_a_partition="ktensor.py:1027 forwards to tensor.to_tenmat: tenmat.py:161 'the sorted concatenation of rdims and "
                              "cdims must be range(source.ndims)'",
)


def update_fails_after_first_mode(case):
    return case.get("viol") in ("update_data_too_short", "update_invalid_mode") and case.get("b", 0) % 3 != 0


@table("C19/ktensor/more", _V, per=24)
def c_ktensor_more(ctx, case):
    begin(ctx, "C19/ktensor/more", case)
    shape, r, a, b, v = list(case["shape"]), case["r"] + 1, case["a"], case["b"], case["viol"]
    N = len(shape)
    K = kten(shape, r, case["k"])
    if v.startswith(("arrange", "normalize", "update", "fixsigns")) and case["k"] % 2:
        # (round 3) the receiver of an in-place operation shares its arrays with the caller: they are operands too
        src = [np.asfortranarray(f.copy()) for f in K.factor_matrices], K.weights.copy()
        K = ttb.ktensor(src[0], src[1], copy=False)
        ctx.label("receiver-shares-callers-arrays" if all(np.shares_memory(x, y) for x, y in zip(K.factor_matrices, src[0]))
                  else "receiver-owns-arrays")
        _ALSO.extend([src[0], src[1]])
    i = a % N
    if v == "from_vector_wrong_length":
        with_w = bool(b % 2)
        right = r * (sum(shape) + (1 if with_w else 0))
        # coincidences: the right length for the other setting of contains_weights (when that is no multiple), one more /
        # one fewer entry, the length of the dense tensor
        cands = [right + 1, right - 1, r * sum(shape) + (0 if with_w else r), ref.prod(shape)]
        per = sum(shape) + (1 if with_w else 0)
        cands = [L for L in cands if L > 0 and L % per != 0]
        L = cands[a % len(cands)] if cands else right * per + 1
        d = num(np.arange(1.0, L + 1))
        ctx.label("with-weights" if with_w else "without-weights")
        reject(ctx, v, lambda: ttb.ktensor.from_vector(d, tuple(shape), with_w), d)
    elif v == "from_vector_not_a_vector":
        d = np.ones((sum(shape), r)) if r > 1 and sum(shape) > 1 else np.ones((2, 2, 1))
        reject(ctx, v, lambda: ttb.ktensor.from_vector(d, tuple(shape), False), d)
    elif v == "arrange_permutation_wrong_length":
        ident = list(range(r))
        perm = [ident[:-1], ident + [0], ident + [r], []][b % 4]
        if len(perm) == r:
            perm = ident + [0]
        arg = perm if a % 2 else np.array(perm, dtype=int)
        ctx.label("shorter" if len(perm) < r else "longer")
        reject(ctx, v, lambda: K.arrange(permutation=arg), K)
    elif v == "arrange_weight_and_permutation":
        reject(ctx, v, lambda: K.arrange(weight_factor=i, permutation=list(range(r))), K)
    elif v == "fixsigns_other_not_ktensor":
        Y = [dense(shape, 1), sparse(shape, "some", 1), [f.copy() for f in K.factor_matrices]][b % 3]
        reject(ctx, v, lambda: K.fixsigns(Y), K)
    elif v == "mask_bigger_than_tensor":
        kinds = ["off-by-one-up", "n-for-singleton", "extra-trailing-singleton", "merged-same-count"]
        kd, oshape = mismatch(shape, kinds[b % 4], a)
        if len(oshape) == N and not any(o > s_ for o, s_ in zip(oshape, shape)):
            oshape = list(shape)
            oshape[i] += 1
            kd = "off-by-one-up"
        ctx.label("mm-" + kd)
        W = other(["tensor", "sptensor"][a % 2], oshape, 1, ["some", "one", "empty"][b % 3])
        reject(ctx, v, lambda: K.mask(W), K, W)
    elif v == "normalize_mode_out_of_range":
        mode = [N, -1, N + 1, -N - 1][b % 4]
        reject(ctx, v, lambda: K.normalize(mode=mode), K)
    elif v == "tolist_mode_out_of_range":
        mode = [N, -1, N + 1][b % 3]
        reject(ctx, v, lambda: K.tolist(mode), K)
    elif v == "score_shape_mismatch":
        kd, oshape = mismatch(shape, case["mm"], a)
        ctx.label("mm-" + kd)
        Y = kten(oshape, r if b % 2 else max(1, r - 1), 1, role="other")
        reject(ctx, v, lambda: K.score(Y), K, Y)
    elif v == "score_fewer_components":
        Y = kten(shape, r + 1 + b % 2, 1, role="other")
        reject(ctx, v, lambda: K.score(Y), K, Y)
    elif v == "score_threshold_out_of_range":
        Y = kten(shape, r, 1, role="other")
        th = [1.5, -0.1, 1.0000001, -1e-9][b % 4]
        reject(ctx, v, lambda: K.score(Y, threshold=th), K, Y)
    elif v == "symmetrize_not_cubic":
        reject(ctx, v, lambda: K.symmetrize(), K)  # (base shapes have at least two distinct sizes)
    elif v in ("update_data_too_short", "update_invalid_mode", "update_modes_not_sorted"):
        # updates of several modes at once: the offending part comes first (b % 3 == 0) or after modes that are fine
        modes = sorted({i, (i + 1) % N}) if N > 1 else [0]
        if b % 3 == 1:
            modes = [-1] + modes
        need = sum(r if m == -1 else shape[m] * r for m in modes)
        if v == "update_data_too_short":
            if b % 3 == 0:
                modes = modes[:1]
                need = shape[modes[0]] * r
            L = max(0, need - 1 - a % 2)
            d = np.arange(10.0, 10.0 + L)
            ctx.label("short-for-first-mode" if b % 3 == 0 else "short-for-later-mode")
            reject(ctx, v, lambda: K.update(modes, d), K, d)
        elif v == "update_invalid_mode":
            bad = N + a % 2
            modes = [bad] if b % 3 == 0 else modes + [bad]
            d = np.arange(10.0, 10.0 + need + shape[0] * r)
            ctx.label("invalid-first" if b % 3 == 0 else "invalid-after-valid")
            reject(ctx, v, lambda: K.update(modes, d), K, d)
        else:
            if N < 2:
                ctx.skip("one-mode")
            modes = sorted({i, (i + 1) % N})[::-1]
            d = np.arange(10.0, 10.0 + sum(shape[m] * r for m in modes))
            reject(ctx, v, lambda: K.update(modes, d), K, d)
    elif v == "mul_other_type":
        Y = [kten(shape, r, 1, role="other"), tten(shape, None, 1, role="other"), "2", [2.0]][b % 4]
        ctx.label("other-" + type(Y).__name__)
        reject(ctx, v, lambda: K * Y, K)
    else:
        sub = ["overlap", "missing_mode", "repeated_in_rdims", "rdims_equal_bound"][b % 4]
        r2, c2 = bad_partition(N, sub, a, b)
        ctx.label("partition-" + sub)
        reject(ctx, v, lambda: K.to_tenmat(np.array(r2, dtype=int), np.array(c2, dtype=int)), K)


_V = stated(
    "C19/ttensor/more",
    mttkrp_list_wrong_length="pyttb_utils.py:826 'List of factor matrices is the wrong length'",
    mttkrp_factor_rows_wrong="ttensor.py:452 factor_matrices[i].transpose().dot(U[i]) (numpy rejects the inner dimension); "
                             "[property statement] wrong-size matrices",
    reconstruct_modes_without_samples="ttensor.py:580 ValueError('... samples must be provided with modes.')",
    reconstruct_lengths_differ="ttensor.py:600 ValueError('If samples and modes provided lengths must be equal ...')",
    mul_other_type="ttensor.py:356 ValueError('This object cannot be multiplied by ttensor ...')",
    rmul_other_type="ttensor.py:374 ValueError('This object cannot be multiplied by ttensor')",
)


@table("C19/ttensor/more", _V, per=25, min_order=3)
def c_ttensor_more(ctx, case):
    begin(ctx, "C19/ttensor/more", case)
    shape, a, b, v, r = list(case["shape"]), case["a"], case["b"], case["viol"], case["r"] + 1
    N = len(shape)
    T = tten(shape, [1 + (a + j) % 2 for j in range(N)], case["k"], sparse_core=bool(b % 2))
    if v.startswith("mttkrp"):
        U = [num(np.array(vals_for(n * r, j), dtype=float).reshape(n, r)) for j, n in enumerate(shape)]
        n = a % N
        if v == "mttkrp_list_wrong_length":
            U2 = U[:-1] if (b // 2) % 2 else U + [np.ones((1, r))]
            ctx.label("shorter" if len(U2) < N else "longer")
            reject(ctx, v, lambda: T.mttkrp(U2, min(n, len(U2) - 1)), T, U2)
        else:
            i = [j for j in range(N) if j != n][b % (N - 1)]
            rows = other_mode_len(shape, i, b)
            U[i] = num(np.ones((rows, r)))
            reject(ctx, v, lambda: T.mttkrp(U, n), T, U)
    elif v == "reconstruct_modes_without_samples":
        modes = [a % N, [a % N], list(range(N))][b % 3]
        reject(ctx, v, lambda: T.reconstruct(modes=modes), T)
    elif v == "reconstruct_lengths_differ":
        modes = sorted({a % N, (a + 1) % N})
        samples = [np.array([0])] * (len(modes) + 1) if b % 2 else [np.array([0])] * (len(modes) - 1) or [np.array([0])] * 3
        ctx.label("more-samples" if len(samples) > len(modes) else "fewer-samples")
        reject(ctx, v, lambda: T.reconstruct(samples=samples, modes=modes), T)
    else:
        Y = [tten(shape, None, 1, role="other"), dense(shape, 1), np.ones(tuple(shape)), "2"][b % 4]
        ctx.label("other-" + type(Y).__name__)
        reject(ctx, v, (lambda: T * Y) if v == "mul_other_type" else (lambda: T.__rmul__(Y)), T)


# ==========================================================================
# algorithm option checks
# ==========================================================================

_V = stated(
    "C19/alg/cp_als",
    dimorder_repeated="cp_als.py:140 'Dimorder must be a list or permutation of range(tensor.ndims)'",
    dimorder_short="same",
    dimorder_entry_equal_bound="same",
    rank_zero="cp_als.py:150 'Number of components requested must be positive'",
    rank_negative="same",
    init_wrong_number_of_modes="cp_als.py:155 'Initial guess does not have N modes'",
    init_wrong_rank="cp_als.py:156 'Initial guess does not have R components'",
    init_factor_wrong_rows="cp_als.py:160 'Mode n of the initial guess is the wrong size'",
    init_unknown_string="cp_als.py:178 'The selected initialization method is not supported'",
)


def _bad_dimorder(N, v, a, b):
    ident = list(range(N))
    p = ident[a % N:] + ident[: a % N]
    if v.endswith("repeated"):
        p[b % N] = p[(b + 1) % N]
    elif v.endswith("short"):
        p = p[:-1]
    else:
        p[b % N] = N
    return p


# round 3: the ill-formed request also carries option values that end the algorithm before it does anything (no sweep at
# all, a time limit that has already passed); the control call keeps ordinary options.  A check that sits inside the
# iteration would let such a request through.
_EARLY = [None, None, "maxiters0", "stoptime0"]


@table("C19/alg/cp_als", _V, holder=["tensor", "sptensor", "ktensor"], early=[None, None, "maxiters0"])
def c_cp_als(ctx, case):
    begin(ctx, "C19/alg/cp_als", case, case["holder"], plain=True)
    shape, a, b, v, r = list(case["shape"]), case["a"], case["b"], case["viol"], case["r"] + 1
    N = len(shape)
    X = holder(case["holder"], shape, case["k"], "some", 2)
    kw = dict(maxiters=2, printitn=0)
    np.random.seed(case["a"] * 8 + case["b"])
    with ctx.sut("control:valid-call"):  # the same call without the violation is answered
        ttb.cp_als(X, 1, init="random", dimorder=list(range(N))[::-1], **kw)
    if case.get("early") == "maxiters0":
        kw = dict(maxiters=0, printitn=0)
    ctx.label("early-exit-" + str(case.get("early")))
    if v.startswith("dimorder"):
        d = _bad_dimorder(N, v, a, b)
        reject(ctx, v, lambda: ttb.cp_als(X, r, dimorder=d, **kw), X)
    elif v == "rank_zero":
        reject(ctx, v, lambda: ttb.cp_als(X, 0, **kw), X)
    elif v == "rank_negative":
        reject(ctx, v, lambda: ttb.cp_als(X, -r, **kw), X)
    elif v == "init_wrong_number_of_modes":
        G = kten(shape + [1], r) if b % 2 else kten(shape[:-1], r)
        ctx.label("trailing-singleton-added" if b % 2 else "last-mode-dropped")
        reject(ctx, v, lambda: ttb.cp_als(X, r, init=G, **kw), X, G)
    elif v == "init_wrong_rank":
        G = kten(shape, r + 1 if b % 2 else max(1, r - 1))
        reject(ctx, v, lambda: ttb.cp_als(X, r, init=G, **kw), X, G)
    elif v == "init_factor_wrong_rows":
        kd, oshape = mismatch(shape, ["singleton-for-n", "n-for-singleton", "permuted-same-count", "off-by-one-up"][b % 4], a)
        if len(oshape) != N:
            oshape = list(shape)
            oshape[a % N] += 1
        ctx.label("mm-" + kd)
        G = kten(oshape, r)
        reject(ctx, v, lambda: ttb.cp_als(X, r, init=G, **kw), X, G)
    else:
        reject(ctx, v, lambda: ttb.cp_als(X, r, init="zeros" if b % 2 else "svd", **kw), X)


_V = stated(
    "C19/alg/cp_apr",
    rank_zero="cp_apr.py:96 'Number of components requested must be positive'",
    negative_data="cp_apr.py:100 'Data tensor must be nonnegative for Poisson-based factorization'",
    init_wrong_number_of_modes="cp_apr.py:107 'Initial guess does not have the right number of modes'",
    init_wrong_rank="cp_apr.py:108 'Initial guess does not have the right number of components'",
    init_wrong_size="cp_apr.py:113 'Mode n of the initial guess is the wrong size'",
    init_negative_entry="cp_apr.py:115 'Initial guess has negative element in mode n'",
    init_negative_weight="cp_apr.py:117 'Initial guess has a negative ktensor weight'",
    init_unknown_string="cp_apr.py:126 ValueError('Initial guess supports ktensor or `random`')",
)


def _nonneg(shape, sparse_=False, neg_at=None):
    n = ref.prod(shape)
    v = [float((i * 5) % 4) for i in range(n)]
    v[0] = 2.0
    if neg_at is not None:
        v[neg_at % n] = -1.0
    A = gen.arr_F(shape, v)
    if sparse_:
        return gen.build_sptensor(gen.sparse_case_from_dense(A))
    return ttb.tensor(A.copy(order="F"), tuple(shape))


def _pos_kt(shape, r):
    return ttb.ktensor([np.abs(np.array(vals_for(n * r, j), dtype=float)).reshape(n, r) for j, n in enumerate(shape)],
                       np.ones(r))


@table("C19/alg/cp_apr", _V, alg=["mu", "pdnr", "pqnr"], sp=[False, True], early=_EARLY)
def c_cp_apr(ctx, case):
    begin(ctx, "C19/alg/cp_apr", case, case["alg"], "sparse" if case["sp"] else "dense", plain=True)
    shape, a, b, v, r = list(case["shape"]), case["a"], case["b"], case["viol"], case["r"]
    N = len(shape)
    X = _nonneg(shape, case["sp"])
    kw = dict(algorithm=case["alg"], maxiters=1, printitn=0, maxinneriters=1)
    np.random.seed(a * 8 + b)
    if case["alg"] != "pqnr":  # (pqnr has an open assertion finding of its own, C11)
        with ctx.sut("control:valid-call"):
            ttb.cp_apr(X, r, init=_pos_kt(shape, r), **kw)
    if case.get("early") == "maxiters0":
        kw = dict(kw, maxiters=0)
    elif case.get("early") == "stoptime0":
        kw = dict(kw, stoptime=0.0)
    ctx.label("early-exit-" + str(case.get("early")))
    if v == "rank_zero":
        reject(ctx, v, lambda: ttb.cp_apr(X, 0 if b % 2 else -1, **kw), X)
    elif v == "negative_data":
        Xn = _nonneg(shape, case["sp"], neg_at=a * 7 + b)
        reject(ctx, v, lambda: ttb.cp_apr(Xn, r, **kw), Xn)
    elif v == "init_wrong_number_of_modes":
        G = _pos_kt(shape + [1], r) if b % 2 else _pos_kt(shape[:-1], r)
        reject(ctx, v, lambda: ttb.cp_apr(X, r, init=G, **kw), X, G)
    elif v == "init_wrong_rank":
        G = _pos_kt(shape, r + 1)
        reject(ctx, v, lambda: ttb.cp_apr(X, r, init=G, **kw), X, G)
    elif v == "init_wrong_size":
        kd, oshape = mismatch(shape, ["singleton-for-n", "n-for-singleton", "permuted-same-count", "off-by-one-up"][b % 4], a)
        if len(oshape) != N:
            oshape = list(shape)
            oshape[a % N] += 1
        ctx.label("mm-" + kd)
        G = _pos_kt(oshape, r)
        reject(ctx, v, lambda: ttb.cp_apr(X, r, init=G, **kw), X, G)
    elif v == "init_negative_entry":
        G = _pos_kt(shape, r)
        G.factor_matrices[a % N][b % shape[a % N], 0] = -0.5
        reject(ctx, v, lambda: ttb.cp_apr(X, r, init=G, **kw), X, G)
    elif v == "init_negative_weight":
        G = _pos_kt(shape, r)
        G.weights[b % r] = -1.0
        reject(ctx, v, lambda: ttb.cp_apr(X, r, init=G, **kw), X, G)
    else:
        reject(ctx, v, lambda: ttb.cp_apr(X, r, init="nvecs", **kw), X)


_V = stated(
    "C19/alg/tucker",
    hosvd_ranks_wrong_length="hosvd.py:66 ValueError('Ranks must be a sequence of length tensor ndims.')",
    hosvd_dimorder_repeated="hosvd.py:77 ValueError('Dimorder must be a list or permutation of range(tensor.ndims)')",
    hosvd_dimorder_entry_equal_bound="same",
    hosvd_dimorder_short="same",
    tucker_stoptol_not_real="tucker_als.py:78 ValueError('stoptol must be a real valued scalar')",
    tucker_maxiters_negative="tucker_als.py:82 ValueError('maxiters must be a non-negative real valued scalar')",
    tucker_printitn_not_real="tucker_als.py:87 ValueError('printitn must be a real valued scalar')",
    tucker_dimorder_repeated="tucker_als.py:101 ValueError('Dimorder must be a permutation of range(tensor.ndims)')",
    tucker_dimorder_short="same",
    tucker_init_list_wrong_length="tucker_als.py:106 ValueError('Init needs to be of length tensor.ndim')",
    tucker_init_factor_wrong_shape="tucker_als.py:113 ValueError('Init factor n had incorrect shape')",
    tucker_init_unknown_string="tucker_als.py:135 ValueError('The selected initialization method is not supported')",
)


@table("C19/alg/tucker", _V)
def c_tucker(ctx, case):
    begin(ctx, "C19/alg/tucker", case, plain=True)
    shape, a, b, v = list(case["shape"]), case["a"], case["b"], case["viol"]
    N = len(shape)
    X = dense(shape, case["k"])
    ranks = [max(1, min(2, s)) for s in shape]
    np.random.seed(a * 8 + b)
    with ctx.sut("control:valid-call"):
        if v.startswith("hosvd"):
            ttb.hosvd(X, 1e-4, verbosity=-1, ranks=ranks, dimorder=list(range(N))[::-1])
        else:
            ttb.tucker_als(X, ranks, stoptol=1e-4, maxiters=1, printitn=0, dimorder=list(range(N))[::-1],
                           init=[np.ones((s, rk)) for s, rk in zip(shape, ranks)])
    if v == "hosvd_ranks_wrong_length":
        rk = ranks[:-1] if b % 2 else ranks + [1]
        reject(ctx, v, lambda: ttb.hosvd(X, 1e-4, verbosity=-1, ranks=rk), X)
    elif v.startswith("hosvd_dimorder"):
        d = _bad_dimorder(N, v, a, b)
        reject(ctx, v, lambda: ttb.hosvd(X, 1e-4, verbosity=-1, dimorder=d), X)
    elif v == "tucker_stoptol_not_real":
        reject(ctx, v, lambda: ttb.tucker_als(X, ranks, stoptol="1e-4" if b % 2 else 1j, maxiters=1, printitn=0), X)
    elif v == "tucker_maxiters_negative":
        reject(ctx, v, lambda: ttb.tucker_als(X, ranks, maxiters=-1 if b % 2 else "2", printitn=0), X)
    elif v == "tucker_printitn_not_real":
        reject(ctx, v, lambda: ttb.tucker_als(X, ranks, maxiters=1, printitn="1"), X)
    elif v.startswith("tucker_dimorder"):
        d = _bad_dimorder(N, v, a, b)
        reject(ctx, v, lambda: ttb.tucker_als(X, ranks, maxiters=1, printitn=0, dimorder=d), X)
    elif v == "tucker_init_list_wrong_length":
        U = [np.ones((s, rk)) for s, rk in zip(shape, ranks)]
        U2 = U[:-1] if b % 2 else U + [np.ones((1, 1))]
        reject(ctx, v, lambda: ttb.tucker_als(X, ranks, maxiters=1, printitn=0, init=U2), X, U2)
    elif v == "tucker_init_factor_wrong_shape":
        U = [np.ones((s, rk)) for s, rk in zip(shape, ranks)]
        n = 1 + a % (N - 1)  # (the first factor of dimorder is recomputed, hence not checked)
        if b % 2 and shape[n] != ranks[n]:
            U[n] = U[n].T.copy()
            ctx.label("transposed-factor")
        else:
            U[n] = np.ones((other_mode_len(shape, n, b), ranks[n]))
            ctx.label("rows-of-another-mode")
        reject(ctx, v, lambda: ttb.tucker_als(X, ranks, maxiters=1, printitn=0, init=U), X, U)
    else:
        reject(ctx, v, lambda: ttb.tucker_als(X, ranks, maxiters=1, printitn=0, init="zeros"), X)


_V = stated(
    "C19/alg/gcp_opt",
    objective_tuple_wrong_length="gcp_opt.py:63 ValueError('Objective must either be an Objectives enum or a tuple containing a "
                                 "function handle, gradient_handle and lower bound.')",
    data_not_a_tensor="gcp_opt.py:75 ValueError('Input data must be tensor or sptensor.')",
    mask_with_sparse_data="gcp_opt.py:83 ValueError('Cannot specify missing entries for sparse tensors')",
    unsupported_optimizer="gcp_opt.py:91 ValueError('Must select a supported optimizer.')",
    sparse_data_with_lbfgsb="gcp_opt.py:94 ValueError('For sparse tensor must use: ADAM, SGD, or ADAGRAD.')",
    mask_with_stochastic_solver="gcp_opt.py:97 ValueError(\"Mask isn't supported for stochastic solves\")",
    init_unknown_string="gcp_opt.py:160 ValueError('Unexpected input for init received')",
)


@table("C19/alg/gcp_opt", _V)
def c_gcp(ctx, case):
    from pyttb.gcp.fg_setup import function_type  # noqa: F401  (import check only)
    from pyttb.gcp.optimizers import LBFGSB, SGD
    from pyttb.gcp.fg_setup import Objectives

    begin(ctx, "C19/alg/gcp_opt", case, plain=True)
    shape, a, b, v, r = list(case["shape"]), case["a"], case["b"], case["viol"], case["r"]
    X = dense(shape, case["k"])
    S = sparse(shape, "some", case["k"])
    lb = LBFGSB(maxiter=1, iprint=-1)
    sg = SGD(max_iters=1, epoch_iters=1, max_fails=0)
    obj = Objectives.GAUSSIAN
    np.random.seed(a * 8 + b)
    with ctx.sut("control:valid-call"):
        if v in ("mask_with_sparse_data", "mask_with_stochastic_solver"):
            ttb.gcp_opt(X, r, obj, lb, mask=ttb.tenones(tuple(shape)), printitn=0)
        else:
            ttb.gcp_opt(X, r, obj, lb, init="random", printitn=0)
    if v == "objective_tuple_wrong_length":
        f = (lambda d, m: (d - m) ** 2, lambda d, m: 2 * (m - d))
        o = f if b % 2 else f + (0.0, 0.0)
        reject(ctx, v, lambda: ttb.gcp_opt(X, r, o, lb, printitn=0), X)
    elif v == "data_not_a_tensor":
        Y = kten(shape, r) if b % 2 else np.ones(tuple(shape))
        reject(ctx, v, lambda: ttb.gcp_opt(Y, r, obj, lb, printitn=0), Y)
    elif v == "mask_with_sparse_data":
        M = ttb.tenones(tuple(shape))
        reject(ctx, v, lambda: ttb.gcp_opt(S, r, obj, sg, mask=M, printitn=0), S, M)
    elif v == "unsupported_optimizer":
        reject(ctx, v, lambda: ttb.gcp_opt(X, r, obj, "lbfgsb" if b % 2 else None, printitn=0), X)
        G = kten(shape, r, 2)  # a supplied initial guess is an operand too
        reject(ctx, v + "/with-guess", lambda: ttb.gcp_opt(X, r, obj, "lbfgsb" if b % 2 else None, init=G, printitn=0), X, G)
    elif v == "sparse_data_with_lbfgsb":
        reject(ctx, v, lambda: ttb.gcp_opt(S, r, obj, lb, printitn=0), S)
        G = kten(shape, r, 2)
        reject(ctx, v + "/with-guess", lambda: ttb.gcp_opt(S, r, obj, lb, init=G, printitn=0), S, G)
    elif v == "mask_with_stochastic_solver":
        M = ttb.tenones(tuple(shape))
        reject(ctx, v, lambda: ttb.gcp_opt(X, r, obj, sg, mask=M, printitn=0), X, M)
        G = kten(shape, r, 2)
        reject(ctx, v + "/with-guess", lambda: ttb.gcp_opt(X, r, obj, sg, mask=M, init=G, printitn=0), X, M, G)
    else:
        reject(ctx, v, lambda: ttb.gcp_opt(X, r, obj, lb, init="nvecs", printitn=0), X)


# ==========================================================================
# import_data
# ==========================================================================

_V = stated(
    "C19/import_data",
    file_missing="import_data.py:30 'File path ... does not exist.'",
    unknown_type_line="import_data.py:39 'Invalid data type found'",
    order_line_disagrees_with_sizes="import_data.py:83 'Imported dimensions are not of expected size'",
    sparse_subscript_exceeds_size="sptensor.py:152 'Shape provided was incorrect to fit all subscripts' (import_data hands the "
                                  "file's subscripts and sizes to the constructor); the offending line may carry a zero value",
    sparse_file_read_with_lower_base="same: a 1-based file read with index_base=0 puts the largest subscript of a mode at "
                                     "the bound",
)


@table("C19/import_data", _V, kind=["tensor", "sptensor", "ktensor", "matrix"])
def c_import(ctx, case):
    if case["viol"].startswith("sparse_"):
        case = dict(case, kind="sptensor")
    begin(ctx, "C19/import_data", case, case["kind"], plain=True)
    shape, a, b, v = list(case["shape"]), case["a"], case["b"], case["viol"]
    if case["kind"] == "matrix":
        shape = shape[:2]
    d = tempfile.mkdtemp(prefix="vf-c19-")
    try:
        p = os.path.join(d, "x.tns")
        obj = {"tensor": lambda: dense(shape), "sptensor": lambda: sparse(shape, "some"), "ktensor": lambda: kten(shape, 2),
               "matrix": lambda: np.array(vals_for(ref.prod(shape)), dtype=float).reshape(tuple(shape))}[case["kind"]]()
        ttb.export_data(obj, p)
        with ctx.sut("control:valid-call"):
            ttb.import_data(p)
        with open(p) as f:
            lines = f.read().split("\n")
        if v == "file_missing":
            q = os.path.join(d, "nope.tns") if b % 2 else d  # a directory is not a file either
            reject(ctx, v, lambda: ttb.import_data(q))
            return
        if v in ("sparse_subscript_exceeds_size", "sparse_file_read_with_lower_base"):
            shape = [int(t) for t in lines[2].split()]
            N = len(shape)
            if v == "sparse_file_read_with_lower_base":
                # make sure some mode's last index is stored, then read the (valid, 1-based) file with base 0
                m = a % N
                row = [1] * N
                row[m] = shape[m]
                nz = int(lines[3].split()[0])
                lines[3] = str(nz + 1)
                val = "0.0000000000000000e+00" if b % 2 else "2.5000000000000000e+00"
                body = [ln for ln in lines[4:] if ln.strip()]
                body = [ln for ln in body if [int(t) for t in ln.split()[:N]] != row]
                lines[3] = str(len(body) + 1)
                lines = lines[:4] + body[: case["k"] % (len(body) + 1)] + [" ".join(map(str, row)) + " " + val] + \
                    body[case["k"] % (len(body) + 1):] + [""]
                ctx.label("offending-value-zero" if b % 2 else "offending-value-nonzero")
                q = os.path.join(d, "base.tns")
                with open(q, "w") as f:
                    f.write("\n".join(lines))
                with ctx.sut("control:valid-call"):
                    ttb.import_data(q)  # read with the base it was written in, the file is fine
                reject(ctx, f"{v}/sptensor", lambda: ttb.import_data(q, index_base=0))
                return
            m = a % N
            row = [1 + (i * 3 + b) % shape[i] for i in range(N)]
            row[m] = shape[m] + 1
            val = "0.0000000000000000e+00" if b % 2 else "2.5000000000000000e+00"
            ctx.label("offending-value-zero" if b % 2 else "offending-value-nonzero")
            body = [ln for ln in lines[4:] if ln.strip()]
            lines[3] = str(len(body) + 1)
            pos = case["k"] % (len(body) + 1)
            lines = lines[:4] + body[:pos] + [" ".join(map(str, row)) + " " + val] + body[pos:] + [""]
        elif v == "unknown_type_line":
            lines[0] = ["Tensor", "sparse", "tensors", "", "mat"][a % 5]
        else:
            n = int(lines[1].split()[0])
            lines[1] = str(n + 1 if b % 2 else max(0, n - 1))
            ctx.label("one-more" if b % 2 else "one-fewer")
        q = os.path.join(d, "bad.tns")
        with open(q, "w") as f:
            f.write("\n".join(lines))
        reject(ctx, f"{v}/{case['kind']}", lambda: ttb.import_data(q))
    finally:
        shutil.rmtree(d, ignore_errors=True)


# ==========================================================================
# round 4, class 12: in-place operations with an ill-formed request whose valid part would change the receiver
# ==========================================================================

_V = stated(
    "C19/setitem",
    subs_wrong_number_of_values="sptensor.py:2474 'Number of subscripts and number of values do not match!'; tensor.__setitem__ "
                                "docstring: 'V is a scalar or a vector containing p values' (numpy rejects another count)",
    subs_values_not_a_column="pyttb_utils.py tt_valscheck 'Values must be in array' (sptensor item assignment, column required)",
    subs_fewer_columns="sptensor.py:2432 'Invalid subscripts' (fewer columns than modes); tensor: 'S is a p x n array of subscripts'",
    subs_negative_subscript="pyttb_utils.py tt_subscheck 'Subscripts must be a matrix of real positive integers'",
    subtensor_value_wrong_shape="sptensor.py:2558 'RHS does not match range size' / :2707 'Invalid assignment value'; tensor: the "
                                "right-hand side replaces 'the rectangular subtensor specified by the ranges' (numpy rejects "
                                "another shape)",
    subtensor_later_key_invalid="tensor.py:2168 ValueError('Entries for setitem must be numeric ...'), slice bounds must be "
                                "integers; sptensor.py:2625 'Must have well defined slice when expanding sptensor shape with setitem'",
    linear_beyond_extent="tensor.py:2143 'TTB:BadIndex In assignment X[I] = Y, a tensor X cannot be resized'",
    linear_wrong_number_of_values="tensor.__setitem__ docstring: 'V is a scalar or a vector containing p values'",
)

_SETITEM_HOLDER = dict(subs_values_not_a_column="sptensor", subs_negative_subscript="sptensor", linear_beyond_extent="tensor",
                       linear_wrong_number_of_values="tensor")


def setitem_class(c):
    """pure function of the case: (holder, would the valid part of the request enlarge some mode, would it add modes)"""
    h = _SETITEM_HOLDER.get(c["viol"], c["holder"])
    if c["viol"].startswith("linear") or c["viol"] == "subs_fewer_columns":
        return h, False, False
    og = bool(c["og"]) and c["viol"].startswith("subs") and c["viol"] != "subs_negative_subscript"
    return h, bool(c["grow"]), og


def _setitem_value_kind(c):
    return ["ndarray", "tensor", "sptensor-list-key"][c["b"] % 3]


@table("C19/setitem", _V, per=40, min_order=2, max_order=3, tmul=8, holder=["tensor", "sptensor"], grow=[True, True, False],
       og=[False, False, True])
def c_setitem(ctx, case):
    """X[key] = value, all key forms, dense and sparse: a rejected assignment leaves X exactly as it was - also when the
    subscripts reach beyond the present extent (a valid assignment of that kind would have enlarged X)"""
    begin(ctx, "C19/setitem", case)
    state(dict(case, zs=False, prov=case.get("prov", "ctor")))
    shape, a, b, k, v = list(case["shape"]), case["a"], case["b"], case["k"], case["viol"]
    N = len(shape)
    h, grow, og = setitem_class(case)
    ctx.label(h, "would-enlarge-a-mode" if grow else "inside-extent", "would-add-a-mode" if og else "same-order")
    X = dense(shape, k) if h == "tensor" else sparse(shape, case["pattern"], k)
    name = f"{v}/{h}"
    m = a % N
    beyond = shape[m] + b % 3  # first subscript outside mode m
    allsubs = ref.all_subs_F(shape)
    p = 2 + k % 2
    rows = [list(allsubs[(a * 5 + 3 * j) % len(allsubs)]) for j in range(p)]

    def col(vs):
        return np.array(vs, dtype=float).reshape(-1, 1) if h == "sptensor" else np.array(vs, dtype=float)

    if v.startswith("subs"):
        if grow:
            rows[-1][m] = beyond
        if og:
            rows = [r_ + [j % 2] for j, r_ in enumerate(rows)]
        if v == "subs_wrong_number_of_values":
            subs = np.array(rows, dtype=int)
            nv = p + 1 if b % 2 else p - 1
            if nv < 2:
                nv = p + 1
            ctx.label("one-value-more" if nv > p else "one-value-fewer")
            vals = col(vals_for(nv, 2))
        elif v == "subs_values_not_a_column":
            subs = np.array(rows, dtype=int)
            vals = np.array(vals_for(p, 2), dtype=float) if b % 2 else np.array(vals_for(2 * p, 2), dtype=float).reshape(p, 2)
            ctx.label("flat-values" if b % 2 else "two-column-values")
        elif v == "subs_fewer_columns":
            if N < 3:
                shape = shape + [2]
                N = 3
                X = dense(shape, k) if h == "tensor" else sparse(shape, case["pattern"], k)
                rows = [r_ + [0] for r_ in rows]
            subs = np.array([r_[:-1] for r_ in rows], dtype=int)
            vals = col(vals_for(p, 2))
        else:
            rows[0][(m + 1) % N] = -1
            subs = np.array(rows, dtype=int)
            vals = col(vals_for(p, 2))
        reject(ctx, name, lambda: X.__setitem__(subs, vals), X, subs, vals)
    elif v == "subtensor_value_wrong_shape":
        # key: a slice in mode m (reaching beyond the extent when the case says so), a slice or an index elsewhere
        stop = beyond + 1 if grow else shape[m]
        lo = max(0, stop - 2)
        key, region = [], []
        for j in range(N):
            if j == m:
                key.append(slice(lo, stop))
                region.append(stop - lo)
            elif (a >> j) & 1 and shape[j] > 1:
                key.append(slice(0, shape[j]))
                region.append(shape[j])
            else:
                key.append(shape[j] - 1)
        wrong = list(region)
        wrong[sum(1 for j in range(m) if isinstance(key[j], slice))] += 1  # mode m: one more entry than the range holds
        vk = _setitem_value_kind(case)
        if h == "tensor":
            val = np.ones(tuple(wrong)) if vk == "ndarray" else dense(wrong, 1, role="other")
            ctx.label("value-" + type(val).__name__)
        elif vk == "sptensor-list-key":
            key[m] = list(range(lo, stop))
            val = sparse(wrong, "full", 1)
            ctx.label("value-sptensor-wrong-size")
        else:
            val = np.ones(tuple(region)) if vk == "ndarray" else dense(region, 1, role="other")
            ctx.label("value-" + type(val).__name__ + "-not-assignable")
        key = tuple(key)
        reject(ctx, name, lambda: X.__setitem__(key, val), X, val)
    elif v == "subtensor_later_key_invalid":
        key = [min(1, s - 1) for s in shape]
        if grow:
            key[0] = shape[0] + b % 3
        if h == "tensor":
            bad = [["a"], slice(0, 1.5), [0, "b"]][b % 3]
            ctx.label("later-key-" + ("float-slice" if isinstance(bad, slice) else "non-numeric-list"))
            key[-1] = bad
        else:
            key = key + [slice(None)]  # an open slice in a mode that does not exist yet
            ctx.label("later-key-open-slice-in-new-mode")
        key = tuple(key)
        reject(ctx, name, lambda: X.__setitem__(key, 5.0), X)
    elif v == "linear_beyond_extent":
        n = ref.prod(shape)
        idx = np.array([a % n, n + 1 + b % 3])
        vals = np.array([7.0, 8.0])
        reject(ctx, name, lambda: X.__setitem__(idx, vals if b % 2 else 7.0), X)
    else:
        n = ref.prod(shape)
        idx = np.array([(a + j) % n for j in range(2)])
        vals = np.array(vals_for(3, 1))
        reject(ctx, name, lambda: X.__setitem__(idx, vals), X, vals)


_V = stated(
    "C19/inplace",
    redistribute_mode_invalid="ktensor.redistribute docstring: 'mode: Must be value in [0,...self.ndims]' (factor_matrices[mode] "
                              "does not exist: IndexError / TypeError)",
    arrange_weight_factor_invalid="ktensor.arrange docstring: 'weight_factor: Index of the factor matrix the weights will be "
                                  "absorbed into' (no such factor: IndexError / TypeError)",
    arrange_permutation_not_a_permutation="ktensor.arrange docstring: 'The permutation must be of length equal to the number of "
                                          "components ... and must be a permutation of [0,...,self.ncomponents-1]'",
    fixsigns_other_inconsistent="[property statement] Kruskal operands that are dimensionally inconsistent: other has another "
                                "number of components / another shape / fewer modes (numpy rejects the products)",
    normalize_sort_and_mode_invalid="ktensor.py:1376 'Parameter single_factor is invalid; index must be an int in range of number "
                                    "of dimensions' - together with sort=True / normtype=1",
    tenmat_index_beyond_extent="tenmat item assignment writes into the matrix it holds (numpy IndexError; a tenmat is never resized)",
    tenmat_value_wrong_shape="same (numpy: could not broadcast input array)",
    sumtensor_iadd_shape_mismatch="sumtensor.py:56 'All tensors must be the same shape' (S += X is S = S + X)",
)


@table("C19/inplace", _V, per=30, min_order=2, max_order=4, tmul=8)
def c_inplace(ctx, case):
    begin(ctx, "C19/inplace", case)
    state(dict(case, zs=False, zo=False))
    import operator

    shape, r, a, b, v = list(case["shape"]), case["r"] + 1, case["a"], case["b"], case["viol"]
    N = len(shape)
    if v.startswith(("redistribute", "arrange", "fixsigns", "normalize")):
        K = kten(shape, r, case["k"])
        if case["k"] % 2:  # the receiver shares its arrays with the caller: they are operands too
            src = [np.asfortranarray(f.copy()) for f in K.factor_matrices], K.weights.copy()
            K = ttb.ktensor(src[0], src[1], copy=False)
            _ALSO.extend([src[0], src[1]])
            ctx.label("receiver-built-with-copy-False")
        if v == "redistribute_mode_invalid":
            mode = [N, -N - 1, "all", None, 1.5, N + 1][b % 6]
            ctx.label("mode-" + type(mode).__name__)
            reject(ctx, v, lambda: K.redistribute(mode), K)
        elif v == "arrange_weight_factor_invalid":
            wf = [N, -N - 1, "all", N + 1][b % 4]
            ctx.label("weight_factor-" + type(wf).__name__)
            reject(ctx, v, lambda: K.arrange(weight_factor=wf), K)
        elif v == "arrange_permutation_not_a_permutation":
            perm = list(range(r))
            sub = ["repeated", "entry-equal-bound"][b % 2]
            perm[a % r] = perm[(a + 1) % r] if sub == "repeated" else r
            arg = perm if a % 2 else np.array(perm, dtype=int)
            ctx.label("permutation-" + sub)
            reject(ctx, f"{v}/{sub}", lambda: K.arrange(permutation=arg), K)
        elif v == "fixsigns_other_inconsistent":
            sub = ["more-components", "other-shape", "fewer-modes"][b % 3]
            if sub == "more-components":
                Y = kten(shape, r + 1, 1, role="other")
            elif sub == "other-shape":
                o = list(shape)
                o[a % N] += 1
                Y = kten(o, r, 1, role="other")
            else:
                Y = kten(shape[:-1], r, 1, role="other")
            ctx.label("other-" + sub)
            reject(ctx, f"{v}/{sub}", lambda: K.fixsigns(Y), K, Y)
        else:
            mode = [N, -N - 1, 1.5][b % 3]
            kw = [dict(sort=True), dict(normtype=1), dict(sort=True, normtype=1)][a % 3]
            reject(ctx, v, lambda: K.normalize(mode=mode, **kw), K)
    elif v.startswith("tenmat"):
        k = 1 + a % (N - 1)
        nr, nc = ref.prod(shape[:k]), ref.prod(shape[k:])
        A = ttb.tenmat(np.array(vals_for(nr * nc), dtype=float).reshape(nr, nc), np.arange(k), np.arange(k, N), tuple(shape))
        if v == "tenmat_index_beyond_extent":
            key = [(nr + b % 2, 0), (0, nc + b % 2), ([0, nr], 0), (slice(0, 1), nc)][a % 4]
            val = 7.0
        else:
            key = [(slice(None), 0), (0, slice(None)), (slice(None), slice(None))][a % 3]
            val = [np.ones(nr + 1), np.ones(nc + 1), np.ones((nr + 1, nc))][a % 3]
        reject(ctx, v, lambda: A.__setitem__(key, val), A)
    else:
        P = holder(["tensor", "sptensor", "ktensor", "ttensor"][a % 4], shape, 0, case["pattern"], 2)
        S = ttb.sumtensor([P] if b % 2 else [P, dense(shape, 2)])
        kd, oshape = mismatch(shape, case["mm"], a)
        Y = other(["tensor", "sptensor", "ktensor", "ttensor"][b % 4], oshape, 1, "some", 2)
        ctx.label("mm-" + kd)
        reject(ctx, v, lambda: operator.iadd(S, Y), S, Y)


# ==========================================================================
# round 4, class 14: ill-formed requests that NumPy broadcasting would hide - argument lists of different lengths, empty
# lists, every other extent equal to 1
# ==========================================================================


@st.composite
def ones_shape(draw, tier, min_order=2, max_order=4):
    """mostly singleton modes; all modes singleton in a quarter of the cases and more"""
    N = draw(st.integers(min_order, max_order))
    if draw(st.integers(0, 3)) == 0:
        return [1] * N
    return [draw(st.sampled_from([1, 1, 2, 3, 4])) for _ in range(N)]


_V = stated(
    "C19/broadcast",
    ttt_dims_lists_of_different_lengths="tensor.py:1733 'Specified dimensions do not match' (the extents of selfdims and otherdims "
                                        "are compared as tuples: lists of different lengths never match)",
    ttt_dims_repeated="tensor.py ttt -> to_tenmat: 'the sorted concatenation of rdims and cdims must be range(source.ndims)'; "
                      "[property statement] mode arguments that are repeated",
    innerprod_orders_differ="tensor.py:742 'Inner product must be between tensors of the same size'; sptensor.py:898/913; "
                            "ktensor.py:1051; ttensor.py:308/325",
    ttv_list_length="pyttb_utils.py:201 'Invalid number of multiplicands'",
    ttm_list_length="pyttb_utils.py:201 'Invalid number of multiplicands'",
    ttv_vector_wrong_length="'Multiplicand is wrong size' (tensor.py:1784, sptensor.py:1984, ktensor.py:2094, ttensor.py:407)",
    mttkrp_single_column_factor="khatrirao.py:55 'All matrices must have the same number of columns.'; [property statement] "
                                "factor lists of the wrong ... column count",
    scale_factor_for_fewer_dims="tensor.py:1344 ValueError('Scaling factor has shape ...'); sptensor.py:1728 'Size mismatch in scale'",
    sparse_operator_orders_differ="sptensor.py:2840/2960/3293/2637/2739/3052/1018/1121/1193 same-shape requirements of the sparse "
                                  "element-wise operators",
    kruskal_sum_orders_differ="ktensor.py:2456/2504 'Must be two ktensors of the same shape'",
    contract_singleton_with_n="tensor.py:460 / sptensor.py:553 'Must contract along equally sized dimensions'",
)


def _bcast_case(viol):
    @st.composite
    def strat(draw, tier):
        return dict(viol=viol, shape=draw(ones_shape(tier)), a=draw(st.integers(0, 15)), b=draw(st.integers(0, 15)),
                    k=draw(st.integers(0, 5)), r=draw(st.integers(1, 3)),
                    pattern=draw(st.sampled_from(["some", "full", "one", "empty", "zeros"])),
                    first=draw(st.sampled_from(["tensor", "sptensor", "ktensor", "ttensor", "sumtensor"])),
                    other=draw(st.sampled_from(["tensor", "sptensor", "ktensor", "ttensor"])),
                    e=draw(st.sampled_from([1, 1, 1, 2])), zs=False, zo=draw(st.sampled_from([False, False, True])),
                    prov=draw(st.sampled_from(["ctor", "grown"])), idt=draw(st.sampled_from(["float", "int64"])))

    return strat


def _bcast_cells(fn):
    for v in _V:
        cell(f"C19/broadcast/{v}", strategy=_bcast_case(v), quick=40, thorough=300, shards=(1, 2))(fn)
    return fn


def mttkrp_onecol(c):
    """pure function of the case: (mode n of the mttkrp, index i of the factor that has a single column)"""
    N = max(len(c["shape"]), 3)
    n = c["a"] % N
    return n, [j for j in range(N) if j != n][c["b"] % (N - 1)]


def ttt_lists(c):
    """pure function of the case: lengths (p, q) of selfdims / otherdims, p != q"""
    p = c["a"] % 3
    q = (p + 1 + c["b"] % 2) % 3
    return p, q


@_bcast_cells
def c_broadcast(ctx, case):
    begin(ctx, "C19/broadcast", case)
    shape, a, b, k, v, r, e = list(case["shape"]), case["a"], case["b"], case["k"], case["viol"], case["r"] + 1, case["e"]
    N = len(shape)
    allones = all(s == 1 for s in shape)
    ctx.label("all-modes-singleton" if allones else "some-modes-singleton" if 1 in shape else "no-singleton")
    if v == "ttt_dims_lists_of_different_lengths":
        p, q = ttt_lists(case)
        free_x, free_y = shape[:1 + a % 2], shape[1:2 + b % 2]
        xs = [e] * p + free_x
        ys = [e] * q + free_y
        # contracted modes first or last
        if a % 4 >= 2:
            xs, sd = free_x + [e] * p, list(range(len(free_x), len(free_x) + p))
        else:
            sd = list(range(p))
        if b % 4 >= 2:
            ys, od = free_y + [e] * q, list(range(len(free_y), len(free_y) + q))
        else:
            od = list(range(q))
        X, Y = dense(xs, k), dense(ys, k + 1, role="other")
        ctx.label(f"lengths-{p}-{q}", "contracted-extent-1" if e == 1 else "contracted-extent>1")
        form = b % 3
        if form == 0:
            sda, oda = np.array(sd, dtype=int), np.array(od, dtype=int)
        elif form == 1:
            sda, oda = np.array(sd, dtype=np.int32), np.array(od, dtype=np.int64)
        else:  # a bare int where the list has one entry
            sda = sd[0] if p == 1 else np.array(sd, dtype=int)
            oda = od[0] if q == 1 else np.array(od, dtype=int)
        reject(ctx, v, lambda: X.ttt(Y, sda, oda), X, Y)
    elif v == "ttt_dims_repeated":
        # the same mode twice on one side, two different (equally long) modes on the other: every extent comparison passes
        xs, ys = [e] + shape[:1 + a % 2], [e, e] + shape[1:2 + b % 2]
        X, Y = dense(xs, k), dense(ys, k + 1, role="other")
        ctx.label("contracted-extent-1" if e == 1 else "contracted-extent>1")
        if a % 2:
            reject(ctx, v, lambda: X.ttt(Y, np.array([0, 0]), np.array([0, 1])), X, Y)
        else:
            reject(ctx, v, lambda: Y.ttt(X, np.array([0, 1]), np.array([0, 0])), X, Y)
    elif v == "innerprod_orders_differ":
        o = shape + [1] if b % 2 else ([1] + shape if b % 4 == 0 else shape[:-1])
        if list(o) == shape:
            o = shape + [1]
        X = holder(case["first"], shape, k, case["pattern"], r)
        Y = other(case["other"], o, k + 1, ["some", "full", "empty", "zeros"][a % 4], r)
        ctx.label("first-" + case["first"], "other-" + case["other"])
        reject(ctx, f"{v}/{case['first']}/{case['other']}", lambda: X.innerprod(Y), X, Y)
    elif v in ("ttv_list_length", "ttm_list_length"):
        if N < 3:
            shape = shape + [1]
            N = 3
        kinds = ["tensor", "sptensor", "ktensor", "ttensor", "sumtensor"] if v.startswith("ttv") else ["tensor", "sptensor", "ttensor"]
        what = kinds[a % len(kinds)]
        X = holder(what, shape, k, case["pattern"], r)
        n = b % N
        nxt = (n + 1) % N
        mk = (lambda s, j=0: _vec(s, j)) if v.startswith("ttv") else (lambda s, j=0: num(np.array(vals_for(s * 2, j), dtype=float).reshape(2, s)))
        if (a + b) % 2:  # two multiplicands, one mode
            ms, d = [mk(shape[n]), mk(shape[nxt], 1)], [n]
        else:  # one multiplicand (in a list), two modes
            ms, d = [mk(shape[n])], sorted([n, nxt])
        ctx.label(what, f"{len(ms)}-multiplicands-{len(d)}-dims")
        fn = (lambda: X.ttv(ms, np.array(d))) if v.startswith("ttv") else (lambda: X.ttm(ms, np.array(d)))
        reject(ctx, f"{v}/{what}", fn, X, ms)
    elif v == "ttv_vector_wrong_length":
        # a one-entry vector for a proper mode / a longer vector for a singleton mode, every other mode a singleton
        n = a % N
        sh = [1] * N
        if b % 2:
            sh[n], L = 2 + b % 3, 1
        else:
            sh[n], L = 1, 2 + b % 3
        what = ["tensor", "sptensor", "ktensor", "ttensor", "sumtensor"][k % 5]
        X = holder(what, sh, k, case["pattern"], r)
        vec = _vec(L)
        ctx.label(what, "one-entry-vector-for-proper-mode" if L == 1 else "long-vector-for-singleton-mode")
        if (a // 4) % 2:
            vs = [_vec(s, j) for j, s in enumerate(sh)]
            vs[n] = vec
            reject(ctx, f"{v}/{what}", lambda: X.ttv(vs), X, vs)
        else:
            reject(ctx, f"{v}/{what}", lambda: X.ttv(vec, n), X, vec)
    elif v == "mttkrp_single_column_factor":
        if N < 3:
            shape = shape + [2]
            N = 3
        what = case["first"]
        X = holder(what, shape, k, case["pattern"], 2)
        n, i = mttkrp_onecol(case)
        U = [num(np.array(vals_for(s * r, j), dtype=float).reshape(s, r)) for j, s in enumerate(shape)]
        U[i] = U[i][:, :1].copy()  # r >= 2 columns everywhere else
        ctx.label(what)
        reject(ctx, f"{v}/{what}", lambda: X.mttkrp(U, n), X, U)
    elif v == "scale_factor_for_fewer_dims":
        what = ["tensor", "sptensor"][k % 2]
        n = a % N
        sh = list(shape)
        mlist = [j for j in range(N) if j != n]
        m = mlist[b % len(mlist)]
        sh[m] = 1  # the extra mode is a singleton: a factor for mode n alone has as many entries as modes (n, m) together
        if sh[n] == 1 and b % 2:
            sh[n] = 3
        X = holder(what, sh, k, case["pattern"])
        f = num(np.arange(1.0, sh[n] + 1))
        d = np.array(sorted([n, m]))
        ctx.label(what)
        reject(ctx, f"{v}/{what}", lambda: X.scale(f, d), X, f)
    elif v == "sparse_operator_orders_differ":
        ops = sorted(_OPS)
        op = ops[a % len(ops)]
        o = shape + [1] if b % 2 else shape[:-1]
        rhs = ["sptensor", "tensor"][(b // 2) % 2]
        X = sparse(shape, case["pattern"], k)
        Y = other(rhs, o, k + 1, ["some", "full", "empty", "zeros"][a % 4])
        ctx.label("op-" + op, "rhs-" + rhs)
        fn = _OPS[op][0]
        reject(ctx, f"{v}/{op}/{rhs}", lambda: fn(X, Y), X, Y)
    elif v == "kruskal_sum_orders_differ":
        o = shape + [1] if b % 2 else shape[:-1]
        X, Y = kten(shape, r, k), kten(o, r, k + 1, role="other")
        reject(ctx, v, (lambda: X + Y) if a % 2 else (lambda: X - Y), X, Y)
    else:
        what = ["tensor", "sptensor"][k % 2]
        sh = [1] * max(N, 2)
        i = a % len(sh)
        sh[i] = 2 + b % 3
        j = [m for m in range(len(sh)) if m != i][b % (len(sh) - 1)]
        X = holder(what, sh, k, case["pattern"])
        ctx.label(what)
        reject(ctx, f"{v}/{what}", (lambda: X.contract(i, j)) if a % 2 else (lambda: X.contract(j, i)), X)


_V = stated(
    "C19/modes",
    collapse_mode_invalid="tensor.py:696 'Values in cdims must be in [0, source.ndims].' / pyttb_utils.py:181 \"Negative dims aren't "
                          "allowed in pyttb\" / 'Repeated dims aren't allowed'; [property statement] mode arguments out of range, "
                          "negative or repeated",
    contract_mode_invalid="[property statement] mode arguments that are out of range or negative (tensor.contract: 'Invalid "
                          "permutation order' / IndexError)",
    mttkrp_mode_invalid="[property statement] mode arguments that are out of range (n == ndims: IndexError in every holder)",
)


def modes_class(c):
    """pure function of the case: (holder, which way the mode is invalid)"""
    kinds = {"collapse_mode_invalid": ["tensor", "sptensor"], "contract_mode_invalid": ["tensor", "sptensor"],
             "mttkrp_mode_invalid": ["tensor", "sptensor", "ktensor", "ttensor", "sumtensor"]}[c["viol"]]
    # (a negative mode in mttkrp is answered or rejected depending on holder and shape: not demanded)
    how = ["equal-bound", "negative", "repeated"][c["b"] % {"collapse_mode_invalid": 3, "contract_mode_invalid": 2,
                                                              "mttkrp_mode_invalid": 1}[c["viol"]]]
    return kinds[c["k"] % len(kinds)], how


@table("C19/modes", _V, per=30, min_order=3, max_order=4, tmul=8)
def c_modes(ctx, case):
    begin(ctx, "C19/modes", case)
    shape, a, b, v, r = list(case["shape"]), case["a"], case["b"], case["viol"], case["r"] + 1
    N = len(shape)
    what, how = modes_class(case)
    ctx.label(what, "mode-" + how)
    X = holder(what, shape, case["k"], case["pattern"], 2)
    name = f"{v}/{how}/{what}"
    if v == "collapse_mode_invalid":
        good = a % N
        d = {"equal-bound": [good, N], "negative": [good - N] if a % 2 else [-1, good], "repeated": [good, good]}[how]
        if how == "equal-bound" and a % 3 == 0:
            d = [N]
        arg = np.array(d, dtype=int)
        reject(ctx, name, lambda: X.collapse(arg), X)
    elif v == "contract_mode_invalid":
        # two singleton modes so that the sizes agree whichever mode the invalid number is taken for
        sh = list(shape)
        i = a % N
        sh[i] = sh[0] = sh[N - 1] = 1
        X = holder(what, sh, case["k"], case["pattern"])
        j = N if how == "equal-bound" else (-1 if i != N - 1 else -N)
        reject(ctx, name, (lambda: X.contract(i, j)) if (a // 4) % 2 else (lambda: X.contract(j, i)), X)
    else:
        U = [num(np.array(vals_for(s_ * r, j), dtype=float).reshape(s_, r)) for j, s_ in enumerate(shape)]
        n = N if how == "equal-bound" else -1 - a % N
        reject(ctx, name, lambda: X.mttkrp(U, n), X, U)


# ==========================================================================
# predicates for known findings (pure functions of the case)
# ==========================================================================


def _other_shape(c):
    return mismatch(c["shape"], c["mm"], c["a"])[1]


def _broadcastable(c):
    try:
        np.broadcast_shapes(tuple(c["shape"]), tuple(_other_shape(c)))
        return True
    except ValueError:
        return False


def _stored_subs_fit_other(c):
    o = _other_shape(c)
    if len(o) != len(c["shape"]):
        return False
    X = sparse(c["shape"], c["pattern"], c["k"])
    return X.subs.size == 0 or bool(np.all(X.subs < np.array(o)[None, :]))


def _order_all_ones(c):
    o = bad_order(len(c["shape"]), c["viol"], c["a"], c["b"])
    return all(v == 1 for v in o)


PREDICATES = {
    # round 3
    "update_fails_after_first_mode": lambda c: update_fails_after_first_mode(c),
    "order_is_all_ones": _order_all_ones,
    "self_sptensor_empty": lambda c: c["pattern"] == "empty",
    "shapes_broadcast": _broadcastable,
    "stored_subscripts_fit_other_shape": _stored_subs_fit_other,
    # sptensor.__init__ compares np.max(subs) + 1 with the shape in the dtype of subs
    "offending_subscript_is_255_in_uint8": lambda c: ctor_subs_class(c)[1],
    # round 4: the valid part of the rejected assignment would have enlarged the receiver
    "setitem_dense_would_grow": lambda c: setitem_class(c)[0] == "tensor" and (setitem_class(c)[1] or setitem_class(c)[2]),
    "setitem_sparse_would_add_a_mode": lambda c: setitem_class(c)[0] == "sptensor" and setitem_class(c)[2],
    # sptensor.mttkrp reads the rank off U[1] (n == 0) or U[0]: a single column there is taken as the rank; ktensor.mttkrp
    # multiplies column blocks with NumPy broadcasting whatever the position
    "single_column_factor_goes_unnoticed": lambda c: c["first"] == "ktensor" or (
        c["first"] == "sptensor" and mttkrp_onecol(c)[1] == (1 if mttkrp_onecol(c)[0] == 0 else 0)),
    "setitem_sparse_array_value_would_grow": lambda c: (setitem_class(c)[0] == "sptensor" and setitem_class(c)[1]
                                                       and _setitem_value_kind(c) != "sptensor-list-key"),
}

ASSUMPTIONS += [f"table row {k}: stated by {v}" for k, v in sorted(STATED.items())]
