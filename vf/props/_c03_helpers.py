"""Helpers of the C03 cells: operator table, case construction, input-class tags, result oracle.

A *pair case* is ``dict(shape=[..], a=dict(subs=[[..]..], vals=[..]), b=dict(subs, vals))``: two operands on the same
shape given by their stored nonzeros *in stored order*.  ``a`` is always held sparse; ``b`` is held sparse (sp-sp),
or dense (sp-tn: ``S op T``; tn-sp: ``T op S``).  A *scalar case* is ``dict(shape, a=dict(subs, vals), c=number,
ckind='int'|'float'|'npfloat')``.
"""

from __future__ import annotations

import operator as _op
import random
import zlib
from typing import Dict, List, Sequence, Tuple

import numpy as np

import pyttb as ttb

from .. import gen, ref
from ..core import Abort
from ._live import Live

# --------------------------------------------------------------------------
# operator table:  name -> (call on pyttb objects, the same NumPy operator on the expanded arrays)
# --------------------------------------------------------------------------

ARITH = ("add", "sub", "mul", "div")
COMPARE = ("eq", "ne", "lt", "le", "gt", "ge")
LOGIC = ("and", "or", "xor")
BINARY = ARITH + COMPARE + LOGIC

SUT = {
    "add": _op.add,
    "sub": _op.sub,
    "mul": _op.mul,
    "div": _op.truediv,
    "eq": _op.eq,
    "ne": _op.ne,
    "lt": _op.lt,
    "le": _op.le,
    "gt": _op.gt,
    "ge": _op.ge,
    "and": lambda x, y: x.logical_and(y),
    "or": lambda x, y: x.logical_or(y),
    "xor": lambda x, y: x.logical_xor(y),
}
NP = {
    "add": np.add,
    "sub": np.subtract,
    "mul": np.multiply,
    "div": np.divide,
    "eq": np.equal,
    "ne": np.not_equal,
    "lt": np.less,
    "le": np.less_equal,
    "gt": np.greater,
    "ge": np.greater_equal,
    "and": np.logical_and,
    "or": np.logical_or,
    "xor": np.logical_xor,
}
# reflected scalar forms that exist: c*S (__rmul__), c/S (__rtruediv__); the comparisons c <op> S are
# dispatched by Python to the mirrored sptensor method (c < S  ->  S.__gt__(c)), == and != to themselves.
REFLECTED_SCALAR = ("mul", "div") + COMPARE

VALUE_SET = (-2.0, -1.0, 1.0, 2.0, 2.5)
SCALARS = (-2, -1, 0, 1, 2, 2.5, -1.0, 0.0, 2.0)


# --------------------------------------------------------------------------
# building operands
# --------------------------------------------------------------------------


def dense_of(shape: Sequence[int], part: Dict) -> np.ndarray:
    A = np.zeros(tuple(int(s) for s in shape))
    for s, v in zip(part["subs"], part["vals"]):
        A[tuple(int(i) for i in s)] = v
    return A


INT_DTYPES = ("int64", "int32", "int8", "uint8")


def part_dtype(part) -> str:
    """value dtype the operand is held in ('float64' unless the case says otherwise; integer dtypes are only ever
    assigned to operands whose values are all integers)"""
    return part.get("dtype", "float64")


def dtype_kind(part) -> str:
    dt = part_dtype(part)
    return "f" if dt.startswith("float") else ("u" if dt.startswith("uint") else "i")


def integral(vals) -> bool:
    """all values are integers small enough for every integer dtype used here (int8 sums and products included)"""
    return all(float(v) == int(v) and abs(v) <= 10 for v in vals)


def shape_as(shape, kind):
    """the same shape in the forms a caller hands it over (round 4): tuple of Python ints (default), of numpy int64 /
    int32 / uint8 scalars, a list, an integer ndarray (int64 / int32), a bare int for a single mode"""
    shape = tuple(int(s) for s in shape)
    if kind == "npint":
        return tuple(np.int64(n) for n in shape)
    if kind == "npint32":
        return tuple(np.int32(n) for n in shape)
    if kind == "npuint8" and max(shape, default=0) < 256:
        return tuple(np.uint8(n) for n in shape)
    if kind == "list":
        return list(shape)
    if kind == "array":
        return np.array(shape, dtype=np.int64)
    if kind == "array32":
        return np.array(shape, dtype=np.int32)
    if kind == "bare-int" and len(shape) == 1:
        return shape[0]
    return shape


SUBS_DTYPES = ("int32", "int16", "int8", "uint8", "uint16", "uint32", "uint64")
SPARSE_CTORS = ("plain", "agg", "coo", "nocopy-F", "nocopy-readonly", "nocopy-strided")
DENSE_PRES = ("C", "strided", "strided-nocopy", "readonly-nocopy", "readonly", "flat+shape")


def sp_of(shape, part) -> ttb.sptensor:
    """The sparse operand: stored nonzeros in stored order, values in the operand's dtype.  part['zsubs'] /
    part['zpos'] (derived-state cells only) list cells that are held as explicitly stored zeros and where they go in
    the stored order; part['shapekind'] hands the shape over in another form (shape_as).  Round 4 (presentation):
    part['subsdt'] = integer dtype of the subscript array the caller passes; part['ctor'] = how the tensor is made:
    'plain' sptensor(subs, vals, shape); 'agg' sptensor.from_aggregator; 'coo' (two modes) through a
    scipy.sparse.coo_matrix whose row / col / data arrays are handed to the constructor, as a caller converting a
    SciPy matrix does; 'nocopy-*' sptensor(..., copy=False) on a Fortran-ordered / read-only / strided view."""
    shape = tuple(int(s) for s in shape)
    subs, vals = [list(x) for x in part["subs"]], [float(v) for v in part["vals"]]
    for z, pos in zip(part.get("zsubs", []), part.get("zpos", [])):
        subs.insert(min(pos, len(subs)), list(z)), vals.insert(min(pos, len(vals)), 0.0)
    shp = shape_as(shape, part.get("shapekind"))
    if not subs:
        return ttb.sptensor(shape=shp)
    sa = np.array(subs, dtype=int).reshape(len(subs), len(shape))
    va = np.array(vals, dtype=float).astype(part_dtype(part)).reshape(-1, 1)
    sd = part.get("subsdt")
    if sd is not None and max(shape) - 1 <= np.iinfo(sd).max:
        sa = sa.astype(sd)
    ctor = part.get("ctor", "plain")
    if ctor == "agg":
        return ttb.sptensor.from_aggregator(sa, va, shp)
    if ctor == "coo" and len(shape) == 2:
        from scipy import sparse

        M = sparse.coo_matrix((va[:, 0], (sa[:, 0], sa[:, 1])), shape=shape)
        return ttb.sptensor(np.vstack((M.row, M.col)).T, M.data[:, None], M.shape)
    if ctor == "nocopy-F":
        return ttb.sptensor(np.asfortranarray(sa), va, shp, copy=False)
    if ctor == "nocopy-readonly":
        sa.flags.writeable = False
        va.flags.writeable = False
        return ttb.sptensor(sa, va, shp, copy=False)
    if ctor == "nocopy-strided":
        bs = np.full((2 * sa.shape[0], 2 * sa.shape[1] + 1), 1, dtype=sa.dtype)
        bv = np.full((3 * va.shape[0], 2), 7, dtype=va.dtype)
        bs[::2, 1::2] = sa
        bv[::3, 1:] = va
        return ttb.sptensor(bs[::2, 1::2], bv[::3, 1:], shp, copy=False)
    return ttb.sptensor(sa, va, shp)


def tn_of(shape, part) -> ttb.tensor:
    """The dense operand in the operand's dtype; part['prov'] == 'grown': reached by growing a smaller tensor by
    assignment (gen.build_tensor), which leaves a C-ordered buffer and numpy integers in `shape`.  Round 4:
    part['dpres'] = the array the caller hands over: C-ordered, a strided view with a reversed axis (copied or
    copy=False), read-only (copied or referenced), a flat vector plus shape; part['shapekind'] as for sp_of."""
    shape = tuple(int(s) for s in shape)
    A = dense_of(shape, part)
    if part.get("prov") == "grown":
        return gen.build_tensor(dict(shape=list(shape), data=np.ravel(A, order="F").tolist(), prov="grown"))
    A = A.astype(part_dtype(part))
    pres = part.get("dpres")
    sk = part.get("shapekind")
    if pres is None and sk is None:
        return ttb.tensor(np.asfortranarray(A), shape)
    shp = shape_as(shape, sk)
    if pres == "C":
        return ttb.tensor(np.ascontiguousarray(A), shp)
    if pres in ("strided", "strided-nocopy"):
        big = np.full(tuple(2 * n + 1 for n in shape), 9, dtype=A.dtype)
        idx = (slice(None, 0, -2),) + tuple(slice(1, None, 2) for _ in shape[1:])
        view = big[idx]
        view[...] = A
        return ttb.tensor(view, shp, copy=pres == "strided")
    if pres in ("readonly", "readonly-nocopy"):
        F = np.asfortranarray(A)
        F.flags.writeable = False
        return ttb.tensor(F, shp, copy=pres == "readonly")
    if pres == "flat+shape":
        return ttb.tensor(np.ravel(A, order="F"), shp)
    return ttb.tensor(np.asfortranarray(A), shp)


NP_SCALAR_KINDS = {"npint64": np.int64, "npint32": np.int32, "npint8": np.int8, "npuint8": np.uint8,
                   "npfloat32": np.float32, "npbool": np.bool_, "pybool": bool}


def scalar_of(case):
    c, k = case["c"], case.get("ckind", "float")
    if k == "int":
        return int(c)
    if k == "npfloat":
        return np.float64(c)
    if k in NP_SCALAR_KINDS:
        return NP_SCALAR_KINDS[k](c)
    return float(c)


# --------------------------------------------------------------------------
# input classes (tags).  They go into the clause names, so that the same clause failing on another class of
# inputs is another signature, and they back the PREDICATES used by known_findings/C03.json.
# --------------------------------------------------------------------------


def _n(k: int) -> str:
    return str(min(k, 2))


def _keys(part) -> List[Tuple[int, ...]]:
    return [tuple(int(i) for i in s) for s in part["subs"]]


def common_order_differs(case) -> bool:
    """The entries stored by both operands appear in a different relative order in the two coordinate lists."""
    ka, kb = _keys(case["a"]), _keys(case["b"])
    sb = set(kb)
    sa = set(ka)
    return [k for k in ka if k in sb] != [k for k in kb if k in sa]


def supports_differ(case) -> bool:
    return set(_keys(case["a"])) != set(_keys(case["b"]))


def extra_tags(case) -> List[str]:
    """Input classes beyond the default (float64 values, freshly constructed operands): appended to the tag list
    only when present, so that the clause names of the default class are unchanged.
    dt-XY: value dtypes of the left (X) and right (Y) operand, f float / i signed integer / u unsigned integer / s Python
    scalar; ez: an operand holds explicitly stored zeros; grown: the dense operand was grown by assignment."""
    ka = dtype_kind(case["a"])
    kb = dtype_kind(case["b"]) if "b" in case else "s"
    t = []
    if ka != "f" or kb not in ("f", "s"):
        t.append(f"dt-{ka}{kb}")
    if case["a"].get("zsubs") or ("b" in case and case["b"].get("zsubs")):
        t.append("ez")
    if "b" in case and case["b"].get("prov") == "grown":
        t.append("grown")
    return t


def has_unsigned(case) -> bool:
    return dtype_kind(case["a"]) == "u" or ("b" in case and dtype_kind(case["b"]) == "u")


def tags_spsp(case) -> List[str]:
    na, nb = len(case["a"]["subs"]), len(case["b"]["subs"])
    t = [f"a{_n(na)}b{_n(nb)}"]
    t.append("ord-diff" if common_order_differs(case) else "ord-same")
    t.append("supp-diff" if supports_differ(case) else "supp-same")
    return t + extra_tags(case)


def dense_zero_count(case) -> int:
    return ref.prod(case["shape"]) - len(case["b"]["subs"])


def dense_zero_under_stored(case) -> bool:
    """The dense operand is zero at a position where the sparse operand stores a nonzero."""
    sb = set(_keys(case["b"]))
    return any(k not in sb for k in _keys(case["a"]))


def both_zero_somewhere(case) -> bool:
    n = ref.prod(case["shape"])
    return len(set(_keys(case["a"])) | set(_keys(case["b"]))) < n


def tags_sptn(case) -> List[str]:
    na = len(case["a"]["subs"])
    t = [f"a{_n(na)}z{_n(dense_zero_count(case))}"]
    t.append("Tzero-at-stored" if dense_zero_under_stored(case) else "Tnz-at-stored")
    t.append("has-00" if both_zero_somewhere(case) else "no-00")
    return t + extra_tags(case)


def scalar_matches(case) -> str:
    """How many of the stored values equal the scalar: none / some / all (of at least one)."""
    vals = case["a"]["vals"]
    c = float(case["c"])
    k = sum(1 for v in vals if float(v) == c)
    if k == 0:
        return "none"
    return "all" if k == len(vals) else "some"


def tags_scalar(case) -> List[str]:
    na = len(case["a"]["subs"])
    c = float(case["c"])
    full = na == ref.prod(case["shape"])
    return [f"a{_n(na)}" + ("full" if full else ""), "c0" if c == 0 else ("c+" if c > 0 else "c-"),
            "match-" + scalar_matches(case)] + extra_tags(case)


def nontrivial_pair(case) -> bool:
    """Both operands have a zero and a nonzero, and their zero patterns differ."""
    n = ref.prod(case["shape"])
    na, nb = len(case["a"]["subs"]), len(case["b"]["subs"])
    return 0 < na < n and 0 < nb < n and supports_differ(case)


# --------------------------------------------------------------------------
# the oracle for one returned object
# --------------------------------------------------------------------------


def _lenient_den(R: ttb.sptensor, ignore_vals: bool = False):
    """Expand a sparse result whose subscript array is float-typed (but integer-valued, in range, distinct);
    ignore_vals: every subscript row counts as 1 (boolean results whose value column has the wrong length)."""
    subs = np.asarray(R.subs)
    shape = tuple(int(n) for n in R.shape)
    A = np.zeros(shape)
    if subs.size == 0:
        return A
    if subs.ndim != 2 or subs.shape[1] != len(shape) or not np.all(subs == np.round(subs)):
        return None
    isubs = subs.astype(int)
    if (isubs < 0).any() or (isubs >= np.array(shape)[None, :]).any():
        return None
    if len({tuple(r) for r in isubs.tolist()}) != isubs.shape[0]:
        return None
    if ignore_vals:
        vals = np.ones(isubs.shape[0])
    else:
        vals = np.asarray(R.vals).reshape(-1)
        if vals.size != isubs.shape[0]:
            return None
    for r, v in zip(isubs, vals):
        A[tuple(r)] = v
    return A


def problem_kinds(problems: Sequence[str]) -> str:
    """Stable names of the ways a sparse result is ill-formed (numbers stripped)."""
    out = []
    for p in problems:
        k = p.split(":")[0]
        k = k.rstrip("0123456789-") if k.startswith("nnz-") else k
        if k not in out:
            out.append(k)
    return "+".join(sorted(out))


def check_result(ctx, name: str, tagstr: str, R, expect: np.ndarray, info="", boolean: bool = False,
                 split=None) -> None:
    """Clauses `<name>:returns-tensor|shape|wellformed(<how>)|values [tags]` for one returned object.

    expect: the NumPy result on the expanded arrays (bool -> 0/1).  Explicitly stored zeros are allowed (they
    denote 0); any other ill-formedness is a violation, after which the values are still compared when the object
    can be expanded unambiguously (float-typed integral subscripts).  split = (name, boolean mask): the values
    clause is split into `values@name` (positions inside the mask) and `values` (all other positions)."""
    expect = np.asarray(expect).astype(float)
    sfx = f" [{tagstr}]"
    if not ctx.check(isinstance(R, (ttb.sptensor, ttb.tensor)), f"{name}:returns-tensor{sfx}", type(R).__name__):
        return
    try:
        rshape = tuple(int(s) for s in R.shape)
    except Exception:  # noqa: BLE001
        rshape = None
    if not ctx.check(rshape == expect.shape, f"{name}:shape{sfx}", f"{rshape} vs {expect.shape} {info}"):
        return
    if isinstance(R, ttb.sptensor):
        probs = ref.sptensor_problems(R, allow_explicit_zero=True)
        if probs:
            ctx.check(False, f"{name}:wellformed({problem_kinds(probs)}){sfx}", f"{probs} {info}")
            rest = [p for p in probs if not p.startswith("subs-dtype")]
            if rest and not (boolean and all(p.startswith("one-value-per-subscript") for p in rest)):
                return
            # still judge the positions: float-typed integral subscripts are read as integers, and a
            # comparison / logical result (every stored value means "true") is read from its subscripts alone
            got = _lenient_den(R, ignore_vals=bool(rest))
            if got is None:
                return
        else:
            got = ref.den(R)
    else:
        data = np.asarray(R.data)
        if not ctx.check(data.shape == expect.shape and data.dtype != object, f"{name}:dense-data-shape{sfx}",
                         f"{data.shape} {data.dtype}"):
            return
        got = data.astype(float)
    if split is None or got.shape != expect.shape:
        ctx.check(ref.same_exact(got, expect), f"{name}:values{sfx}", f"{ref.diff_info(got, expect)} {info}")
        return
    # several clauses: the positions of each named class (a position belongs to the first class that contains it),
    # and all the others (so that a known defect that is confined to one class of positions does not excuse a wrong
    # value anywhere else)
    splits = [split] if isinstance(split, tuple) else list(split)
    rest = np.ones(expect.shape, dtype=bool)
    for where, mask in splits:
        m = np.asarray(mask, dtype=bool) & rest
        rest &= ~m
        g_in, e_in = np.where(m, got, 0.0), np.where(m, expect, 0.0)
        ctx.check(ref.same_exact(g_in, e_in), f"{name}:values@{where}{sfx}", f"{ref.diff_info(g_in, e_in)} {info}")
    g_out, e_out = np.where(rest, got, 0.0), np.where(rest, expect, 0.0)
    ctx.check(ref.same_exact(g_out, e_out), f"{name}:values{sfx}", f"{ref.diff_info(g_out, e_out)} {info}")


def run_op(ctx, name: str, tagstr: str, fn, expect_fn, info="", split=None, unsigned: bool = False) -> None:
    """Call pyttb (exception = violation of `<name>:<Exc>@frame [tags]`), then check; never aborts the case.

    expect_fn works on the float64 expansions, i.e. it gives the mathematical result.  unsigned: an operand is held
    in an unsigned integer dtype; an operation whose true result has a negative entry is then outside the domain (an
    unsigned array cannot hold it, NumPy wraps around or refuses) and is not run."""
    with np.errstate(all="ignore"):
        expect = expect_fn()
    if unsigned and np.any(np.asarray(expect, dtype=float) < 0):
        ctx.label("not-run:negative-result-with-unsigned-operand")
        return None
    try:
        with ctx.sut(f"{name} [{tagstr}]"):
            R = fn()
    except Abort:
        return None
    check_result(ctx, name, tagstr, R, expect, info, boolean=name.split("/")[0] in COMPARE + LOGIC + ("not",),
                 split=split)
    return R


def check_unchanged(ctx, name: str, *pairs) -> None:
    """`<name>:operand-unchanged`: an operation must leave its operands as they were (they denote the same arrays
    and store the same number of entries), otherwise the next call on the same objects sees other inputs"""
    ok = True
    for X, A in pairs:
        try:
            ok = ok and ref.same_exact(ref.den(X), A)
        except Exception:  # noqa: BLE001
            ok = False
    ctx.check(ok, f"{name}:operand-unchanged")


class environment:
    """round 4, process environment: the root logger at DEBUG with a handler that swallows everything (core.evaluate
    disables logging up to WARNING; enabled here and restored on exit).  What is computed may not depend on it."""

    def __init__(self, env):
        self.env = env

    def __enter__(self):
        if self.env == "debug-logging":
            import logging

            root = logging.getLogger()
            # (a StreamHandler may already be installed: logging.warning() calls basicConfig() on a bare root logger)
            self.saved = (root.level, root.manager.disable, list(root.handlers))
            root.handlers[:] = [logging.NullHandler()]
            root.setLevel(logging.DEBUG)
            logging.disable(logging.NOTSET)
        return self

    def __exit__(self, *exc):
        if self.env == "debug-logging":
            import logging

            root = logging.getLogger()
            root.handlers[:] = self.saved[2]
            root.setLevel(self.saved[0])
            logging.disable(self.saved[1])
        return False


def exact_state(X):
    """bit-for-bit parameterisation of an operand: shape entries, and every state array with its dtype"""
    from ._live import snapshot

    return (tuple(int(n) for n in X.shape), [(a.dtype.str, a.shape, a.tobytes()) for a in snapshot(X)])


def explicit_zero_mask(case):
    """positions at which an operand of the case holds an explicitly stored zero (None when there is none)"""
    cells = [tuple(int(i) for i in z) for k in ("a", "b") if k in case for z in case[k].get("zsubs", [])]
    if not cells:
        return None
    m = np.zeros(tuple(int(s) for s in case["shape"]), dtype=bool)
    for c in cells:
        m[c] = True
    return m


def value_split(name: str, A: np.ndarray, B: np.ndarray, case=None):
    """Position classes to which an already-known value defect is confined (see known_findings/C03.json):
    positions where an operand holds an explicitly stored zero (derived-state cells); sptensor*sptensor, ==, / pair
    the *common* entries; S.logical_and(T) errs where S is stored and T is zero; S/T errs where both are zero."""
    out = []
    ez = explicit_zero_mask(case) if case is not None else None
    if ez is not None:
        out.append(("explicit-zero", ez))
    if name in ("mul/sp-sp", "eq/sp-sp", "div/sp-sp"):
        out.append(("common", (A != 0) & (B != 0)))
    if name == "and/sp-tn":
        out.append(("S-stored-T-zero", (A != 0) & (B == 0)))
    if name == "div/sp-tn":
        out.append(("both-zero", (A == 0) & (B == 0)))
    return out or None


# --------------------------------------------------------------------------
# deterministic enumeration of pattern pairs
# --------------------------------------------------------------------------

SHAPES_QUICK = [(2,), (4,), (2, 2), (1, 3), (2, 1, 2)]
SHAPES_THOROUGH_SMALL = [(1,), (3,), (1, 1), (3, 2)]
SHAPES_THOROUGH_8 = [(8,), (2, 4), (2, 2, 2)]


def _seed(shape, *ints) -> int:
    return zlib.crc32(repr((tuple(int(s) for s in shape),) + tuple(int(i) for i in ints)).encode())


def _stored(rng: random.Random, entries):
    """Put the entries (F order) into one of: sorted, reversed, shuffled."""
    how = rng.randrange(3)
    if how == 1:
        return entries[::-1]
    if how == 2 and len(entries) > 1:
        entries = list(entries)
        rng.shuffle(entries)
    return entries


def _part(entries):
    return dict(subs=[list(e[0]) for e in entries], vals=[e[1] for e in entries])


def pair_case(shape, pa: int, pb: int, rep: int, permute_b: bool = True) -> dict:
    """Zero patterns pa, pb (bit k = cell k in F order is nonzero); values from VALUE_SET and stored orders chosen
    by a PRNG seeded with (shape, pa, pb, rep): a fixed, reproducible function of the enumeration index.  At a
    common position the second operand repeats the first one's value one time in three."""
    subsF = ref.all_subs_F(shape)
    n = len(subsF)
    rng = random.Random(_seed(shape, pa, pb, rep))
    ea, eb = [], []
    for k in range(n):
        va = rng.choice(VALUE_SET) if (pa >> k) & 1 else 0.0
        vb = 0.0
        if (pb >> k) & 1:
            vb = va if (va != 0.0 and rng.randrange(3) == 0) else rng.choice(VALUE_SET)
        if va != 0.0:
            ea.append((subsF[k], va))
        if vb != 0.0:
            eb.append((subsF[k], vb))
    ea = _stored(rng, ea)
    if permute_b:
        eb = _stored(rng, eb)
    a, b = _part(ea), _part(eb)
    rng2 = random.Random(_seed(shape, pa, pb, rep, 7919))
    enum_dtype(rng2, a), enum_dtype(rng2, b)
    rng3 = random.Random(_seed(shape, pa, pb, rep, 104729))
    enum_subsdt(rng3, a), enum_subsdt(rng3, b)
    return dict(shape=list(shape), a=a, b=b)


def enum_dtype(rng: random.Random, part) -> None:
    """an operand whose values are all integers is held in an integer dtype two times in three"""
    vals = part["vals"]
    if vals and integral(vals) and rng.randrange(3):
        part["dtype"] = rng.choice(["int64", "int64", "int32", "uint8" if min(vals) > 0 else "int8"])


def enum_subsdt(rng: random.Random, part) -> None:
    """round 4: one sparse operand in four hands its subscripts over in a narrower / unsigned integer dtype (a third
    PRNG stream: patterns, values, orders and value dtypes are unchanged; uint64 only in the */present cells)"""
    if part["subs"] and rng.randrange(4) == 0:
        part["subsdt"] = rng.choice(["int32", "int32", "int16", "uint8", "uint32"])


def enum_plan(tier: str, base_reps: int):
    """(shape, reps): every shape's 4**cells pattern pairs are enumerated `reps` times with other values/orders."""
    plan = [(s, base_reps) for s in SHAPES_QUICK]
    if tier == "thorough":
        plan = [(s, base_reps * 4) for s in SHAPES_QUICK]
        plan += [((1,), base_reps * 8), ((3,), base_reps * 4), ((1, 1), base_reps * 8), ((3, 2), 2)]
        plan += [(s, 1) for s in SHAPES_THOROUGH_8]
    return plan


def enum_pairs(tier: str, base_reps: int, permute_b: bool = True):
    for shape, reps in enum_plan(tier, base_reps):
        n = ref.prod(shape)
        for pa in range(1 << n):
            for pb in range(1 << n):
                for rep in range(reps):
                    yield pair_case(shape, pa, pb, rep, permute_b)


def scalar_cases(tier: str):
    shapes = list(SHAPES_QUICK)
    reps = 2
    if tier == "thorough":
        shapes += [(1,), (3,), (1, 1), (3, 2)] + SHAPES_THOROUGH_8
        reps = 6
    for shape in shapes:
        subsF = ref.all_subs_F(shape)
        n = len(subsF)
        for pa in range(1 << n):
            for rep in range(reps if n <= 6 else 2):
                rng = random.Random(_seed(shape, pa, rep, -1))
                ea = [(subsF[k], rng.choice(VALUE_SET)) for k in range(n) if (pa >> k) & 1]
                # one rep in two stores a single repeated value so that "every stored value equals c" occurs
                if rep % 2 == 1 and ea:
                    v = rng.choice(VALUE_SET)
                    ea = [(s, v) for s, _ in ea]
                ea = _stored(rng, ea)
                a = _part(ea)
                enum_dtype(random.Random(_seed(shape, pa, rep, -2)), a)
                enum_subsdt(random.Random(_seed(shape, pa, rep, -3)), a)
                for c in SCALARS:
                    yield dict(shape=list(shape), a=a, c=float(c),
                               ckind="int" if isinstance(c, int) else "float")


# --------------------------------------------------------------------------
# round 3: large operands (sizes above internal block thresholds).  A large case is stored in compact form
# dict(shape, big=dict(seed, na, nb, vk, ...)) and expanded by a PRNG seeded with `seed` into an ordinary pair / scalar
# case (Hypothesis cannot draw thousands of subscripts; the compact form also keeps replays small).
# --------------------------------------------------------------------------

# (shape, (fewest, most) stored nonzeros per operand): nnz * cells * ndims and nnz(A) * nnz(B) * ndims straddle 2**22
BIG_SHAPES = [((12, 12, 12), (900, 1600)), ((12, 12, 12), (1100, 1600)), ((40, 45), (1200, 1750)),
              ((6, 7, 6, 7), (800, 1600)), ((2500,), (1700, 2400)), ((30, 30, 30), (45, 200)), ((20, 21, 20), (150, 700))]
# beyond this many cells pyttb's all-pairs row matching makes the operators whose result marks every empty position
# quadratic in the number of cells (minutes, gigabytes): they are not run there (label not-run:quadratic-at-this-size)
BIG_QUADRATIC_CELLS = 3000
BIG_QUADRATIC = {"sp-sp": ("div", "eq", "le", "ge"), "sp-tn": ("ne",), "tn-sp": ()}

_BIG_VALUES = {"int": [-3.0, -2.0, -1.0, 1.0, 2.0, 3.0], "set": list(VALUE_SET),
               "half": [v / 2.0 for v in range(-6, 7) if v != 0]}
_EXPANDED: Dict[str, dict] = {}


def _big_value(rng, vk):
    if vk in _BIG_VALUES:
        return rng.choice(_BIG_VALUES[vk])
    v = 10.0 ** rng.uniform(-3, 3) * rng.choice([-1.0, 1.0])
    return v * {"tiny": 1e-6, "huge": 1e6}.get(vk, 1.0)


def expand(case):
    """the full case of a compact large case dict(big=dict(seed, pair, permute_b)) (cached); every other case is
    returned as it is.  Shape, numbers of stored entries, kind of values, overlap, stored orders, dtypes and the
    scalar are all functions of the seed."""
    if "big" not in case:
        return case
    key = repr(sorted((k, v) for k, v in case["big"].items() if k != "simplest"))
    hit = _EXPANDED.get(key)
    if hit is not None:
        return hit
    big = case["big"]
    rng = random.Random(int(big["seed"]))
    shape, (lo, hi) = BIG_SHAPES[rng.randrange(len(BIG_SHAPES))]
    n = ref.prod(shape)
    vk = rng.choice(["int", "int", "set", "half", "float"])
    dt = rng.randrange(2)

    def unravel(k):
        out = []
        for m in shape:
            out.append(k % m)
            k //= m
        return out

    na = min(rng.randint(lo, hi), n)
    ca = rng.sample(range(n), na)
    va = {k: _big_value(rng, vk) for k in ca}
    out = dict(shape=list(shape))
    ea = [(unravel(k), va[k]) for k in sorted(ca)]
    out["a"] = _part(_stored(rng, ea))
    if big.get("pair", True):
        nb = min(rng.randint(lo, hi), n)
        if rng.randrange(3):  # two times in three: enough entries for nnz(A) * nnz(B) * ndims to pass 2**22
            nb = min(max(nb, int(1.1 * 2**22 / (na * len(shape))) + 1), hi)
        # about half of the second operand's entries sit on entries of the first one
        free = [k for k in range(n) if k not in va]
        rest = rng.sample(free, min(len(free), nb // 2))
        common = rng.sample(ca, min(len(ca), nb - len(rest)))
        vb = {}
        for k in common:
            rel = rng.randrange(4)
            vb[k] = va[k] if rel == 0 else (-va[k] if rel == 1 else _big_value(rng, vk))
        for k in rest:
            vb[k] = _big_value(rng, vk)
        eb = [(unravel(k), vb[k]) for k in sorted(vb)]
        out["b"] = _part(_stored(rng, eb) if big.get("permute_b", True) else eb)
        if dt:
            enum_dtype(rng, out["a"]), enum_dtype(rng, out["b"])
    else:
        how = rng.choice(["zero", "stored", "neg-stored", "other", "other"])
        c = 0.0 if how == "zero" else rng.choice([-3.0, -1.0, 1.0, 3.0, 0.5, -0.5, 1.5])
        if how in ("stored", "neg-stored") and ea:
            c = ea[0][1] if how == "stored" else -ea[0][1]
        out["c"], out["ckind"] = float(c), rng.choice(["float", "npfloat", "int"])
        if dt:
            enum_dtype(rng, out["a"])
        if out["ckind"] == "int" and (not float(c).is_integer() or abs(c) > 10):
            out["ckind"] = "float"
    # round 4 (drawn last, so that everything above is what it was): two large sparse operands in three hand their
    # subscripts over as int32 / uint32 / int16 (every BIG_SHAPES mode fits), independently: blocked row matching
    # then meets narrow and mixed subscript dtypes
    for k in ("a", "b"):
        if k in out and out[k]["subs"] and rng.randrange(3):
            out[k]["subsdt"] = rng.choice(["int32", "int32", "uint32", "int16"])
    if len(_EXPANDED) > 16:
        _EXPANDED.clear()
    _EXPANDED[key] = out
    return out


def big_not_run(kind: str, case) -> Tuple[str, ...]:
    if ref.prod(case["shape"]) > BIG_QUADRATIC_CELLS:
        return BIG_QUADRATIC.get(kind, ())
    return ()


def alias_turn(case, i: int) -> bool:
    """several live objects: which operator of a case gets the in-place-edit round (one of the thirteen, a fixed
    function of the case so that every operator gets its turn over the cases); never for large cases (a subscript
    assignment into a result with thousands of entries is quadratic in pyttb)"""
    if ref.prod(case["shape"]) > 400 or case.get("present"):
        return False  # (presentation cells: operands may be read-only views; the edit round runs in the other cells)
    na, nb = len(case["a"]["subs"]), (len(case["b"]["subs"]) if "b" in case else int(abs(case["c"]) * 2))
    if na == 0 or ("b" in case and nb == 0):
        return True  # an empty operand is where an operation may hand back the other one: every operator
    return (na + nb + i) % len(BINARY) == 0


def check_alias(ctx, name: str, R, **operands) -> None:
    """`<name>:<object>:changed-by:edit-of-<other>`: the result and the operands of an operation stay alive; each of
    them in turn is edited in place through the public interface (S[subs] = v, T[...] = B) and every other one must
    stay exactly what it was - a result may not be an operand, nor share its arrays"""
    if R is None or not isinstance(R, (ttb.sptensor, ttb.tensor)):
        return
    live = Live(ctx, prefix=name + ":")
    for k, X in operands.items():
        if isinstance(X, (ttb.sptensor, ttb.tensor)):
            live.keep(k, X)
    live.keep("result", R)
    live.edit_all()


# --------------------------------------------------------------------------
# round 3: modes longer than 2**31 / 2**53 / 2**60 and more than 2**63 cells.  Nothing can be expanded there; the
# operators whose result is zero wherever both operands are zero (op(0, 0) == 0, op(0, c) == 0) stay sparse and are
# judged entry by entry against the same NumPy operator applied to the stored values (Python-integer subscripts).
# --------------------------------------------------------------------------


def entries_of(S) -> Dict[Tuple[int, ...], float]:
    """subscript -> value of the stored entries that are not zero (plain attribute reads)"""
    if S.subs.size == 0:
        return {}
    subs = np.asarray(S.subs).reshape(-1, len(S.shape))
    return {tuple(int(i) for i in r): float(v) for r, v in zip(subs, np.asarray(S.vals).reshape(-1)) if v != 0}


def part_entries(part) -> Dict[Tuple[int, ...], float]:
    return {tuple(int(i) for i in s_): float(v) for s_, v in zip(part["subs"], part["vals"])}


def expected_local(name: str, ea: Dict, eb: Dict) -> Dict[Tuple[int, ...], float]:
    out = {}
    with np.errstate(all="ignore"):
        for k in set(ea) | set(eb):
            v = float(NP[name](np.float64(ea.get(k, 0.0)), np.float64(eb.get(k, 0.0))))
            if v != 0:
                out[k] = v
    return out


def check_huge_result(ctx, name: str, tagstr: str, R, shape, want: Dict, info="") -> None:
    sfx = f" [{tagstr}]"
    if not ctx.check(isinstance(R, ttb.sptensor), f"{name}:returns-sptensor{sfx}", type(R).__name__):
        return
    try:
        rshape = tuple(int(n) for n in R.shape)
    except Exception:  # noqa: BLE001
        rshape = None
    if not ctx.check(rshape == tuple(shape), f"{name}:shape{sfx}", f"{rshape} vs {tuple(shape)}"):
        return
    probs = ref.sptensor_problems(R, allow_explicit_zero=True)
    if not ctx.check(not probs, f"{name}:wellformed({problem_kinds(probs)}){sfx}", f"{probs} {info}"):
        return
    got = entries_of(R)
    bad = sorted(k for k in set(got) | set(want) if not (got.get(k) == want.get(k) or (
        k in got and k in want and np.isnan(got[k]) and np.isnan(want[k]))))
    ctx.check(not bad, f"{name}:values{sfx}",
              f"{len(bad)} entries differ; first at {bad[:1]}: got {got.get(bad[0]) if bad else None} "
              f"ref {want.get(bad[0]) if bad else None} {info}")
