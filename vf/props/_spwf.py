"""Well-formedness of sparse matricized tensors (shared by C01 and C06; plain attribute reads only)."""

from __future__ import annotations

import numpy as np

import pyttb as ttb

from .. import ref


def _ints(x):
    """list of python ints from an array-like of integer-valued entries, else None (never raises)"""
    try:
        a = np.asarray(x)
        if a.size == 0:
            return []
        if a.ndim != 1:
            return None
        if not (np.issubdtype(a.dtype, np.integer) or np.all(a == np.round(a))):
            return None
        return [int(v) for v in a]
    except Exception:  # noqa: BLE001
        return None


def _shape_of_t(ts):
    try:
        return tuple(int(s) for s in ts)
    except Exception:  # noqa: BLE001
        return None


def sptenmat_problems(M, allow_explicit_zero=False):
    """Ways in which M is not a well-formed sptenmat ([] if none)."""
    if not isinstance(M, ttb.sptenmat):
        return [f"not-sptenmat:{type(M).__name__}"]
    out = []
    ts = _shape_of_t(M.tshape)
    rd, cd = _ints(M.rdims), _ints(M.cdims)
    if ts is None or rd is None or cd is None:
        return ["tshape/rdims/cdims-not-integer-vectors"]
    if sorted(rd + cd) != list(range(len(ts))):
        out.append("rdims+cdims-not-a-partition")
        return out
    for name, d in (("rdims", M.rdims), ("cdims", M.cdims)):
        if isinstance(d, np.ndarray) and d.size and not np.issubdtype(d.dtype, np.integer):
            out.append(f"{name}-dtype-{d.dtype}")
    shape2 = (ref.prod(ts[d] for d in rd), ref.prod(ts[d] for d in cd))
    try:
        if tuple(int(v) for v in M.shape) != shape2:
            out.append(f"shape-{tuple(M.shape)}-vs-{shape2}")
    except Exception as e:  # noqa: BLE001
        out.append(f"shape-raises-{type(e).__name__}")
    subs, vals = M.subs, M.vals
    if not isinstance(subs, np.ndarray) or not isinstance(vals, np.ndarray):
        return out + ["subs/vals-not-ndarray"]
    n = 0 if subs.size == 0 else subs.shape[0]
    if subs.size:
        if subs.ndim != 2 or subs.shape[1] != 2:
            return out + [f"subs-shape-{subs.shape}"]
        if not np.issubdtype(subs.dtype, np.integer):
            out.append(f"subs-dtype-{subs.dtype}")
        if (subs < 0).any() or (subs[:, 0] >= shape2[0]).any() or (subs[:, 1] >= shape2[1]).any():
            out.append("subs-out-of-shape")
        if len({(int(r[0]), int(r[1])) for r in subs}) != n:
            out.append("duplicate-subscripts")
    if vals.size and (vals.ndim != 2 or vals.shape[1] != 1):
        out.append(f"vals-shape-{vals.shape}")
    if vals.size != n:
        out.append(f"one-value-per-subscript:{n}-subs-{vals.size}-vals")
    try:
        if M.nnz != n:
            out.append(f"nnz-{M.nnz}-vs-stored-{n}")
    except Exception as e:  # noqa: BLE001
        out.append(f"nnz-raises-{type(e).__name__}")
    if not allow_explicit_zero and vals.size and (vals == 0).any():
        out.append("explicit-zero-stored")
    return out
