"""C02 cells with one tensor operand: ttsv, norm, contract, collapse, ttensor.reconstruct."""

from __future__ import annotations

import itertools

import numpy as np
from hypothesis import strategies as st

import pyttb as ttb

from .. import gen, ref
from ..core import cell
from . import _c02_common as cm

# --------------------------------------------------------------------------
# ttsv
# --------------------------------------------------------------------------


@st.composite
def _ttsv_strategy(draw, tier):
    vk = draw(st.sampled_from(["int", "float"]))
    N = draw(st.integers(1, 4 if tier == "quick" else 5))
    n = draw(st.integers(1, 3 if N >= 4 else 4))
    h = draw(cm.dense_holder([n] * N, vk))
    skip = draw(st.sampled_from([None] + list(range(N))))
    version = draw(st.sampled_from([None, 1, 2]))
    pat = draw(st.sampled_from(["all", "all", "some", "one", "none"]))
    vvk = cm.other_vkind(draw, vk)
    v, vdt = cm.operand_values(draw, n, pat, vvk, cm.has_small_dtype(h))
    return dict(X=h, skip_dim=skip, version=version, v=v, vform=draw(st.sampled_from(["array", "list"])), vdtype=vdt,
                vvkind=vvk)


def ttsv_body(ctx, case):
    h = case["X"]
    shape = h["shape"]
    N = len(shape)
    X = cm.build(h)
    A = cm.den_case(h)
    v = np.array(case["v"], dtype=float)
    skip = case["skip_dim"]
    first = 0 if skip is None else skip + 1  # modes first..N-1 are multiplied by v
    vecs = {m: v for m in range(first, N)}
    expect = cm.ref_ttv(A, vecs)
    bound = cm.ref_ttv(np.abs(A), {m: np.abs(v) for m in vecs})
    ctx.label(f"order{N}", f"size{shape[0]}", f"skip-{skip}", f"version-{case['version']}",
              f"result-order{expect.ndim}", *cm.state_label(h), "dtype-" + h.get("dtype", "float64"),
              "vector-dtype-" + (case.get("vdtype") or "float64"), *cm.object_labels(X),
              "values-mixed-kinds" if case.get("vvkind", h["vkind"]) != h["vkind"] else "values-same-kind")
    ctx.nt = shape[0] >= 2 and len(set(case["v"])) > 1 and N - first >= 2 and bool(np.any(expect != 0))
    as_int = (case.get("vdtype") or "float64").split("@")[0] != "float64"
    varg = cm.cast(v, case.get("vdtype")) if case["vform"] == "array" else [
        (int(x) if as_int else float(x)) for x in case["v"]]
    kw = {}
    if skip is not None:
        kw["skip_dim"] = cm.present_dims(case, int(skip))
    if case["version"] is not None:
        kw["version"] = case["version"]
    if case.get("pres"):  # (round 4) the vector as another caller would hand it over
        if isinstance(varg, np.ndarray):
            varg = cm.present_array(case, varg)
        elif case["pres"].get("container") == "tuple":
            varg = tuple(varg)
        ctx.label(*cm.pres_labels(case))
    pos, kw = cm.positional(case, kw, ("skip_dim", "version"))
    with ctx.sut("tensor.ttsv"):
        R = X.ttsv(varg, *pos, **kw)
    ctx.label(cm.result_kind(R))
    got = cm.result_array(ctx, R, "ttsv-result", allow=("tensor", "ndarray", "scalar"))
    if expect.size == 1 and got.size == 1:
        # a one-entry result may be handed back as a scalar or as a 1-entry array/tensor: only the value is judged
        got, expect_c, bound_c = got.reshape(()), expect.reshape(()), bound.reshape(())
    else:
        expect_c, bound_c = expect, bound
    nterms = ref.prod(shape[first:]) * (N + 1)
    cm.compare(ctx, got, expect_c, bound_c, cm.pres_nterms(case, nterms),
               cm.pres_exact(case, cm.intvalued(h) and case.get("vvkind", "int") == "int"), "ttsv-value",
               f"skip={skip} version={case['version']}")


cell("C02/ttsv/tensor", strategy=_ttsv_strategy, quick=600, thorough=12000, shards=(2, 8))(ttsv_body)


def _enum_ttsv(tier):
    combos = [(1, 2), (1, 3), (2, 2), (2, 3), (3, 2), (3, 3), (4, 2), (2, 1), (3, 1)]
    if tier == "thorough":
        combos += [(4, 3), (5, 2), (1, 1), (2, 4), (3, 4)]
    for N, n in combos:
        h = cm.fixed_holder("tensor", [n] * N, salt=N + n)
        i = 0
        for skip in [None] + list(range(N)):
            for version in (None, 1, 2):
                i += 1
                yield dict(X=cm.fixed_state(h, i), skip_dim=skip, version=version, v=cm.fixed_vector(n, N), vform="array",
                           vdtype=(None, "int64", "int32")[i % 3])


@cell("C02/ttsv/enumerated", enum=_enum_ttsv)
def ttsv_enumerated(ctx, case):
    """every (order, size, skip_dim, version) on fixed cubical tensors"""
    ttsv_body(ctx, case)


# --------------------------------------------------------------------------
# norm
# --------------------------------------------------------------------------


def _norm_strategy(kind):
    @st.composite
    def s(draw, tier):
        if kind in ("tenmat", "sptenmat"):
            h = draw(cm.holder(tier, "tensor" if kind == "tenmat" else "sptensor"))
            rd, cd = draw(gen.ordered_partition(len(h["shape"])))
            if kind == "sptenmat" and (not rd or not cd) and len(h["shape"]) >= 1:
                pass
            return dict(X=h, kind=kind, rdims=rd, cdims=cd)
        return dict(X=draw(cm.holder(tier, kind)), kind=kind)

    return s


def norm_body(ctx, case):
    h, kind = case["X"], case["kind"]
    A, Aabs = cm.den_case(h), cm.den_case(h, absolute=True)
    S = float(np.sum(A * A))
    B = float(np.sum(Aabs * Aabs))
    shape = h["shape"]
    if kind == "tenmat":
        M = ref.matricize(A, case["rdims"], case["cdims"])
        X = ttb.tenmat(M.astype(np.dtype(h.get("dtype") or "float64")).copy(order="F"), np.array(case["rdims"], dtype=int),
                       np.array(case["cdims"], dtype=int), tuple(shape))
    elif kind == "sptenmat":
        M = ref.matricize(A, case["rdims"], case["cdims"])
        # stored entries follow the stored order of the sparse case
        subs2, vals2 = [], []
        for s, v in zip(h["subs"], h["vals"]):
            r = ref.lin_index([s[d] for d in case["rdims"]], [shape[d] for d in case["rdims"]])
            c = ref.lin_index([s[d] for d in case["cdims"]], [shape[d] for d in case["cdims"]])
            subs2.append([r, c])
            vals2.append(v)
        if subs2:
            X = ttb.sptenmat(np.array(subs2, dtype=int), np.array(vals2, dtype=np.dtype(h.get("dtype") or "float64")).reshape(-1, 1),
                             np.array(case["rdims"], dtype=int), np.array(case["cdims"], dtype=int), tuple(shape))
        else:
            X = ttb.sptenmat(rdims=np.array(case["rdims"], dtype=int), cdims=np.array(case["cdims"], dtype=int),
                             tshape=tuple(shape))
    else:
        X = cm.build(h)
    ctx.label(kind, *cm.holder_labels(h), "norm-zero" if S == 0 else "norm-nonzero", *cm.object_labels(X))
    ctx.nt = len(set(A.ravel().tolist())) > 1 and S != 0
    with ctx.sut(f"{kind}.norm"):
        r = X.norm()
    ctx.require(isinstance(r, cm.SCALAR_TYPES) and not isinstance(r, bool), "norm-returns-scalar", type(r).__name__)
    r = float(r)
    ctx.require(np.isfinite(r) and r >= 0, "norm-finite-nonnegative", r)
    # compared in squared form: |r^2 - sum a^2| <= 64 n eps B (+ the rounding of the final sqrt/square, 8 eps S);
    # B = sum over |.| of the products the representation multiplies out (== S for dense/sparse holders)
    n = (cm.terms(h) ** 2) * A.size + 1
    if case.get("tight"):
        n = cm.tight_count(h)  # (round 3) the rounding-error count of the Gram / full-then-sum algorithms themselves
    n = cm.pres_nterms(case, n)  # (round 4) single-precision data: single-precision unit
    tol = 64 * n * ref.EPS * B + 8 * ref.EPS * S + 1e-290
    ctx.check(abs(r * r - S) <= tol, "norm-value", f"norm {r!r}, norm^2 {r * r!r} vs sum of squares {S!r} tol {tol:.3g}")
    if cm.pres_exact(case, cm.intvalued(h)) and B < 2.0**50:
        # integer data: the sum of squares is exact, only sqrt rounds
        ctx.check(abs(r - np.sqrt(S)) <= 4 * ref.EPS * np.sqrt(S), "norm-value-intdata", f"{r!r} vs {np.sqrt(S)!r}")


for _k, (_q, _t) in {"tensor": (300, 6000), "sptensor": (300, 6000), "ktensor": (400, 8000), "ttensor": (400, 8000),
                     "tenmat": (300, 6000), "sptenmat": (300, 6000)}.items():
    cell(f"C02/norm/{_k}", strategy=_norm_strategy(_k), quick=_q, thorough=_t, shards=(1, 4))(norm_body)


# --------------------------------------------------------------------------
# contract
# --------------------------------------------------------------------------


def _contract_strategy(kind):
    @st.composite
    def s(draw, tier):
        vk = draw(st.sampled_from(["int", "float"]))
        shape = draw(gen.shapes(tier, min_order=2))
        N = len(shape)
        p = list(draw(st.permutations(range(N))))
        i, j = p[0], p[1]
        shape[j] = shape[i]
        while ref.prod(shape) > (64 if tier == "quick" else 400):
            k = max(range(N), key=lambda m: shape[m])
            shape[k] -= 1
            if k in (i, j):
                shape[i] = shape[j] = shape[k]
        pats = cm.SPARSE_PATTERNS if kind == "sptensor" else cm.PATTERNS
        h = draw(cm.holder_with_shape(shape, vk, kind, patterns=pats))
        return dict(X=h, i=i, j=j)

    return s


def contract_body(ctx, case):
    h, i, j = case["X"], case["i"], case["j"]
    kind = h["holder"]
    X = cm.build(h)
    A = cm.den_case(h)
    expect = np.trace(A, axis1=i, axis2=j)
    bound = np.trace(np.abs(A), axis1=i, axis2=j)
    N = A.ndim
    ctx.label(*cm.holder_labels(h), f"order{N}", "i<j" if i < j else "i>j", "adjacent" if abs(i - j) == 1 else "apart",
              cm.fill_label(expect), f"tracesize{h['shape'][i]}", *cm.object_labels(X))
    ctx.nt = N >= 3 and len(set(h["shape"])) >= 2 and h["shape"][i] >= 2 and bool(np.any(expect != 0))
    ci, cj = i, j
    if case.get("pres"):  # (round 4) numpy integer scalars of any width where a Python int is documented
        ci, cj = cm.present_dims(case, int(i)), cm.present_dims(case, int(j))
        ctx.label(*cm.pres_labels(case))
    with ctx.sut(f"{kind}.contract"):
        R = X.contract(ci, cj)
    ctx.label(cm.result_kind(R))
    allow = ("tensor", "scalar") if kind == "tensor" else ("sptensor", "tensor", "scalar")
    got = cm.result_array(ctx, R, "contract-result", allow=allow)
    if N == 2:
        ctx.check(isinstance(R, cm.SCALAR_TYPES), "contract-2way-gives-scalar", type(R).__name__)
    cm.compare(ctx, got, expect, bound, cm.pres_nterms(case, h["shape"][i] + 1), cm.pres_exact(case, cm.intvalued(h)),
               "contract-value", f"i={i} j={j}")


cell("C02/contract/tensor", strategy=_contract_strategy("tensor"), quick=500, thorough=10000, shards=(2, 8))(contract_body)
cell("C02/contract/sptensor", strategy=_contract_strategy("sptensor"), quick=600, thorough=12000, shards=(2, 8))(
    contract_body)


def _enum_contract(tier):
    shapes = [(2, 2), (3, 3), (2, 2, 3), (3, 2, 2), (2, 3, 2), (2, 2, 2), (2, 3, 2, 3), (1, 1, 2), (2, 1, 1)]
    if tier == "thorough":
        shapes += [(3, 3, 3), (2, 4, 2, 4), (2, 2, 3, 3), (1, 1), (1, 1, 1), (3, 2, 3, 2, 2)]
    for sh in shapes:
        for hk in ("tensor", "sptensor", "sptensor-thin", "sptensor-one", "sptensor-empty"):
            h = cm.fixed_holder(hk, sh, salt=len(sh))
            for q, (i, j) in enumerate(itertools.permutations(range(len(sh)), 2)):
                if sh[i] == sh[j]:
                    yield dict(X=cm.fixed_state(h, q), i=i, j=j)


@cell("C02/contract/enumerated", enum=_enum_contract)
def contract_enumerated(ctx, case):
    """every ordered pair of equal-sized modes on fixed shapes"""
    contract_body(ctx, case)


# --------------------------------------------------------------------------
# collapse
# --------------------------------------------------------------------------

# name -> (callable handed to pyttb, NumPy reference over the listed axes, exact whatever the values?)
REDUCERS = {
    "default": (None, lambda A, ax: A.sum(axis=ax), False),
    "np.sum": (np.sum, lambda A, ax: A.sum(axis=ax), False),
    "builtin-sum": (sum, lambda A, ax: A.sum(axis=ax), False),
    "np.max": (np.max, lambda A, ax: A.max(axis=ax), True),
    "np.min": (np.min, lambda A, ax: A.min(axis=ax), True),
    # (a reducer of the caller's: it converts first, so that narrow integer data does not wrap around in *its* arithmetic)
    "sumsq-dot": (lambda v: np.asarray(v, dtype=float).dot(np.asarray(v, dtype=float)), lambda A, ax: (A * A).sum(axis=ax),
                  False),
    "sumsq-np": (lambda v: np.sum(v * v), lambda A, ax: (A * A).sum(axis=ax), False),
}
DENSE_REDUCERS = ("default", "np.sum", "np.max", "np.min", "sumsq-dot")
# sparse collapse hands only the stored nonzeros of a fibre/slice to the reducer (documented design, DESIGN 3):
# only reducers that are insensitive to dropping zeros are meaningful
SPARSE_REDUCERS = ("default", "np.sum", "builtin-sum", "sumsq-np")


def _collapse_strategy(kind):
    @st.composite
    def s(draw, tier):
        h = draw(cm.holder(tier, kind))
        N = len(h["shape"])
        form = draw(st.sampled_from(["none", "int", "list", "list", "array", "array"]))
        if form == "none":
            dims = list(range(N))
        elif form == "int":
            dims = [draw(st.integers(0, N - 1))]
        else:
            k = draw(st.integers(1, N))
            dims = list(draw(st.permutations(range(N))))[:k]
        red = draw(st.sampled_from(DENSE_REDUCERS if kind == "tensor" else SPARSE_REDUCERS))
        return dict(X=h, dims=dims, dform=form, reducer=red)

    return s


def collapse_body(ctx, case):
    h, dims, red = case["X"], case["dims"], case["reducer"]
    kind = h["holder"]
    shape = h["shape"]
    N = len(shape)
    X = cm.build(h)
    A = cm.den_case(h)
    fun, reffun, always_exact = REDUCERS[red]
    ax = tuple(sorted(dims))
    expect = np.asarray(reffun(A, ax), dtype=float)
    bound = np.asarray(reffun(np.abs(A), ax), dtype=float)
    form = case["dform"]
    args = []
    if form == "int":
        args = [int(dims[0])]
    elif form == "list":
        args = [[int(d) for d in dims]]
    elif form == "array":
        args = [np.array(dims, dtype=int)]
    elif fun is not None:
        args = [None]
    if fun is not None:
        args.append(fun)
    if case.get("pres") and args and args[0] is not None:  # (round 4)
        args[0] = cm.present_dims(case, int(dims[0]) if form == "int" else [int(d) for d in dims])
        ctx.label(*cm.pres_labels(case))
    ctx.label(*cm.holder_labels(h), "reducer-" + red, "dims-" + form, f"ncollapsed{len(dims)}of{N}",
              "dims-unsorted" if dims != sorted(dims) else "dims-sorted", cm.fill_label(expect),
              f"remaining{N - len(dims)}", *cm.object_labels(X))
    ctx.nt = len(set(shape)) >= 2 and dims != list(range(len(dims))) and len(set(A.ravel().tolist())) > 2
    with ctx.sut(f"{kind}.collapse"):
        R = X.collapse(*args)
    ctx.label(cm.result_kind(R))
    allow = ("tensor", "scalar") if kind == "tensor" else ("sptensor", "ndarray", "scalar")
    got = cm.result_array(ctx, R, "collapse-result", allow=allow)
    if len(dims) == N:
        ctx.check(isinstance(R, cm.SCALAR_TYPES), "collapse-all-modes-gives-scalar", type(R).__name__)
    nterms = ref.prod(shape[d] for d in dims) + 1
    cm.compare(ctx, got, expect, bound, cm.pres_nterms(case, nterms), cm.pres_exact(case, cm.intvalued(h) or always_exact),
               "collapse-value",
               f"dims={dims} reducer={red}")


cell("C02/collapse/tensor", strategy=_collapse_strategy("tensor"), quick=600, thorough=12000, shards=(2, 8))(collapse_body)
cell("C02/collapse/sptensor", strategy=_collapse_strategy("sptensor"), quick=600, thorough=12000, shards=(2, 8))(
    collapse_body)


def _enum_collapse(tier):
    shapes = [(3,), (2, 3), (3, 2, 4), (2, 1, 3)]
    if tier == "thorough":
        shapes += [(1, 1), (4, 3, 2), (2, 3, 2, 4)]
    for sh in shapes:
        N = len(sh)
        for hk in ("tensor", "sptensor", "sptensor-thin", "sptensor-one", "sptensor-empty"):
            h0 = cm.fixed_holder(hk, sh, salt=N + 3)
            h = h0
            reds = DENSE_REDUCERS if hk == "tensor" else SPARSE_REDUCERS
            q = 0
            for k in range(1, N + 1):
                for dims in itertools.permutations(range(N), k):
                    if list(dims) != sorted(dims) and list(dims) != sorted(dims, reverse=True):
                        continue  # reducers here are symmetric: ascending and descending listings suffice
                    for red in reds:
                        q += 1
                        h = cm.fixed_state(h0, q)
                        yield dict(X=h, dims=list(dims), dform="int" if k == 1 and dims[0] % 2 else "array", reducer=red)
            for red in reds:
                yield dict(X=h, dims=list(range(N)), dform="none", reducer=red)


@cell("C02/collapse/enumerated", enum=_enum_collapse, shards=(2, 8))
def collapse_enumerated(ctx, case):
    """every mode subset (ascending and descending listing) x every reducer on fixed shapes, dense and sparse
    holders including the one-nonzero and no-nonzero ones"""
    collapse_body(ctx, case)


# --------------------------------------------------------------------------
# ttensor.reconstruct
# --------------------------------------------------------------------------


@st.composite
def _reconstruct_strategy(draw, tier):
    h = draw(cm.holder(tier, "ttensor"))
    shape = h["shape"]
    N = len(shape)
    form = draw(st.sampled_from(["full", "all-modes", "modes", "modes", "single", "scalar"]))
    if form == "full":
        return dict(X=h, form=form, modes=None, samples=None)
    if form == "all-modes":
        modes = list(range(N))
    elif form in ("single", "scalar"):
        modes = [draw(st.integers(0, N - 1))]
    else:
        k = draw(st.integers(1, N))
        modes = list(draw(st.permutations(range(N))))[:k]
    samples = []
    for m in modes:
        if form == "scalar":
            samples.append(dict(kind="int", value=draw(st.integers(0, shape[m] - 1))))
            continue
        sk = draw(st.sampled_from(["index", "index", "matrix"]))
        if sk == "index":
            # index vector: any entries of the mode, repeats and any order allowed, at least one
            idx = draw(st.lists(st.integers(0, shape[m] - 1), min_size=1, max_size=4))
            samples.append(dict(kind="index", value=idx))
        else:
            J = draw(st.integers(1, 3))
            rows = draw(st.lists(st.lists(gen.values(h["vkind"]), min_size=shape[m], max_size=shape[m]),
                                 min_size=J, max_size=J))
            samples.append(dict(kind="matrix", value=rows))
    return dict(X=h, form=form, modes=modes, samples=samples, mform=draw(st.sampled_from(["list", "array"])))


@cell("C02/reconstruct/ttensor", strategy=_reconstruct_strategy, quick=500, thorough=8000, shards=(2, 8))
def reconstruct_ttensor(ctx, case):
    h = case["X"]
    shape = h["shape"]
    X = cm.build(h)
    A, Aabs = cm.den_case(h), cm.den_case(h, absolute=True)
    form = case["form"]
    expect, bound = A, Aabs
    nmul = 1
    if form != "full":
        for m, s in zip(case["modes"], case["samples"]):
            if s["kind"] == "int":
                expect, bound = np.take(expect, [s["value"]], axis=m), np.take(bound, [s["value"]], axis=m)
            elif s["kind"] == "index":
                expect, bound = np.take(expect, s["value"], axis=m), np.take(bound, s["value"], axis=m)
            else:
                M = np.array(s["value"], dtype=float).reshape(len(s["value"]), shape[m])
                expect, bound = cm.ref_ttm(expect, {m: M}), cm.ref_ttm(bound, {m: np.abs(M)})
                nmul *= shape[m]
    ctx.label("form-" + form, *cm.holder_labels(h), f"order{len(shape)}", *cm.object_labels(X))
    if form != "full":
        ctx.label(*["sample-" + s["kind"] for s in case["samples"]],
                  "modes-unsorted" if case["modes"] != sorted(case["modes"]) else "modes-sorted")
    ctx.nt = form != "full" and len(set(shape)) >= 2 and bool(np.any(expect != 0)) and expect.shape != A.shape
    with ctx.sut("ttensor.reconstruct"):
        if form == "full":
            R = X.reconstruct()
        else:
            samples = []
            pres = case.get("pres") or {}
            idt = np.dtype(pres["dims"]) if pres.get("dims") in cm.DIM_DTYPES else np.dtype(int)
            for k, s in enumerate(case["samples"]):
                if s["kind"] == "int":
                    samples.append(cm.present_dims(case, int(s["value"])))
                elif s["kind"] == "index":
                    samples.append(np.array(s["value"], dtype=idt))  # (round 4) index vectors of any integer width
                else:
                    samples.append(cm.present_array(case, np.array(s["value"], dtype=float).reshape(len(s["value"]), -1), k))
            if form == "all-modes":
                R = X.reconstruct(samples)
            elif form == "scalar":
                R = X.reconstruct(samples[0], cm.present_dims(case, int(case["modes"][0])))
            elif form == "single":
                R = X.reconstruct(samples[0], cm.present_dims(case, int(case["modes"][0])))
            else:
                modes = np.array(case["modes"], dtype=int) if case["mform"] == "array" else [int(m) for m in case["modes"]]
                if pres:
                    modes = cm.present_dims(case, [int(m) for m in case["modes"]])
                R = X.reconstruct(samples, modes)
    got = cm.result_array(ctx, R, "reconstruct-result", allow=("tensor",))
    nterms = cm.terms(h) * nmul * (len(shape) + 1)
    ctx.label(*cm.pres_labels(case))
    cm.compare(ctx, got, expect, bound, cm.pres_nterms(case, nterms), cm.pres_exact(case, cm.intvalued(h)), "reconstruct-value",
               f"modes={case['modes']} kinds={[s['kind'] for s in (case['samples'] or [])]}")
