"""C02 cells: mttkrp (all five holders; factor list or Kruskal operand with weights) and tensor.mttkrps."""

from __future__ import annotations

import numpy as np
from hypothesis import strategies as st

import pyttb as ttb

from .. import gen, ref
from ..core import cell
from . import _c02_common as cm


@st.composite
def _operand(draw, shape, vkind, force_kind=None):
    """The U of mttkrp: dict(kind=list|ktensor, rank, weights, factors[k] = rows of the (I_k, R) matrix)."""
    kind = force_kind or draw(st.sampled_from(["list", "ktensor", "ktensor"]))
    R = draw(st.integers(1, 3))
    vkind = cm.other_vkind(draw, vkind)  # mostly the data's value kind, sometimes the other one (mixed operands)
    factors = [draw(st.lists(st.lists(gen.values(vkind), min_size=R, max_size=R), min_size=s, max_size=s))
               for s in shape]
    # matrices with a zero row (a mode index that contributes nothing)
    if draw(st.integers(0, 5)) == 0:
        k = draw(st.integers(0, len(shape) - 1))
        factors[k][draw(st.integers(0, shape[k] - 1))] = [0.0] * R
    # a plain list may hold integer matrices (a ktensor insists on float64)
    fdt = [None] * len(shape)
    ustate = None
    if kind == "list":
        fdt = [cm.operand_dtype(draw, vkind, True) for _ in shape]
    else:
        # the Kruskal operand in a derived state (after normalize(weight_factor=k) its factors are C-ordered ...)
        ustate = draw(cm.ST.kruskal_state(list(shape), R))
    if kind == "ktensor":
        wk = draw(st.sampled_from(["unit", "nonunit", "nonunit", "nonunit"]))
        if wk == "unit":
            w = [1.0] * R
        else:
            w = draw(st.lists(gen.values(vkind, nonzero=True), min_size=R, max_size=R))
            if all(x == 1.0 for x in w):
                w[0] = 2.0
    else:
        w = [1.0] * R
    return dict(kind=kind, rank=R, weights=w, factors=factors, fdtypes=fdt, vkind=vkind, state=ustate)


def build_operand(u, shape):
    """(operand handed to pyttb, (factor matrices, weights) that define the product).  MTTKRP is a function of the
    operand's *parameters* (not only of the array a Kruskal operand denotes), so for a Kruskal operand in a derived
    state they are read from the attributes of the object that was built."""
    fm = [np.array(f, dtype=float).reshape(s, u["rank"]) for f, s in zip(u["factors"], shape)]
    w = np.array(u["weights"], dtype=float)
    if u["kind"] == "ktensor":
        K = cm.ST.build_kruskal(w, fm, u.get("state"))
        return K, ([np.array(f, dtype=float) for f in K.factor_matrices], np.array(K.weights, dtype=float))
    return [cm.cast(m, d) for m, d in zip(fm, u.get("fdtypes") or [None] * len(fm))], (fm, w)


def _nocopy_operand(case, U):
    """(round 4) a Kruskal operand that holds the caller's own read-only arrays (built with copy=False): the kernel
    must apply the weights without writing into them"""
    if not isinstance(U, ttb.ktensor) or not (case.get("pres") or {}).get("U_nocopy"):
        return U
    fm = [cm._readonly_F(f) for f in U.factor_matrices]
    return ttb.ktensor(fm, cm._readonly_F(U.weights), copy=False)


def operand_exact(u):
    return u.get("vkind", "int") == "int" and cm.ST.kruskal_state_exact(u.get("state"))


def _exact(h, u):
    return cm.intvalued(h) and operand_exact(u)


def _strategy(kind):
    @st.composite
    def s(draw, tier):
        h = draw(cm.holder(tier, kind, min_order=2))
        n = draw(st.integers(0, len(h["shape"]) - 1))
        return dict(X=h, n=n, U=draw(_operand(h["shape"], h["vkind"])), n_numpy=draw(st.booleans()))

    return s


def _expect(h, params, n):
    A, Aabs = cm.den_case(h), cm.den_case(h, absolute=True)
    fm, w = params
    expect = cm.ref_mttkrp(A, fm, n, w)
    bound = cm.ref_mttkrp(Aabs, [np.abs(m) for m in fm], n, np.abs(w))
    return expect, bound


def _labels(ctx, h, u, n):
    N = len(h["shape"])
    pos = "n-first" if n == 0 else ("n-last" if n == N - 1 else "n-middle")
    wl = "U-list" if u["kind"] == "list" else ("U-ktensor-unit" if all(x == 1.0 for x in u["weights"]) else
                                                "U-ktensor-weighted")
    ctx.label(*cm.holder_labels(h), *gen.shape_classes(h["shape"]), pos, wl, f"R{u['rank']}",
              *sorted({"U-dtype-" + (d or "float64") for d in (u.get("fdtypes") or [None])}),
              "U-state-" + (u.get("state") or {}).get("how", "ctor"),
              "U-has-zero-row" if any(not any(row) for f in u["factors"] for row in f) else "U-no-zero-row",
              "values-mixed-kinds" if u.get("vkind", h["vkind"]) != h["vkind"] else "values-same-kind")


def mttkrp_body(ctx, case):
    h, u, n = case["X"], case["U"], case["n"]
    kind = h["holder"]
    shape = h["shape"]
    N = len(shape)
    X = cm.build(h)
    U, params = build_operand(u, shape)
    expect, bound = _expect(h, params, n)
    _labels(ctx, h, u, n)
    ctx.label(*cm.object_labels(X))
    ctx.nt = len(set(shape)) >= 2 and N >= 3 and u["rank"] >= 2 and bool(np.any(expect != 0))
    narg = np.int64(n) if case.get("n_numpy") else int(n)
    if case.get("pres"):  # (round 4) the same request as another caller would type it
        U, narg = cm.present_seq(case, U), cm.present_dims(case, int(n))
        U = _nocopy_operand(case, U)
        ctx.label(*cm.pres_labels(case))
    with ctx.sut(f"{kind}.mttkrp"):
        V = X.mttkrp(U, narg)
    ctx.require(isinstance(V, np.ndarray), "mttkrp-returns-ndarray", type(V).__name__)
    nterms = cm.terms(h) * ref.prod(shape) * (N + 2)
    cm.compare(ctx, V, expect, bound, cm.pres_nterms(case, nterms), cm.pres_exact(case, _exact(h, u)), "mttkrp-value",
               f"n={n} U={u['kind']}")


for _k, (_q, _t) in {"tensor": (1000, 10000), "sptensor": (800, 6000), "ktensor": (800, 8000),
                     "ttensor": (800, 8000), "sumtensor": (500, 4000)}.items():
    cell(f"C02/mttkrp/{_k}", strategy=_strategy(_k), quick=_q, thorough=_t, shards=(2, 8))(mttkrp_body)


def _enum_mttkrp(tier):
    shapes = [(2, 3), (3, 2, 4), (2, 1, 3)]
    if tier == "thorough":
        shapes += [(4, 3, 2), (2, 3, 2, 4), (3, 1, 2, 2), (1, 1, 2)]
    for sh in shapes:
        N = len(sh)
        for hk in ("tensor", "sptensor", "sptensor-thin", "sptensor-one", "sptensor-empty", "ktensor", "ttensor-dense",
                   "ttensor-sparse", "sumtensor"):
            h = cm.fixed_holder(hk, sh, salt=N + 2)
            i = 0
            for n in range(N):
                for ukind, w in (("list", [1.0, 1.0]), ("ktensor", [1.0, 1.0]), ("ktensor", [2.0, -3.0])):
                    u = dict(kind=ukind, rank=2, weights=w, factors=[cm.fixed_matrix(s, 2, k + 1) for k, s in enumerate(sh)],
                             fdtypes=[(None, "int64", "int32")[(k + n) % 3] for k in range(N)])
                    yield dict(X=cm.fixed_state(h, i), n=n, U=u)
                    i += 1


@cell("C02/mttkrp/enumerated", enum=_enum_mttkrp, shards=(4, 8))
def mttkrp_enumerated(ctx, case):
    """every n x {list, unit ktensor, weighted ktensor} x every holder class on fixed non-cubical shapes"""
    mttkrp_body(ctx, case)


# --------------------------------------------------------------------------
# tensor.mttkrps
# --------------------------------------------------------------------------


def _split_label(shape):
    """Where the implementation's left/right split falls (label only; recomputed here from its documentation)."""
    m_left, m_right, idx_min = shape[0], ref.prod(shape[1:]), 0
    for idx, s in enumerate(shape[1:], 1):
        m_right //= s
        if m_left < m_right:
            idx_min = idx
            m_left *= s
        else:
            break
    return f"split{idx_min}of{len(shape)}"


@st.composite
def _mttkrps_strategy(draw, tier):
    h = draw(cm.holder(tier, "tensor", min_order=2))
    return dict(X=h, U=draw(_operand(h["shape"], h["vkind"])))


@cell("C02/mttkrps/tensor", strategy=_mttkrps_strategy, quick=500, thorough=10000, shards=(2, 8))
def mttkrps_tensor(ctx, case):
    h, u = case["X"], case["U"]
    shape = h["shape"]
    N = len(shape)
    X = cm.build(h)
    U, params = build_operand(u, shape)
    _labels(ctx, h, u, 0)
    ctx.label(_split_label(shape), *cm.object_labels(X))
    ctx.nt = len(set(shape)) >= 2 and N >= 3 and u["rank"] >= 2
    if case.get("pres"):
        U = _nocopy_operand(case, cm.present_seq(case, U))
        ctx.label(*cm.pres_labels(case))
    with ctx.sut("tensor.mttkrps"):
        Vs = X.mttkrps(U)
    ctx.require(isinstance(Vs, (list, tuple)) and len(Vs) == N, "mttkrps-returns-one-per-mode",
                f"{type(Vs).__name__}")
    nterms = ref.prod(shape) * (N + 2)
    for n in range(N):
        expect, bound = _expect(h, params, n)
        ctx.require(isinstance(Vs[n], np.ndarray), "mttkrps-entry-ndarray", type(Vs[n]).__name__)
        cm.compare(ctx, Vs[n], expect, bound, cm.pres_nterms(case, nterms), cm.pres_exact(case, _exact(h, u)),
                   "mttkrps-value", f"n={n} U={u['kind']}")


def _enum_mttkrps(tier):
    shapes = [(2, 3), (3, 2), (3, 2, 4), (2, 1, 3), (2, 2, 5), (5, 2, 2), (2, 3, 2, 4)]
    if tier == "thorough":
        shapes += [(4, 3, 2), (3, 1, 2, 2), (1, 1, 2), (2, 2, 2, 2, 3), (6, 2, 2, 2), (2, 2, 2, 6)]
    for sh in shapes:
        h = cm.fixed_holder("tensor", sh, salt=len(sh))
        for i, (ukind, w) in enumerate((("list", [1.0, 1.0]), ("ktensor", [1.0, 1.0]), ("ktensor", [2.0, -3.0]))):
            for j in range(3):
                yield dict(X=cm.fixed_state(h, 1 + i + 3 * j),
                           U=dict(kind=ukind, rank=2, weights=w, fdtypes=[(None, "int64")[(k + j) % 2] for k in range(len(sh))],
                                  factors=[cm.fixed_matrix(s, 2, k + 1) for k, s in enumerate(sh)]))


@cell("C02/mttkrps/enumerated", enum=_enum_mttkrps)
def mttkrps_enumerated(ctx, case):
    """shapes chosen so that the left/right split of the partial-MTTKRP scheme falls at every position"""
    mttkrps_tensor(ctx, case)
