"""Helpers for C15 (symmetrisation / symmetry test): NumPy-only reference semantics and generators."""

from __future__ import annotations

import itertools

import numpy as np
from hypothesis import strategies as st

from .. import gen, ref


def full_perms(N, groups):
    """All mode orders obtained by permuting the modes inside every group independently (identity elsewhere)."""
    perms = [list(range(N))]
    for g in groups:
        new = []
        for base in perms:
            for q in itertools.permutations(g):
                p = list(base)
                for a, b in zip(g, q):
                    p[a] = base[b]
                new.append(p)
        perms = new
    return perms


def sym_mean(A, groups):
    """(sum over all within-group mode permutations of transpose(A)) / count — the definition of symmetrisation."""
    perms = full_perms(A.ndim, groups)
    S = np.zeros(A.shape)
    for p in perms:
        S = S + np.transpose(A, p)
    return S / len(perms), len(perms)


def sizes_match(shape, groups):
    return all(len({shape[m] for m in g}) <= 1 for g in groups)


def invariant(A, groups):
    """Exact test: A equals every transpose that permutes modes within one group (adjacent swaps generate them)."""
    if not sizes_match(A.shape, groups):
        return False
    for g in groups:
        for a, b in zip(g[:-1], g[1:]):
            p = list(range(A.ndim))
            p[a], p[b] = b, a
            if not np.array_equal(np.transpose(A, p), A):
                return False
    return True


def exemplar(sub, groups):
    s = list(sub)
    for g in groups:
        vals = sorted(s[m] for m in sorted(g))
        for m, v in zip(sorted(g), vals):
            s[m] = v
    return tuple(s)


def make_symmetric(A, groups):
    """Copy class-exemplar values to every member of the class: exactly symmetric, no arithmetic."""
    B = np.empty_like(A)
    for s in itertools.product(*[range(n) for n in A.shape]):
        B[s] = A[exemplar(s, groups)]
    return B


def cf_classes_differ(shape, groups):
    """True when, for some linear position i, the i-th subscript in C order and the i-th subscript in F order fall
    into different symmetry classes of some group — the class of inputs on which comparing a C-order ravel with
    F-order class indices (known findings C15-K1/K2) can go wrong."""
    shape = tuple(int(n) for n in shape)
    n = ref.prod(shape)
    if n == 0:
        return False
    subsF = ref.all_subs_F(shape)
    subsC = list(itertools.product(*[range(k) for k in shape]))
    for g in groups:
        if not sizes_match(shape, [g]):
            continue
        for f, c in zip(subsF, subsC):
            if exemplar(f, [g]) != exemplar(c, [g]):
                return True
    return False


def groupings(N):
    """Every non-empty set of pairwise disjoint groups of one common length over range(N) (groups sorted)."""
    out = []
    for g in range(1, N + 1):
        subsets = [list(c) for c in itertools.combinations(range(N), g)]
        for m in range(1, N // g + 1):
            for combo in itertools.combinations(subsets, m):
                flat = [x for c in combo for x in c]
                if len(set(flat)) == len(flat):
                    out.append([list(c) for c in combo])
    return out


def symmetric_early_not_later(A, groups):
    """boundary structure: exactly symmetric in one listed group (of >= 2 modes) but not in a later one"""
    if not sizes_match(A.shape, groups):
        return False
    inv = [invariant(A, [g]) for g in groups]
    return any(inv[i] and len(groups[i]) >= 2 and any(not inv[j] for j in range(i + 1, len(groups)))
               for i in range(len(groups)))


def is_single_full_group(N, groups):
    return len(groups) == 1 and sorted(groups[0]) == list(range(N))


# ----------------------------------------------------------------------------------------------------------------
# generator
# ----------------------------------------------------------------------------------------------------------------


@st.composite
def sym_case(draw, tier, allow_mismatch=False, min_order=1):
    """dict(shape, data (flat F order), groups, grps_form, data_class, vkind)."""
    maxsize = 3 if tier == "quick" else 4
    maxcells = 100 if tier == "quick" else 260
    N = draw(st.sampled_from([n for n in [1, 2, 2, 3, 3, 3, 4, 4, 4, 4] if n >= min_order]))
    structure = draw(st.sampled_from(["full", "proper", "proper", "several", "singletons", "pairs", "pairs"]))
    if structure == "pairs" and N < 4:
        structure = "proper"
    order = list(draw(st.permutations(range(N))))
    if structure == "full" or N == 1:
        groups = [order]
    elif structure == "pairs":
        # two groups of two modes each: the smallest case in which a later group is not trivially symmetric
        groups = [order[:2], order[2:4]]
    elif structure == "proper":
        g = draw(st.integers(2, N - 1)) if N >= 3 else 1
        groups = [order[:g]]
    elif structure == "several":
        g = draw(st.integers(1, max(1, N // 2)))
        m = draw(st.integers(2, max(2, N // g))) if N // g >= 2 else 1
        groups = [order[i * g:(i + 1) * g] for i in range(m)]
    else:
        m = draw(st.integers(1, N))
        groups = [[x] for x in order[:m]]
    # sizes: one per group, free for the rest
    shape = [0] * N
    for g in groups:
        s = draw(st.sampled_from([1, 2, 2, 3, 3, maxsize]))
        for mo in g:
            shape[mo] = s
    for k in range(N):
        if shape[k] == 0:
            shape[k] = draw(st.integers(1, maxsize))
    while ref.prod(shape) > maxcells:
        k = int(np.argmax(shape))
        s = shape[k] - 1
        for g in groups:
            if k in g:
                for mo in g:
                    shape[mo] = s
                break
        else:
            shape[k] = s
    mismatch = False
    if allow_mismatch and draw(st.integers(0, 9)) == 0:
        cand = [g for g in groups if len(g) >= 2]
        if cand:
            g = cand[0]
            shape[g[-1]] = shape[g[-1]] % maxsize + 1
            mismatch = True
    vkind = draw(st.sampled_from(["int", "float"]))
    n = ref.prod(shape)
    data = draw(st.lists(gen.values(vkind), min_size=n, max_size=n))
    A = gen.arr_F(shape, data)
    if len(groups) >= 2 and len(groups[0]) >= 2:
        dclass = draw(st.sampled_from(["random", "symmetric", "one-group-only", "one-group-only", "one-entry-off",
                                       "all-but-last-group", "all-but-last-group", "last-group-only"]))
    else:
        dclass = draw(st.sampled_from(["random", "random", "symmetric", "symmetric", "one-group-only", "one-entry-off"]))
    if mismatch:
        dclass = "random"
    if dclass in ("all-but-last-group", "last-group-only") and len(groups) < 2:
        dclass = "one-group-only"
    if dclass == "symmetric":
        A = make_symmetric(A, groups)
    elif dclass == "one-group-only":
        A = make_symmetric(A, groups[:1])
    elif dclass == "all-but-last-group":
        A = make_symmetric(A, groups[:-1])
    elif dclass == "last-group-only":
        A = make_symmetric(A, groups[-1:])
    elif dclass == "one-entry-off":
        A = make_symmetric(A, groups)
        pos = draw(st.integers(0, n - 1))
        sub = ref.all_subs_F(shape)[pos]
        A[sub] = A[sub] + (1.0 if vkind == "int" else 0.5)
    near = None
    if (not mismatch and any(len(g) >= 2 for g in groups) and draw(st.integers(0, 3)) == 0):
        # (round 3) near-special values: exactly symmetric in every group, then relative noise of size delta on every
        # entry of the classes of one, some or all groups - symmetric up to 1e-16 .. 1e-5, never exactly.  Any
        # tolerance-based shortcut ("already symmetric") goes wrong here while the exact definitions do not.
        delta = draw(st.sampled_from([2.3e-16, 1e-14, 1e-12, 1e-10, 1e-8, 1e-6, 1e-5]))
        big = [i for i, g in enumerate(groups) if len(g) >= 2]
        which = draw(st.sampled_from(["all", "one", "some"]))
        if which == "one":
            noisy = [draw(st.sampled_from(big))]
        elif which == "some":
            noisy = sorted(set(draw(st.lists(st.sampled_from(big), min_size=1, max_size=len(big)))))
        else:
            noisy = list(big)
        phase = draw(st.integers(0, 1000))
        vkind = "float"
        B = make_symmetric(np.where(A == 0, 1.5, A), groups)  # (no zeros: relative noise must change every entry)
        # noise that is itself symmetric in the groups that stay exact and generic in the noisy ones
        E = np.cos(phase + 1.7 * np.arange(n) + 0.3 * np.arange(n) ** 2).reshape(shape, order="F")
        E = make_symmetric(E, [g for i, g in enumerate(groups) if i not in noisy])
        A = B * (1.0 + delta * E)
        dclass = "near-symmetric"
        near = dict(delta=delta, which=which, noisy=noisy)
    forms = ["2d"]
    if len(groups) == 1:
        forms.append("1d")
        if groups[0] == list(range(N)):
            forms.append("none")
    out = dict(shape=shape, data=[float(x) for x in A.flatten(order="F")], groups=groups,
               grps_form=draw(st.sampled_from(forms)), data_class=dclass, vkind=vkind, structure=structure,
               size_mismatch=mismatch)
    # round 2: provenance of the operand, dtypes, spelling of the group array, data magnitude
    out["prov"] = draw(st.sampled_from(["ctor", "ctor", "grown"]))
    if vkind == "int" and draw(st.integers(0, 2)) == 0:
        out["dt"] = "int64"
    out["gdtype"] = draw(st.sampled_from(["int64", "int64", "int32", "uint8"]))
    if near:
        out["near"] = near
    if vkind == "float" and draw(st.integers(0, 2)) == 0:
        # (round 3: also whole tensors of magnitude 1e-9 .. 1e-12, below every absolute tolerance)
        sc = draw(st.sampled_from([1e6, 1e-6, 1e-9, 1e-10, 1e-12]))
        out["scale"] = sc
        out["data"] = [x * sc for x in out["data"]]
    if not mismatch and any(len(g) >= 2 for g in groups) and draw(st.integers(0, 3)) == 0:
        # the operand is itself the result of an earlier symmetrize over some of the groups
        which = draw(st.sampled_from(["first", "all-but-last", "last", "same"]))
        out["pre"] = dict(which=which, version=draw(st.sampled_from([None, None, 1])))
    return out


def pre_groups(case):
    g, which = case["groups"], case["pre"]["which"]
    sel = g[:1] if which == "first" else (g[:-1] if which == "all-but-last" else (g[-1:] if which == "last" else g))
    return [list(x) for x in sel] or [list(x) for x in g[:1]]


def grps_array(groups, form, gdtype="int64"):
    dt = {"int64": np.int64, "int32": np.int32, "uint8": np.uint8}[gdtype or "int64"]
    if form == "none":
        return None
    if form == "1d":
        return np.array(groups[0], dtype=dt)
    return np.array(groups, dtype=dt)


def grps_arg(case):
    return grps_array(case["groups"], case["grps_form"], case.get("gdtype"))


def sym_labels(case):
    N = len(case["shape"])
    g = case["groups"]
    out = [f"order{N}", "grp-" + case["structure"], "form-" + case["grps_form"], "data-" + case["data_class"], case["vkind"]]
    if is_single_full_group(N, g):
        out.append("single-full-group")
    else:
        out.append("proper-or-several")
    if cf_classes_differ(case["shape"], g):
        out.append("C/F-classes-differ")
    if any(sorted(x) != list(x) for x in g):
        out.append("group-unsorted")
    if len(set(case["shape"])) > 1:
        out.append("non-cubical")
    if case.get("gdtype") not in (None, "int64"):
        out.append("grps-dtype-" + case["gdtype"])
    if case.get("scale"):
        out.append(f"scale-{case['scale']:g}")
    if case.get("near"):
        out += [f"near-delta-{case['near']['delta']:g}", "near-in-" + case["near"]["which"]]
    return out


# ----------------------------------------------------------------------------------------------------------------
# round 4: the same request in several presentations (class 11), reporting options / environment (class 13),
# rejected group specifications (classes 12 and 14)
# ----------------------------------------------------------------------------------------------------------------

DFORMS_INT = ["f64", "int64", "int32", "uint8", "float32", "readonly", "strided", "c-order", "grown"]
DFORMS_FLOAT = ["f64", "f64", "float32", "readonly", "strided", "c-order", "grown"]


def nperms(groups):
    out = 1
    for g in groups:
        out *= int(np.prod(range(1, len(g) + 1)))
    return out


def _draw_groups(draw, N, big=True):
    structure = draw(st.sampled_from(["full", "proper", "proper", "several", "several", "pairs"]))
    order = list(draw(st.permutations(range(N))))
    if N < 4 and structure in ("several", "pairs"):
        structure = "proper"
    if N < 3 and structure == "proper":
        structure = "full"
    if structure == "full":
        groups = [order]
    elif structure == "proper":
        groups = [order[:draw(st.integers(2, N - 1))]]
    elif structure == "several":
        g = draw(st.integers(2, N // 2))
        m = draw(st.integers(2, N // g))
        groups = [order[i * g:(i + 1) * g] for i in range(m)]
    else:
        m = draw(st.integers(2, N // 2))
        groups = [order[2 * i:2 * i + 2] for i in range(m)]
    return structure, groups


def _draw_shape(draw, N, groups, maxcells, sizes=(1, 2, 2, 3, 3)):
    shape = [0] * N
    for g in groups:
        s = draw(st.sampled_from(list(sizes)))
        for mo in g:
            shape[mo] = s
    for k in range(N):
        if shape[k] == 0:
            shape[k] = draw(st.integers(1, 3))
    while ref.prod(shape) > maxcells:
        k = int(np.argmax(shape))
        s = shape[k] - 1
        for g in groups:
            if k in g:
                for mo in g:
                    shape[mo] = s
                break
        else:
            shape[k] = s
    return shape


@st.composite
def pres_case(draw, tier):
    """Orders 2..6 with one or several groups; data random / symmetric / symmetric in a sub-group only (the first two
    listed modes of a group, the last two, its first and last) / in some groups only; the data held in one of the forms
    a caller may hand over (DFORMS_*)."""
    maxcells = 200 if tier == "quick" else 400
    N = draw(st.sampled_from([2, 3, 3, 4, 4, 5, 5, 5, 6, 6, 6]))
    structure, groups = _draw_groups(draw, N)
    shape = _draw_shape(draw, N, groups, maxcells)
    vkind = draw(st.sampled_from(["int", "float"]))
    n = ref.prod(shape)
    data = draw(st.lists(gen.values(vkind), min_size=n, max_size=n))
    A = gen.arr_F(shape, data)
    dclass = draw(st.sampled_from(["random", "symmetric", "sub-first2", "sub-first2", "sub-last2", "sub-last2",
                                   "sub-nonadjacent", "sub-nonadjacent", "one-group-only", "all-but-last-group",
                                   "one-entry-off"]))
    sub = None
    if dclass.startswith("sub-"):
        cand = [i for i, g in enumerate(groups) if len(g) >= 3] or [i for i, g in enumerate(groups) if len(g) >= 2]
        gi = draw(st.sampled_from(cand))
        g = groups[gi]
        pair = [g[0], g[1]] if dclass == "sub-first2" else ([g[-2], g[-1]] if dclass == "sub-last2" else [g[0], g[-1]])
        others = [x for i, x in enumerate(groups) if i != gi] if draw(st.booleans()) else []
        A = make_symmetric(A, [pair] + others)
        sub = dict(group=gi, pair=pair, others_symmetric=bool(others))
    elif dclass == "symmetric":
        A = make_symmetric(A, groups)
    elif dclass == "one-group-only":
        A = make_symmetric(A, [groups[draw(st.integers(0, len(groups) - 1))]])
    elif dclass == "all-but-last-group":
        A = make_symmetric(A, groups[:-1])
    elif dclass == "one-entry-off":
        A = make_symmetric(A, groups)
        s0 = ref.all_subs_F(shape)[draw(st.integers(0, n - 1))]
        A[s0] = A[s0] + (1.0 if vkind == "int" else 0.5)
    dform = draw(st.sampled_from(DFORMS_INT if vkind == "int" else DFORMS_FLOAT))
    if dform == "uint8":
        A = np.abs(A)
    if dform == "float32":
        A = A.astype(np.float32).astype(float)
    return dict(shape=shape, data=[float(x) for x in A.flatten(order="F")], groups=groups, data_class=dclass, vkind=vkind,
                structure=structure, dform=dform, sub=sub, size_mismatch=False,
                psel=draw(st.lists(st.integers(0, 40), min_size=4, max_size=4)),
                gperm=draw(st.permutations(range(len(groups)))), mperm=draw(st.permutations(range(len(groups[0])))))


def build_form(case):
    """(tensor, array it denotes) with the data handed over in the form case['dform']."""
    import pyttb as ttb
    A = gen.arr_F(case["shape"], case["data"])
    shape, f = tuple(case["shape"]), case.get("dform", "f64")
    if f in ("int64", "int32", "uint8", "float32"):
        X = ttb.tensor(A.astype({"int64": np.int64, "int32": np.int32, "uint8": np.uint8, "float32": np.float32}[f])
                       .copy(order="F"), shape)
    elif f == "readonly":
        B = A.copy(order="F")
        B.flags.writeable = False
        X = ttb.tensor(B, shape, copy=False)
    elif f == "strided":
        big = np.zeros((2 * shape[0],) + shape[1:], order="F")
        big[::2] = A
        big[1::2] = -7.0
        X = ttb.tensor(big[::2], shape, copy=False)
    elif f == "c-order":
        X = ttb.tensor(np.ascontiguousarray(A), shape)
    elif f == "grown":
        X = gen.build_tensor(dict(case, prov="grown"))
    else:
        X = ttb.tensor(A.copy(order="F"), shape)
    return X, A


def grps_presentations(case):
    """[(name, argument, same_order)]: the group specification of the case in the forms a caller may use.  same_order:
    the argument lists the same groups in the same order with the same order of modes in each (the computation is then
    the same one and the answer must be the same bit for bit); otherwise the same request up to the order in which
    groups / modes are listed (same set of permutations: same boolean, same average up to rounding)."""
    G = [list(g) for g in case["groups"]]
    m, g = len(G), len(G[0])
    base = np.array(G, dtype=np.int64)
    out = []

    def add(name, arr):
        out.append((name, arr, arr is not None and np.array_equal(np.atleast_2d(np.asarray(arr)), base)))

    if m == 1:
        add("1d", np.array(G[0], dtype=np.int64))
        add("1d-int32", np.array(G[0], dtype=np.int32))
        add("1d-uint8-arange-like", np.array(G[0], dtype=np.uint8))
        wide = np.zeros(2 * g, dtype=np.int64)
        wide[::2] = G[0]
        add("1d-strided", wide[::2])
        add("1d-negative-stride", np.array(G[0][::-1], dtype=np.int64)[::-1])
        if sorted(G[0]) == list(range(len(case["shape"]))):
            out.append(("none", None, G[0] == sorted(G[0])))
    for dt in (np.int32, np.uint8, np.uint16, np.uint64, np.int8, np.int16, np.uint32, np.intp):
        add("2d-" + np.dtype(dt).name, base.astype(dt))
    add("2d-f-order", np.asfortranarray(base))
    ro = base.copy()
    ro.flags.writeable = False
    add("2d-readonly", ro)
    big = np.full((m, 2 * g), 99, dtype=np.int64)
    big[:, ::2] = base
    add("2d-strided-columns", big[:, ::2])
    big = np.full((2 * m, g), 99, dtype=np.int32)
    big[::2] = base
    add("2d-strided-rows-int32", big[::2])
    add("2d-negative-strides", base[::-1, ::-1].copy()[::-1, ::-1])
    if m > 1:
        add("groups-reversed", base[::-1].copy())
        add("groups-permuted", base[list(case["gperm"])].copy())
    if g > 1:
        add("modes-reversed", base[:, ::-1].copy())
        add("modes-ascending", np.sort(base, axis=1))
        add("modes-descending", -np.sort(-base, axis=1))
        add("modes-permuted", base[:, list(case["mperm"])].copy())
        add("modes-rotated-uint8", np.roll(base, 1, axis=1).astype(np.uint8))
    return out


OLD_VERSION_FORMS = [("kw", 1), ("pos", 1), ("pos", "np.int64(1)"), ("kw", "np.int32(2)"), ("kw", 0), ("pos", "np.int64(0)"),
                     ("kw", True), ("pos", "old"), ("kw", "np.uint8(1)"), ("kw", 1.0)]


def version_value(v):
    return {"np.int64(1)": np.int64(1), "np.int32(2)": np.int32(2), "np.int64(0)": np.int64(0),
            "np.uint8(1)": np.uint8(1)}.get(v, v) if isinstance(v, str) else v


def pres_labels(case):
    N, g = len(case["shape"]), case["groups"]
    out = [f"order{N}", "grp-" + case["structure"], "data-" + case["data_class"], case["vkind"], "dform-" + case["dform"],
           f"groups-{len(g)}x{len(g[0])}"]
    if any(sorted(x) != list(x) for x in g):
        out.append("group-unsorted")
    if any(list(x) == sorted(x, reverse=True) and len(x) >= 2 for x in g):
        out.append("group-descending")
    if len(set(case["shape"])) > 1:
        out.append("non-cubical")
    if case.get("sub"):
        out.append("sub-pair-others-symmetric" if case["sub"]["others_symmetric"] else "sub-pair-others-generic")
        pr = case["sub"]["pair"]
        if abs(pr[0] - pr[1]) > 1:
            out.append("sub-pair-modes-not-adjacent")
    return out


class debug_logging:
    """root logger at DEBUG with a NullHandler and logging enabled (core.evaluate disables it), restored on exit"""

    def __enter__(self):
        import logging
        self.root = logging.getLogger()
        self.level, self.disabled = self.root.level, self.root.manager.disable
        self.handlers = list(self.root.handlers)     # (logging.warning() installs a stderr handler on first use)
        self.root.handlers = [logging.NullHandler()]
        self.root.setLevel(logging.DEBUG)
        logging.disable(logging.NOTSET)
        return self

    def __exit__(self, *a):
        import logging
        self.root.handlers = self.handlers
        self.root.setLevel(self.level)
        logging.disable(self.disabled)
        return False


# ---- rejected group specifications

BAD_KINDS = ["mismatch", "mismatch", "overlap", "overlap", "out-of-range", "list-of-lists", "tuple", "empty-group",
             "duplicate-in-group", "float-array"]


@st.composite
def bad_case(draw, tier):
    """A valid request (shape, groups) made ill-formed in one way, every other extent compatible (often 1)."""
    kind = draw(st.sampled_from(BAD_KINDS))
    N = draw(st.sampled_from([2, 3, 3, 4, 4, 4, 5, 6]))
    structure, groups = _draw_groups(draw, N)
    if kind == "overlap" and draw(st.booleans()):
        # three or more groups, so that the groups sharing a mode need not be neighbours in the listing
        N = 6
        order = list(draw(st.permutations(range(N))))
        structure, groups = "pairs", [order[0:2], order[2:4], order[4:6]]
    if kind == "mismatch" and draw(st.booleans()) and N >= 3:
        # a group of three or more modes, so that the odd size need not be among the first two listed
        order = list(draw(st.permutations(range(N))))
        structure, groups = "proper" if N > 3 else "full", [order[:draw(st.integers(3, max(3, N - 1)))]]
    groups = [list(g) for g in groups]
    s = draw(st.sampled_from([1, 1, 2, 2, 3]))
    same = draw(st.booleans()) or kind in ("overlap", "out-of-range")
    if same:
        shape = [s] * N          # every extent the same (1 often): nothing but the ill-formed part distinguishes the modes
    else:
        shape = _draw_shape(draw, N, groups, 120)
    bad = [list(g) for g in groups]
    note = None
    if kind == "mismatch":
        gi = draw(st.sampled_from([i for i, g in enumerate(groups) if len(g) >= 2] + [len(groups) - 1]))
        pos = draw(st.integers(0, len(groups[gi]) - 1))
        mo = groups[gi][pos]
        old = shape[mo]
        new = draw(st.sampled_from([x for x in (1, 2, 3, 4) if x != old]))
        shape[mo] = new
        while ref.prod(shape) > 240:
            k = int(np.argmax(shape))
            shape[k] -= 1
        if len({shape[x] for x in groups[gi]}) == 1:      # (shrinking undid it)
            shape = [1] * N
            shape[mo] = 2
        note = dict(group=gi, pos=pos)
    elif kind == "overlap":
        if len(groups) < 2:
            # a second group of the same length that shares a mode with the first
            g0 = groups[0]
            rest = [x for x in range(N) if x not in g0]
            keep = draw(st.integers(1, len(g0)))
            second = list(draw(st.permutations(g0)))[:keep] + rest
            second = second[:len(g0)]
            if len(second) < len(g0) or len(set(second)) < len(second):
                second = list(reversed(g0))
            bad = [list(g0), second]
        else:
            i, j = sorted(draw(st.permutations(range(len(groups))))[:2])
            if len(groups) >= 3 and draw(st.booleans()):
                i, j = 0, len(groups) - 1
            src, dst = (i, j) if draw(st.booleans()) else (j, i)
            bad[dst][draw(st.integers(0, len(bad[dst]) - 1))] = groups[src][draw(st.integers(0, len(groups[src]) - 1))]
            note = dict(pair=[i, j])
    elif kind == "out-of-range":
        gi = draw(st.integers(0, len(groups) - 1))
        bad[gi][draw(st.integers(0, len(bad[gi]) - 1))] = N + draw(st.sampled_from([0, 0, 1, 7]))
    elif kind == "empty-group":
        bad = [[]]
    elif kind == "duplicate-in-group":
        gi = draw(st.integers(0, len(groups) - 1))
        bad[gi] = [bad[gi][0]] * len(bad[gi])
    n = ref.prod(shape)
    vkind = draw(st.sampled_from(["int", "float"]))
    data = draw(st.lists(gen.values(vkind), min_size=n, max_size=n))
    if draw(st.integers(0, 3)) == 0:
        data = [data[0] if data[0] else 2.0] * n      # constant data: every reshuffling of the entries looks the same
    return dict(shape=shape, data=data, groups=groups, bad=bad, kind=kind, vkind=vkind, structure=structure, note=note,
                dform=draw(st.sampled_from(["f64", "f64", "grown", "readonly", "int64" if vkind == "int" else "c-order"])),
                gdtype=draw(st.sampled_from(["int64", "int64", "int32", "uint8"])),
                form=draw(st.sampled_from(["2d", "2d", "1d"])), data_class="random", size_mismatch=False)
