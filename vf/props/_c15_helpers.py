"""Helpers for C15 (symmetrisation / symmetry test): NumPy-only reference semantics and generators."""

from __future__ import annotations

import itertools

import numpy as np
from hypothesis import strategies as st

from .. import gen, ref


def full_perms(N, groups):
    """All mode orders obtained by permuting the modes inside every group independently (identity elsewhere)."""
    perms = [list(range(N))]
    for g in groups:
        new = []
        for base in perms:
            for q in itertools.permutations(g):
                p = list(base)
                for a, b in zip(g, q):
                    p[a] = base[b]
                new.append(p)
        perms = new
    return perms


def sym_mean(A, groups):
    """(sum over all within-group mode permutations of transpose(A)) / count — the definition of symmetrisation."""
    perms = full_perms(A.ndim, groups)
    S = np.zeros(A.shape)
    for p in perms:
        S = S + np.transpose(A, p)
    return S / len(perms), len(perms)


def sizes_match(shape, groups):
    return all(len({shape[m] for m in g}) <= 1 for g in groups)


def invariant(A, groups):
    """Exact test: A equals every transpose that permutes modes within one group (adjacent swaps generate them)."""
    if not sizes_match(A.shape, groups):
        return False
    for g in groups:
        for a, b in zip(g[:-1], g[1:]):
            p = list(range(A.ndim))
            p[a], p[b] = b, a
            if not np.array_equal(np.transpose(A, p), A):
                return False
    return True


def exemplar(sub, groups):
    s = list(sub)
    for g in groups:
        vals = sorted(s[m] for m in sorted(g))
        for m, v in zip(sorted(g), vals):
            s[m] = v
    return tuple(s)


def make_symmetric(A, groups):
    """Copy class-exemplar values to every member of the class: exactly symmetric, no arithmetic."""
    B = np.empty_like(A)
    for s in itertools.product(*[range(n) for n in A.shape]):
        B[s] = A[exemplar(s, groups)]
    return B


def cf_classes_differ(shape, groups):
    """True when, for some linear position i, the i-th subscript in C order and the i-th subscript in F order fall
    into different symmetry classes of some group — the class of inputs on which comparing a C-order ravel with
    F-order class indices (known findings C15-K1/K2) can go wrong."""
    shape = tuple(int(n) for n in shape)
    n = ref.prod(shape)
    if n == 0:
        return False
    subsF = ref.all_subs_F(shape)
    subsC = list(itertools.product(*[range(k) for k in shape]))
    for g in groups:
        if not sizes_match(shape, [g]):
            continue
        for f, c in zip(subsF, subsC):
            if exemplar(f, [g]) != exemplar(c, [g]):
                return True
    return False


def groupings(N):
    """Every non-empty set of pairwise disjoint groups of one common length over range(N) (groups sorted)."""
    out = []
    for g in range(1, N + 1):
        subsets = [list(c) for c in itertools.combinations(range(N), g)]
        for m in range(1, N // g + 1):
            for combo in itertools.combinations(subsets, m):
                flat = [x for c in combo for x in c]
                if len(set(flat)) == len(flat):
                    out.append([list(c) for c in combo])
    return out


def symmetric_early_not_later(A, groups):
    """boundary structure: exactly symmetric in one listed group (of >= 2 modes) but not in a later one"""
    if not sizes_match(A.shape, groups):
        return False
    inv = [invariant(A, [g]) for g in groups]
    return any(inv[i] and len(groups[i]) >= 2 and any(not inv[j] for j in range(i + 1, len(groups)))
               for i in range(len(groups)))


def is_single_full_group(N, groups):
    return len(groups) == 1 and sorted(groups[0]) == list(range(N))


# ----------------------------------------------------------------------------------------------------------------
# generator
# ----------------------------------------------------------------------------------------------------------------


@st.composite
def sym_case(draw, tier, allow_mismatch=False, min_order=1):
    """dict(shape, data (flat F order), groups, grps_form, data_class, vkind)."""
    maxsize = 3 if tier == "quick" else 4
    maxcells = 100 if tier == "quick" else 260
    N = draw(st.sampled_from([n for n in [1, 2, 2, 3, 3, 3, 4, 4, 4, 4] if n >= min_order]))
    structure = draw(st.sampled_from(["full", "proper", "proper", "several", "singletons", "pairs", "pairs"]))
    if structure == "pairs" and N < 4:
        structure = "proper"
    order = list(draw(st.permutations(range(N))))
    if structure == "full" or N == 1:
        groups = [order]
    elif structure == "pairs":
        # two groups of two modes each: the smallest case in which a later group is not trivially symmetric
        groups = [order[:2], order[2:4]]
    elif structure == "proper":
        g = draw(st.integers(2, N - 1)) if N >= 3 else 1
        groups = [order[:g]]
    elif structure == "several":
        g = draw(st.integers(1, max(1, N // 2)))
        m = draw(st.integers(2, max(2, N // g))) if N // g >= 2 else 1
        groups = [order[i * g:(i + 1) * g] for i in range(m)]
    else:
        m = draw(st.integers(1, N))
        groups = [[x] for x in order[:m]]
    # sizes: one per group, free for the rest
    shape = [0] * N
    for g in groups:
        s = draw(st.sampled_from([1, 2, 2, 3, 3, maxsize]))
        for mo in g:
            shape[mo] = s
    for k in range(N):
        if shape[k] == 0:
            shape[k] = draw(st.integers(1, maxsize))
    while ref.prod(shape) > maxcells:
        k = int(np.argmax(shape))
        s = shape[k] - 1
        for g in groups:
            if k in g:
                for mo in g:
                    shape[mo] = s
                break
        else:
            shape[k] = s
    mismatch = False
    if allow_mismatch and draw(st.integers(0, 9)) == 0:
        cand = [g for g in groups if len(g) >= 2]
        if cand:
            g = cand[0]
            shape[g[-1]] = shape[g[-1]] % maxsize + 1
            mismatch = True
    vkind = draw(st.sampled_from(["int", "float"]))
    n = ref.prod(shape)
    data = draw(st.lists(gen.values(vkind), min_size=n, max_size=n))
    A = gen.arr_F(shape, data)
    if len(groups) >= 2 and len(groups[0]) >= 2:
        dclass = draw(st.sampled_from(["random", "symmetric", "one-group-only", "one-group-only", "one-entry-off",
                                       "all-but-last-group", "all-but-last-group", "last-group-only"]))
    else:
        dclass = draw(st.sampled_from(["random", "random", "symmetric", "symmetric", "one-group-only", "one-entry-off"]))
    if mismatch:
        dclass = "random"
    if dclass in ("all-but-last-group", "last-group-only") and len(groups) < 2:
        dclass = "one-group-only"
    if dclass == "symmetric":
        A = make_symmetric(A, groups)
    elif dclass == "one-group-only":
        A = make_symmetric(A, groups[:1])
    elif dclass == "all-but-last-group":
        A = make_symmetric(A, groups[:-1])
    elif dclass == "last-group-only":
        A = make_symmetric(A, groups[-1:])
    elif dclass == "one-entry-off":
        A = make_symmetric(A, groups)
        pos = draw(st.integers(0, n - 1))
        sub = ref.all_subs_F(shape)[pos]
        A[sub] = A[sub] + (1.0 if vkind == "int" else 0.5)
    near = None
    if (not mismatch and any(len(g) >= 2 for g in groups) and draw(st.integers(0, 3)) == 0):
        # (round 3) near-special values: exactly symmetric in every group, then relative noise of size delta on every
        # entry of the classes of one, some or all groups - symmetric up to 1e-16 .. 1e-5, never exactly.  Any
        # tolerance-based shortcut ("already symmetric") goes wrong here while the exact definitions do not.
        delta = draw(st.sampled_from([2.3e-16, 1e-14, 1e-12, 1e-10, 1e-8, 1e-6, 1e-5]))
        big = [i for i, g in enumerate(groups) if len(g) >= 2]
        which = draw(st.sampled_from(["all", "one", "some"]))
        if which == "one":
            noisy = [draw(st.sampled_from(big))]
        elif which == "some":
            noisy = sorted(set(draw(st.lists(st.sampled_from(big), min_size=1, max_size=len(big)))))
        else:
            noisy = list(big)
        phase = draw(st.integers(0, 1000))
        vkind = "float"
        B = make_symmetric(np.where(A == 0, 1.5, A), groups)  # (no zeros: relative noise must change every entry)
        # noise that is itself symmetric in the groups that stay exact and generic in the noisy ones
        E = np.cos(phase + 1.7 * np.arange(n) + 0.3 * np.arange(n) ** 2).reshape(shape, order="F")
        E = make_symmetric(E, [g for i, g in enumerate(groups) if i not in noisy])
        A = B * (1.0 + delta * E)
        dclass = "near-symmetric"
        near = dict(delta=delta, which=which, noisy=noisy)
    forms = ["2d"]
    if len(groups) == 1:
        forms.append("1d")
        if groups[0] == list(range(N)):
            forms.append("none")
    out = dict(shape=shape, data=[float(x) for x in A.flatten(order="F")], groups=groups,
               grps_form=draw(st.sampled_from(forms)), data_class=dclass, vkind=vkind, structure=structure,
               size_mismatch=mismatch)
    # round 2: provenance of the operand, dtypes, spelling of the group array, data magnitude
    out["prov"] = draw(st.sampled_from(["ctor", "ctor", "grown"]))
    if vkind == "int" and draw(st.integers(0, 2)) == 0:
        out["dt"] = "int64"
    out["gdtype"] = draw(st.sampled_from(["int64", "int64", "int32", "uint8"]))
    if near:
        out["near"] = near
    if vkind == "float" and draw(st.integers(0, 2)) == 0:
        # (round 3: also whole tensors of magnitude 1e-9 .. 1e-12, below every absolute tolerance)
        sc = draw(st.sampled_from([1e6, 1e-6, 1e-9, 1e-10, 1e-12]))
        out["scale"] = sc
        out["data"] = [x * sc for x in out["data"]]
    if not mismatch and any(len(g) >= 2 for g in groups) and draw(st.integers(0, 3)) == 0:
        # the operand is itself the result of an earlier symmetrize over some of the groups
        which = draw(st.sampled_from(["first", "all-but-last", "last", "same"]))
        out["pre"] = dict(which=which, version=draw(st.sampled_from([None, None, 1])))
    return out


def pre_groups(case):
    g, which = case["groups"], case["pre"]["which"]
    sel = g[:1] if which == "first" else (g[:-1] if which == "all-but-last" else (g[-1:] if which == "last" else g))
    return [list(x) for x in sel] or [list(x) for x in g[:1]]


def grps_array(groups, form, gdtype="int64"):
    dt = {"int64": np.int64, "int32": np.int32, "uint8": np.uint8}[gdtype or "int64"]
    if form == "none":
        return None
    if form == "1d":
        return np.array(groups[0], dtype=dt)
    return np.array(groups, dtype=dt)


def grps_arg(case):
    return grps_array(case["groups"], case["grps_form"], case.get("gdtype"))


def sym_labels(case):
    N = len(case["shape"])
    g = case["groups"]
    out = [f"order{N}", "grp-" + case["structure"], "form-" + case["grps_form"], "data-" + case["data_class"], case["vkind"]]
    if is_single_full_group(N, g):
        out.append("single-full-group")
    else:
        out.append("proper-or-several")
    if cf_classes_differ(case["shape"], g):
        out.append("C/F-classes-differ")
    if any(sorted(x) != list(x) for x in g):
        out.append("group-unsorted")
    if len(set(case["shape"])) > 1:
        out.append("non-cubical")
    if case.get("gdtype") not in (None, "int64"):
        out.append("grps-dtype-" + case["gdtype"])
    if case.get("scale"):
        out.append(f"scale-{case['scale']:g}")
    if case.get("near"):
        out += [f"near-delta-{case['near']['delta']:g}", "near-in-" + case["near"]["which"]]
    return out
