"""C06 — sparse results are well-formed and independent of the stored order of nonzeros.

One engine (``_run``), many operations (``OPS``).  A case holds every sparse operand as a *canonical* entry list
(distinct subscripts in row-lexicographic order, nonzero values) plus the JSON parameters of one public operation.
The engine builds each operand with the plain constructor in every stored order (all n! orders for n <= 4 nonzeros,
identity + 6 generated orders beyond; for two sparse operands the full product when it has <= 48 members, otherwise
each operand varied on its own plus 6 generated joint orders), calls the operation, and checks

(a) every sparse object handed back is well-formed (``ref.sptensor_problems`` / ``sptenmat_problems``), and holds no
    explicit zero when the operation combines or filters entries;
(b) the outcome (class, shape, denoted array / matrix / scalar) is the same for every stored order — including whether
    the call raises.

What the values *should be* is not judged here (C02/C03/C07 do that).
"""

from __future__ import annotations

import itertools
import logging
import operator

import numpy as np
from hypothesis import strategies as st

import pyttb as ttb

from .. import gen, ref
from ..core import _sut_frame, cell
from ._spwf import sptenmat_problems

logging.getLogger().setLevel(logging.ERROR)

PROPERTY = "C06"
RULE = (
    "case = (shape with <=24 cells quick / <=60 thorough, sparse operand(s) as canonical entry lists with 0..8 "
    "nonzeros [two operands: generated overlap, equal / negated / unrelated values on the overlap], one public sparse "
    "operation and its generated parameters; round 2: also the assignments S[..]=.. (family write), allsubs, deepcopy, "
    "subdims, export_data/import_data, spmatrix->sptenmat.from_array, +sptenmat, tensor <cmp> sptensor, "
    "tensor.logical_*(sptensor), stepped / empty / reversed slices in region reads).  Every case is executed for all n! stored orders of each operand with "
    "n<=4 nonzeros (6 generated orders + identity beyond; two operands: full product if <=48 else one-at-a-time + 6 "
    "joint).  Oracle: every returned sptensor/sptenmat well-formed, no explicit zero after combining/filtering "
    "operations, and identical outcome (class, shape, denoted values, or exception) for every order; exact for data "
    "movement and integer data, 64*cells*eps*scale for float accumulations.  Non-trivial: some operand has >=2 "
    "nonzeros (so a non-identity order was run) and the operation returned a value.  "
    "Round 3: (dynamic range) float data also scaled by 1e-12, 1e-160, 1e-200, 1e+200 (second operand / numeric "
    "parameters scaled the same way, inversely or not): products and quotients of two stored values underflow to "
    "exactly zero (all / some of them) or overflow; integer data also held in int8 / uint8 with values +-4..128 whose "
    "products and sums wrap around, also to exactly zero, the dense operand then in the same dtype.  (sizes) cells "
    "large-linear (1e4..5e4 stored nonzeros on ~6e4 cells, 58 operations that are linear in nnz) and large-pairs "
    "(800..2400 stored nonzeros on ~1800 cells: every operation that matches two subscript lists or the list of all "
    "subscripts), a few per run, three stored orders each; cell huge: modes longer than 2**40 / 2**53 / 2**60, more "
    "than 2**63 cells, sparse results compared as sets of entries.  (several live objects) for the first stored order "
    "the operands and the returned object are edited in place in turn; every other one must stay what it was.  "
    "Round 4: (presentation) one operand in three is also given with its subscripts in int32 / int16 / uint8 / uint16 / "
    "uint64, taken from a scipy COO matrix (2-way), as a Fortran-ordered / strided / read-only array, with the shape as "
    "list / array / int32 / uint64 scalars; one case in four gives subscript arrays, mode lists and mode numbers in "
    "another integer dtype, or (mode lists documented as OneDArray) as list / tuple / bare int; float data also held "
    "in float32 (values a float32 holds exactly; accumulations judged with the float32 eps).  The first run of a case "
    "uses the library's favourite forms, the later runs the other presentation: the existing order-independence "
    "comparison then also demands presentation-independence.  (environment) one case in six executes its odd runs with "
    "the root logger at DEBUG (logging.disable lifted, NullHandler).  (rejected requests) cell rejected: write histories "
    "of 2..5 assignments with 1..2 rejected requests inside (12 kinds, see the section comment), judged after every "
    "rejected step (well-formed, same array, same shape, same stored entries) and at the end against the same history "
    "without the rejected steps, bit for bit; ill-formed calls of the other operations (one ill-formed argument, "
    "broadcast-compatible where possible) and rejected sptenmat assignments: operands unchanged after the exception; "
    "every operation of every cell: if it raises, its sparse operands are afterwards what they were."
)
ASSUMPTIONS = [
    "operands are well-formed sptensors (distinct in-range integer subscripts, nonzero values) built with the plain "
    "constructor from permuted (subs, vals); from_aggregator / sptenmat() inputs may repeat subscripts",
    "an operation that raises the same exception class for every stored order is not a C06 violation (counted in the "
    "labels as raises-<Type>); raising for some orders only is",
    "find() and mask() hand back values in the stored order of their operand by design: compared as subscript->value "
    "maps",
    "explicit zeros are asserted absent for tensor-tensor arithmetic / logic / comparison, ttv, ttm, contract, "
    "collapse, region reads, scalar comparisons, from_aggregator, sptenmat(); exempt: scale, scalar * and /, elemfun",
    "float accumulations (ttv, ttm, contract, collapse, innerprod, mttkrp, norm, from_aggregator) may differ between "
    "orders by 64*cells*eps*prod(max(1,max|operand|)); everything else is compared exactly (NaN == NaN)",
    "nvecs (ARPACK start vector is random), from_function / sptenrand (random subscripts), __repr__ (prints the stored "
    "order by design) and the iterative algorithms (cp_als, cp_apr, gcp_opt, tucker_als, hosvd: tolerance-driven "
    "iterations, judged by C12-C20) are not run",
    "writes (family write): S[M]=V by subscript array (overwrite / clear / insert / grow in one call, vector or scalar "
    "right-hand side, duplicate rows 1 in 8), S[ranges]=scalar (index / slice / open / empty / stepped slice / list "
    "per mode, growth), S[ranges]=sptensor (both operands in every order), S[i,..]=v, sequences of 2..3 assignments, "
    "sptenmat[r,c]=v: the outcome is the tensor the assignment leaves behind; what the assignment *should* store is C04",
    "subdims returns storage positions: compared as the (subscript, value) entries they select",
    "operands: integer-valued data is held in int64 one time in three (independently per operand); float data is "
    "scaled by 1e-6 / 1e+6 one time in two; the accumulation tolerance is relative (64*cells*eps*prod(max|operand|), "
    "an all-zero or non-float parameter counts as 1)",
    "operands holding explicitly stored zeros are not generated here (C03/*/state and C01 judge what they denote); "
    "explicit zeros in *results* of combining / filtering operations are what this property forbids",
    "all inputs are finite; with operands of magnitude 1e+200 sums of products overflow and whether a partial sum "
    "overflows depends on the order of summation, so entries that are infinite / NaN for either order are not compared "
    "for accumulating operations; where float sums are compared with a tolerance a result handed back sparse for one "
    "order and dense for another (density switch on a value that is zero within the tolerance) is the same outcome",
    "round 4: only requests the unchanged library rejects count as rejected requests; a generated ill-formed request "
    "that is accepted ends the case unjudged (labels not-rejected-*): whether it must be rejected is C04 / C19",
    "round 4: values are always handed over as a column: a flat vector is rejected by the constructors, from_aggregator "
    "and S[M] = V, and accepted by sptenmat[r, c] = v only when nothing is inserted into a non-empty receiver",
    "large cases: parameters are drawn for a small proxy operand that is part of the large one; the dense operand of "
    "large cases comes from a seed; huge cases: integer values only (exact comparison)",
]

EPS = np.finfo(float).eps


# --------------------------------------------------------------------------
# operands
# --------------------------------------------------------------------------


def lex_cells(shape):
    return [list(s) for s in itertools.product(*[range(n) for n in shape])]


SUBS_DTYPES = ["int32", "int32", "int32", "int16", "uint8", "uint16", "uint64", "int64"]


@st.composite
def presentation(draw, order):
    """round 4: how a caller hands over the same operand - subscripts in another integer dtype (scipy COO matrices
    carry int32 coordinates), taken from a scipy COO matrix (2-way), as a Fortran-ordered / strided / read-only
    array, the shape as a list / an array / numpy integers of another width"""
    return dict(subs_dtype=draw(st.sampled_from(SUBS_DTYPES)),
                via=draw(st.sampled_from(["ctor", "ctor", "coo"])) if order == 2 else "ctor",
                layout=draw(st.sampled_from(["C", "F", "strided", "readonly"])),
                shape_form=draw(st.sampled_from(["tuple", "list", "array", "int32", "uint64"])))


def _shape_in_form(shape, form):
    shape = [int(v) for v in shape]
    if form == "list":
        return list(shape)
    if form == "array":
        return np.array(shape)
    if form in ("int32", "uint64"):
        return tuple(np.dtype(form).type(v) for v in shape)
    return tuple(shape)


def build_sp(shape, ent, perm=None, alt=False):
    n = len(ent["subs"])
    pres = ent.get("pres") if alt else None
    if pres is not None:
        shape_arg = _shape_in_form(shape, pres["shape_form"])
    elif ent.get("npshape"):  # the shape as numpy integers (what a grown tensor reports and hands on)
        shape_arg = tuple(np.int64(v) for v in shape)
    else:
        shape_arg = tuple(shape)
    if n == 0:
        return ttb.sptensor(shape=shape_arg)
    idx = range(n) if perm is None else perm
    subs = np.array([ent["subs"][i] for i in idx], dtype=int).reshape(n, len(shape))
    vals = np.array([ent["vals"][i] for i in idx], dtype=float).reshape(n, 1)
    if ent.get("dtype", "float64") != "float64":  # integer-valued data held in an integer dtype / float32 data
        vals = vals.astype(ent["dtype"])
    if pres is not None:
        if pres["via"] == "coo" and len(shape) == 2:
            import scipy.sparse

            M = scipy.sparse.coo_matrix((vals[:, 0], (subs[:, 0], subs[:, 1])), shape=tuple(int(v) for v in shape))
            subs, vals = np.column_stack((M.row, M.col)), M.data.reshape(-1, 1)
            if pres["shape_form"] == "tuple":
                shape_arg = M.shape
        else:
            subs = subs.astype(pres["subs_dtype"])
        if pres["layout"] == "F":
            subs = np.asfortranarray(subs)
        elif pres["layout"] == "strided":
            wide = np.zeros((n, 2 * len(shape)), dtype=subs.dtype)
            wide[:, ::2] = subs
            subs = wide[:, ::2]
            tall = np.zeros((2 * n, 1), dtype=vals.dtype)
            tall[::2] = vals
            vals = tall[::2]
        elif pres["layout"] == "readonly":
            subs.setflags(write=False)
            vals = vals.copy()
            vals.setflags(write=False)
    return ttb.sptensor(subs, vals, shape_arg)


def dense_of(shape, ent):
    A = np.zeros(tuple(shape))
    for s, v in zip(ent["subs"], ent["vals"]):
        A[tuple(s)] += v
    return A


NNZ_CHOICES = [0, 1, 1, 2, 2, 2, 3, 3, 3, 4, 4, 5, 6, 8]


@st.composite
def entries(draw, shape, vkind, nnz=None):
    cells = lex_cells(shape)
    if nnz is None:
        nnz = draw(st.sampled_from(NNZ_CHOICES))
    nnz = min(nnz, len(cells))
    pos = sorted(draw(st.sets(st.integers(0, len(cells) - 1), min_size=nnz, max_size=nnz)))
    vals = draw(st.lists(gen.values(vkind, nonzero=True), min_size=nnz, max_size=nnz))
    return dict(subs=[cells[i] for i in pos], vals=vals)


@st.composite
def entries_pair(draw, shape, vkind):
    """two entry lists over one shape with a generated overlap; overlapping values equal / negated / unrelated"""
    cells = lex_cells(shape)
    nc = len(cells)
    na = min(draw(st.sampled_from(NNZ_CHOICES)), nc)
    nb = min(draw(st.sampled_from(NNZ_CHOICES)), nc)
    k = draw(st.integers(0, min(na, nb)))
    while na + nb - k > nc:
        if nb > k:
            nb -= 1
        elif na > k:
            na -= 1
        else:
            k -= 1
    total = na + nb - k
    pos = draw(st.lists(st.integers(0, nc - 1), unique=True, min_size=total, max_size=total))
    both, aonly, bonly = pos[:k], pos[k:na], pos[na:total]
    av = {i: draw(gen.values(vkind, nonzero=True)) for i in both + aonly}
    bv = {}
    for i in both:
        rel = draw(st.sampled_from(["same", "neg", "other"]))
        bv[i] = av[i] if rel == "same" else (-av[i] if rel == "neg" else draw(gen.values(vkind, nonzero=True)))
    for i in bonly:
        bv[i] = draw(gen.values(vkind, nonzero=True))
    a = dict(subs=[cells[i] for i in sorted(av)], vals=[av[i] for i in sorted(av)])
    b = dict(subs=[cells[i] for i in sorted(bv)], vals=[bv[i] for i in sorted(bv)])
    return a, b


@st.composite
def orders_for(draw, n):
    if n <= 4:
        return None  # enumerate all n!
    return [list(draw(st.permutations(range(n)))) for _ in range(6)]


def perms_of(n, orders):
    if orders is None:
        return [list(p) for p in itertools.permutations(range(n))]  # identity first
    return [list(range(n))] + [list(p) for p in orders]


def combos(case, keys):
    P = {k: perms_of(len(case[k]["subs"]), (case.get("orders") or {}).get(k)) for k in keys}
    if len(keys) == 1:
        return [{keys[0]: p} for p in P[keys[0]]]
    a, b = keys
    if len(P[a]) * len(P[b]) <= 48:
        return [{a: p, b: q} for p in P[a] for q in P[b]]
    out = [{a: p, b: P[b][0]} for p in P[a]] + [{a: P[a][0], b: q} for q in P[b][1:]]
    for i, j in (case.get("orders") or {}).get("joint", []):
        out.append({a: P[a][i % len(P[a])], b: P[b][j % len(P[b])]})
    return out


# --------------------------------------------------------------------------
# outcomes
# --------------------------------------------------------------------------


class Bad(Exception):
    """the result is malformed (already recorded); it cannot be compared"""


def _once(ctx, cond, clause, info=""):
    seen = ctx.notes.setdefault("seen", set())
    if not cond and clause not in seen:
        seen.add(clause)
        ctx.check(False, clause, info)
    return bool(cond)


def _malformed(ctx, name, probs, r):
    """one clause per kind of problem: '<op>:malformed:<kind>' (numbers stripped so the clause name is stable)"""
    for pr in probs:
        kind = pr.split(":")[0]
        kind = "nnz-vs-stored" if kind.startswith("nnz-") and "-vs-stored-" in kind else kind
        kind = "vals-shape" if kind.startswith("vals-shape-") else kind
        kind = "subs-width" if kind.startswith("subs-width-") else kind
        kind = "subs-ndim" if kind.startswith("subs-ndim-") else kind
        kind = "shape-mismatch" if kind.startswith("shape-(") else kind
        try:
            info = f"{pr}: subs={np.asarray(r.subs).tolist()} vals={np.asarray(r.vals).ravel().tolist()}"
        except Exception:  # noqa: BLE001
            info = pr
        _once(ctx, False, f"{name}:malformed:{kind}", info)


MAX_EXPAND = 10**7
FAST_ABOVE = 2000  # stored entries: beyond this the vectorised twins of ref.sptensor_problems / ref.den are used


def _problems_fast(S):
    """ref.sptensor_problems(S, allow_explicit_zero=True) for many stored entries (vectorised, same messages)"""
    out = []
    shape = tuple(S.shape)
    if not all(isinstance(n, (int, np.integer)) for n in shape):
        out.append("shape-not-int")
    subs, vals = S.subs, S.vals
    if not isinstance(subs, np.ndarray) or not isinstance(vals, np.ndarray):
        return out + ["subs/vals-not-ndarray"]
    n = 0 if subs.size == 0 else subs.shape[0]
    nv = 0 if vals.size == 0 else vals.shape[0]
    if subs.size and subs.ndim != 2:
        return out + [f"subs-ndim-{subs.ndim}"]
    if vals.size and (vals.ndim != 2 or vals.shape[1] != 1):
        out.append(f"vals-shape-{vals.shape}")
    if n != nv or vals.size != nv:
        out.append(f"one-value-per-subscript:{n}-subs-{vals.size}-vals")
    if subs.size:
        if not np.issubdtype(subs.dtype, np.integer):
            out.append(f"subs-dtype-{subs.dtype}")
        if subs.shape[1] != len(shape):
            out.append(f"subs-width-{subs.shape[1]}-vs-order-{len(shape)}")
        else:
            if (subs < 0).any() or (subs >= np.array(shape)[None, :]).any():
                out.append("subs-out-of-shape")
            elif ref.prod(shape) < 2**62:  # in range: one integer key per row
                if np.unique(np.ravel_multi_index(tuple(subs.T), tuple(int(v) for v in shape))).shape[0] != n:
                    out.append("duplicate-subscripts")
            elif np.unique(subs, axis=0).shape[0] != n:
                out.append("duplicate-subscripts")
    try:
        if S.nnz != n:
            out.append(f"nnz-{S.nnz}-vs-stored-{n}")
    except Exception as e:  # noqa: BLE001
        out.append(f"nnz-raises-{type(e).__name__}")
    return out


def _den_fast(S):
    A = np.zeros(tuple(int(n) for n in S.shape))
    if S.subs.size:
        np.add.at(A, tuple(np.asarray(S.subs).T), np.asarray(S.vals, dtype=float).reshape(-1))
    return A


def _entry_set(subs, vals, width):
    if np.asarray(subs).size == 0:
        return frozenset()
    return frozenset((tuple(int(i) for i in r), float(v)) for r, v in zip(np.asarray(subs).reshape(-1, width),
                                                                         np.asarray(vals).reshape(-1)) if v != 0)


def summarize(ctx, O, r):
    """comparable form of a result: nested tuples of ('kind', shape, float array)"""
    name = O.name
    if isinstance(r, ttb.sptensor):
        many = isinstance(r.subs, np.ndarray) and r.subs.ndim == 2 and r.subs.shape[0] > FAST_ABOVE
        probs = _problems_fast(r) if many else ref.sptensor_problems(r, allow_explicit_zero=True)
        if probs:
            _malformed(ctx, name, probs, r)
            raise Bad()
        if O.combine:
            _once(ctx, not (r.vals.size and (np.asarray(r.vals) == 0).any()), f"{name}:no-explicit-zero",
                  f"subs={r.subs.tolist()[:8]} vals={np.asarray(r.vals).ravel().tolist()[:8]}")
        if ref.prod(r.shape) > MAX_EXPAND:  # cannot be expanded: the set of (subscript, value) entries that are not zero
            return ("sptensor", tuple(int(s) for s in r.shape), _entry_set(r.subs, r.vals, len(r.shape)))
        return ("sptensor", tuple(int(s) for s in r.shape), _den_fast(r) if many else ref.den(r))
    if isinstance(r, ttb.sptenmat):
        probs = sptenmat_problems(r, allow_explicit_zero=True)
        if probs:
            _malformed(ctx, name, probs, r)
            raise Bad()
        if O.combine:
            _once(ctx, not (r.vals.size and (np.asarray(r.vals) == 0).any()), f"{name}:no-explicit-zero")
        if ref.prod(r.tshape) > MAX_EXPAND:
            return ("sptenmat", tuple(int(s) for s in r.tshape), tuple(int(d) for d in r.rdims),
                    tuple(int(d) for d in r.cdims), _entry_set(r.subs, r.vals, 2))
        return ("sptenmat", tuple(int(s) for s in r.tshape), tuple(int(d) for d in r.rdims),
                tuple(int(d) for d in r.cdims), ref.den(r))
    if isinstance(r, ttb.tensor):
        if not _once(ctx, isinstance(r.data, np.ndarray) and tuple(r.data.shape) == tuple(r.shape),
                     f"{name}:dense-result-consistent", f"{getattr(r.data, 'shape', None)} vs {r.shape}"):
            raise Bad()
        return ("tensor", tuple(int(s) for s in r.shape), ref.den(r))
    if isinstance(r, ttb.tenmat):
        return ("tenmat", tuple(int(s) for s in r.tshape), tuple(int(d) for d in r.rindices),
                tuple(int(d) for d in r.cindices), np.array(r.data, dtype=float))
    if isinstance(r, ttb.ktensor):
        return ("ktensor", tuple(r.shape), ref.den(r))
    if isinstance(r, np.ndarray):
        if r.dtype == object:
            _once(ctx, False, f"{name}:object-array")
            raise Bad()
        return ("ndarray", r.shape, np.array(r, dtype=float))  # a copy: the result itself is edited later
    if isinstance(r, (bool, np.bool_)):
        return ("bool", (), np.array(float(r)))
    if isinstance(r, (int, float, np.integer, np.floating)):
        return ("scalar", (), np.array(float(r)))
    if hasattr(r, "toarray") and hasattr(r, "nnz"):
        return ("scipy", tuple(r.shape), np.asarray(r.toarray(), dtype=float))
    if isinstance(r, str):
        return ("str", r)
    if isinstance(r, (tuple, list)):
        return ("seq",) + tuple(summarize(ctx, O, x) for x in r)
    if isinstance(r, dict):
        return ("dict",) + tuple((str(k), summarize(ctx, O, r[k])) for k in sorted(r))
    if r is None:
        return ("none",)
    _once(ctx, False, f"{name}:unknown-result-type", type(r).__name__)
    raise Bad()


def _dense_like(o):
    """('sptensor' | 'tensor', shape, array) -> ('array-of', shape, array): where float sums are compared with a
    tolerance, whether a result that is zero within it is handed back sparse or dense (a density switch on the
    number of computed nonzeros) is not a difference"""
    if isinstance(o, tuple) and len(o) == 3 and o[0] in ("sptensor", "tensor") and isinstance(o[2], np.ndarray):
        return ("array-of",) + o[1:]
    return o


def same_outcome(x, y, tol, overflow=False):
    """overflow: the operands hold values of magnitude 1e+200, so sums of products of two of them overflow, and
    whether a partial sum overflows depends on the order of summation ((h + h) - h = inf, h + (h - h) = h): an entry
    that is infinite or NaN for either order is not compared (all inputs are finite)"""
    if tol > 0.0:
        x, y = _dense_like(x), _dense_like(y)
    if isinstance(x, np.ndarray) or isinstance(y, np.ndarray):
        if not (isinstance(x, np.ndarray) and isinstance(y, np.ndarray)) or x.shape != y.shape:
            return False
        if tol == 0.0 and not overflow:
            return ref.same_exact(x, y)
        with np.errstate(all="ignore"):
            # the product of the operands' magnitudes (tolerance()) under- or overflows for operands of extreme
            # dynamic range (1e+200 values times 1e-200 factors) and includes factors the operation does not use, so
            # the bound also carries a term relative to the largest entry of the results themselves (a sum of
            # products cannot be more accurate than 1e-12 of its own size here: >= 64 * cells * eps for <= 70 cells)
            fin = [np.abs(a[np.isfinite(a)]) for a in (np.asarray(x, dtype=float), np.asarray(y, dtype=float))]
            big = max([float(a.max()) for a in fin if a.size] + [0.0])
            ok = (np.abs(x - y) <= tol + 1e-12 * big) | (x == y) | (np.isnan(x) & np.isnan(y))
            if overflow:
                ok = ok | ~np.isfinite(x) | ~np.isfinite(y)
            return bool(np.all(ok))
    if isinstance(x, tuple) and isinstance(y, tuple):
        return len(x) == len(y) and all(same_outcome(a, b, tol, overflow) for a, b in zip(x, y))
    return x == y


def _brief(o):
    if isinstance(o, np.ndarray):
        return np.array2string(o.ravel(order="F")[:12], precision=6, separator=",")
    if isinstance(o, tuple):
        return "(" + " ".join(_brief(x) for x in o) + ")"
    return str(o)


def _maxabs(x):
    m = 0.0
    if isinstance(x, dict):
        for v in x.values():
            m = max(m, _maxabs(v))
    elif isinstance(x, (list, tuple)):
        for v in x:
            m = max(m, _maxabs(v))
    elif isinstance(x, float):
        m = abs(x)
    return m


def tolerance(O, case):
    if not O.accum or case["vkind"] == "int":
        return 0.0
    scale = 1.0

    def mag(x):
        # magnitude of one factor of a term; data of magnitude 1e-6 gets a bound that is as tight, relatively, as
        # data of magnitude 1 (a parameter without float entries, or all zero, is not a factor: 1)
        m = _maxabs(x)
        return m if m > 0 else 1.0

    for k in O.keys:
        scale *= mag(case[k]["vals"])
    for v in (case.get("p") or {}).values():
        if isinstance(v, list) and v and all(isinstance(e, list) for e in v):
            for e in v:  # a list of vectors / matrices: every one of them can be a factor of a term
                scale *= mag(e)
        else:
            scale *= mag(v)
    cells = ref.prod(case["shape"]) * 8
    eps = float(np.finfo(np.float32).eps) if any(case[k].get("dtype") == "float32" for k in O.keys) else EPS
    tol = 64.0 * cells * eps * scale
    # products of magnitudes beyond 1e308: everything overflows; products below 1e-308 are denormal, where a fused
    # multiply-add rounds to the absolute grid 5e-324 in an order-dependent way: an absolute floor far below every
    # normal number
    return max(tol, 1e-300) if np.isfinite(tol) else float("inf")


# --------------------------------------------------------------------------
# operation registry
# --------------------------------------------------------------------------


_CUR = {"ctx": None, "strided": False}


class Op:
    def __init__(self, name, call, params=None, keys=("a",), combine=False, accum=False, shapes=None, bshape=None,
                 build=None, ents=None):
        self.name, self.call, self.params, self.keys = name, call, params, tuple(keys)
        self.combine, self.accum, self.shapes, self.bshape, self.build, self.ents = (
            combine, accum, shapes, bshape, build, ents)


OPS = {}
FAMILIES = {}


def op(fam, name, call, **kw):
    OPS[name] = Op(name, call, **kw)
    FAMILIES.setdefault(fam, []).append(name)


def _limits(tier):
    return dict(max_order=4, max_size=4, max_cells=24) if tier == "quick" else dict(max_order=4, max_size=5,
                                                                                    max_cells=60)


def default_shapes(tier, min_order=1):
    return gen.shapes(tier, min_order=min_order, **_limits(tier))


def arr(x, dtype=float):
    a = np.array(x, dtype=dtype)
    if _CUR.get("strided") and a.ndim >= 1 and a.size:
        # round 4: the vectors / matrices of a call as read-only views with a stride (every second column of a wider array)
        wide = np.zeros(a.shape[:-1] + (2 * a.shape[-1],), dtype=a.dtype)
        wide[..., ::2] = a
        a = wide[..., ::2]
        a.setflags(write=False)
    return a


SEQ_FORMS = ("list", "tuple", "bare-int")


def iarr(p, x, seq_ok=False):
    """an index / mode / subscript array; round 4: in the integer dtype p['idt'] when the run presents its arguments
    the other way (int32, uint8, uint16, uint64; negative entries keep int64)"""
    a = np.array(x, dtype=int)
    idt = p.get("idt") if isinstance(p, dict) else None
    if idt in SEQ_FORMS:  # a mode list documented as OneDArray: list / tuple / bare int for a single mode
        if not seq_ok or a.ndim != 1:
            return a
        if idt == "bare-int":
            return int(a[0]) if a.size == 1 else a
        return [int(v) for v in a] if idt == "list" else tuple(int(v) for v in a)
    if idt and not (a.size and a.min() < 0 and np.dtype(idt).kind == "u"):
        a = a.astype(idt)
    return a


def iint(p, v):
    """a mode number / index: a numpy integer scalar of dtype p['idt'] in the other presentation"""
    idt = p.get("idt") if isinstance(p, dict) else None
    if idt and idt not in SEQ_FORMS and v >= 0:
        return np.dtype(idt).type(v)
    return v


def fl(draw, n, vkind, nonzero=False):
    return draw(st.lists(gen.values(vkind, nonzero=nonzero), min_size=n, max_size=n))


def mat(draw, r, c, vkind):
    return [fl(draw, c, vkind) for _ in range(r)]


@st.composite
def _target_shape(draw, n, max_parts=4):
    """A target shape with product n: random divisors, optionally one extra singleton."""
    parts = []
    rem = n
    while rem > 1 and len(parts) < max_parts - 1:
        divs = [d for d in range(1, rem + 1) if rem % d == 0]
        d = draw(st.sampled_from(divs))
        parts.append(d)
        rem //= d
    parts.append(rem)
    if len(parts) < max_parts and draw(st.booleans()):
        parts.insert(draw(st.integers(0, len(parts))), 1)
    return parts


# ---------------------------------------------------------------- structure / unary

op("structure", "copy", lambda X, p, c: X["a"].copy())
op("structure", "pos", lambda X, p, c: +X["a"])
op("structure", "neg", lambda X, p, c: -X["a"])
op("structure", "ones", lambda X, p, c: X["a"].ones())
op("structure", "full", lambda X, p, c: X["a"].full())
op("structure", "to_tensor", lambda X, p, c: X["a"].to_tensor())
op("structure", "double", lambda X, p, c: X["a"].double())
op("structure", "nnz", lambda X, p, c: X["a"].nnz)
op("structure", "norm", lambda X, p, c: X["a"].norm(), accum=True)
op("structure", "squeeze", lambda X, p, c: X["a"].squeeze())
op("structure", "squash", lambda X, p, c: X["a"].squash())
op("structure", "squash_inverse", lambda X, p, c: X["a"].squash(True))
op("structure", "spmatrix", lambda X, p, c: X["a"].spmatrix(),
   shapes=lambda tier: gen.shapes(tier, min_order=2, **dict(_limits(tier), max_order=2)))


def _find_call(X, p, c):
    subs, vals = X["a"].find()
    A = np.zeros(tuple(c["shape"]))
    cnt = np.zeros(tuple(c["shape"]))
    if subs.size:
        for s, v in zip(subs, np.asarray(vals).reshape(-1)):
            A[tuple(int(i) for i in s)] += v
            cnt[tuple(int(i) for i in s)] += 1
    return (A, cnt)


op("structure", "find", _find_call)


@st.composite
def _p_permute(draw, tier, shape, vkind, case):
    return dict(perm=list(draw(st.permutations(range(len(shape))))))


op("structure", "permute", lambda X, p, c: X["a"].permute(iarr(p, p["perm"], seq_ok=True)), params=_p_permute)


@st.composite
def _p_reshape(draw, tier, shape, vkind, case):
    N = len(shape)
    if draw(st.booleans()):
        return dict(new=draw(_target_shape(ref.prod(shape))), old_modes=None)
    om = draw(gen.mode_subset(N, 1, N))
    return dict(new=draw(_target_shape(ref.prod(shape[m] for m in om), max_parts=3)), old_modes=om)


op("structure", "reshape",
   lambda X, p, c: X["a"].reshape(tuple(p["new"])) if p["old_modes"] is None else X["a"].reshape(
       tuple(p["new"]), iarr(p, p["old_modes"])), params=_p_reshape)

ELEMFUNS = {
    "plus1": lambda v: v + 1,
    "abs": np.abs,
    "square": lambda v: v * v,
    "negate": lambda v: -v,
    "times0": lambda v: v * 0,
    "gt1": lambda v: (v > 1).astype(float),
}


@st.composite
def _p_elemfun(draw, tier, shape, vkind, case):
    return dict(fn=draw(st.sampled_from(sorted(ELEMFUNS))))


op("structure", "elemfun", lambda X, p, c: X["a"].elemfun(ELEMFUNS[p["fn"]]), params=_p_elemfun)

# ---------------------------------------------------------------- sptenmat


@st.composite
def _p_split(draw, tier, shape, vkind, case):
    from .c01 import split_spec

    return dict(split=draw(split_spec(len(shape))))


def _kw(p):
    from .c01 import split_kwargs

    return split_kwargs(p["split"])


def _canon_sptenmat(p, c):
    return build_sp(c["shape"], c["a"]).to_sptenmat(**_kw(p))


op("sptenmat", "to_sptenmat", lambda X, p, c: X["a"].to_sptenmat(**_kw(p)), params=_p_split, combine=True)
op("sptenmat", "to_sptenmat.to_sptensor", lambda X, p, c: X["a"].to_sptenmat(**_kw(p)).to_sptensor(),
   params=_p_split, combine=True)
op("sptenmat", "to_sptenmat.double", lambda X, p, c: X["a"].to_sptenmat(**_kw(p)).double(), params=_p_split)
op("sptenmat", "to_sptenmat.full", lambda X, p, c: X["a"].to_sptenmat(**_kw(p)).full(), params=_p_split)
op("sptenmat", "to_sptenmat.norm", lambda X, p, c: X["a"].to_sptenmat(**_kw(p)).norm(), params=_p_split, accum=True)
op("sptenmat", "to_sptenmat.neg", lambda X, p, c: -X["a"].to_sptenmat(**_kw(p)), params=_p_split)
op("sptenmat", "to_sptenmat.copy", lambda X, p, c: X["a"].to_sptenmat(**_kw(p)).copy(), params=_p_split)
op("sptenmat", "to_sptenmat.isequal", lambda X, p, c: X["a"].to_sptenmat(**_kw(p)).isequal(_canon_sptenmat(p, c)),
   params=_p_split)
op("sptenmat", "to_sptenmat.nnz", lambda X, p, c: X["a"].to_sptenmat(**_kw(p)).nnz, params=_p_split)


# raw (row, col, value) triples, repeated subscripts allowed: sptenmat(subs, vals, rdims, cdims, tshape)


def _raw_build(shape, ent, perm):
    n = len(ent["subs"])
    idx = range(n) if perm is None else perm
    if n == 0:
        return (np.empty((0, len(shape)), dtype=int), np.empty((0, 1)))
    return (np.array([ent["subs"][i] for i in idx], dtype=int).reshape(n, len(shape)),
            np.array([ent["vals"][i] for i in idx], dtype=float).reshape(n, 1))


@st.composite
def _dup_entries(draw, shape, vkind):
    """entry list that may repeat subscripts (sorted; repeats adjacent); values may cancel"""
    base = draw(entries(shape, vkind))
    subs, vals = [], []
    for s, v in zip(base["subs"], base["vals"]):
        k = draw(st.sampled_from([1, 1, 1, 2, 3]))
        subs.append(s), vals.append(v)
        for _ in range(k - 1):
            subs.append(list(s))
            vals.append(-v if draw(st.booleans()) else draw(gen.values(vkind, nonzero=True)))
    return dict(subs=subs, vals=vals)


@st.composite
def _p_sptenmat_ctor(draw, tier, shape, vkind, case):
    # operand 'a' lives in the matrix shape (rows, cols); the tensor shape and split are parameters
    rshape = draw(_target_shape(shape[0], max_parts=2))
    cshape = draw(_target_shape(shape[1], max_parts=2))
    tshape = rshape + cshape
    modes = list(draw(st.permutations(range(len(tshape)))))
    # place the row factors / column factors at generated mode positions
    rd, cd = modes[:len(rshape)], modes[len(rshape):]
    ts = [0] * len(tshape)
    for m, s in zip(rd + cd, tshape):
        ts[m] = s
    return dict(tshape=ts, rdims=rd, cdims=cd)


def _sptenmat_ctor(X, p, c):
    subs, vals = X["a"]
    if subs.shape[0] == 0:
        return ttb.sptenmat(None, None, iarr(p, p["rdims"]), iarr(p, p["cdims"]), tuple(p["tshape"]))
    return ttb.sptenmat(subs, vals, iarr(p, p["rdims"]), iarr(p, p["cdims"]), tuple(p["tshape"]))


op("construct", "sptenmat()", _sptenmat_ctor, params=_p_sptenmat_ctor, combine=True, accum=True,
   shapes=lambda tier: gen.shapes(tier, min_order=2, **dict(_limits(tier), max_order=2)),
   build=_raw_build, ents=_dup_entries)

AGG = {"sum": "sum", "max": "max", "min": "min", "np.sum": np.sum}


@st.composite
def _p_agg(draw, tier, shape, vkind, case):
    return dict(fun=draw(st.sampled_from(["default", "sum", "max", "min", "np.sum"])))


def _from_agg(X, p, c):
    subs, vals = X["a"]
    if p["fun"] == "default":
        return ttb.sptensor.from_aggregator(subs, vals, tuple(c["shape"]))
    return ttb.sptensor.from_aggregator(subs, vals, tuple(c["shape"]), AGG[p["fun"]])


op("construct", "from_aggregator", _from_agg, params=_p_agg, combine=True, accum=True, build=_raw_build,
   ents=_dup_entries)

# ---------------------------------------------------------------- multilinear products


@st.composite
def _p_ttv(draw, tier, shape, vkind, case):
    N = len(shape)
    form = draw(st.sampled_from(["int", "dims", "dims", "exclude", "all", "full-list", "cancel", "cancel"]))
    if form == "cancel":
        # two stored entries of one fibre whose contributions cancel exactly: the result must not keep the 0
        subs, vals = case["a"]["subs"], case["a"]["vals"]
        pairs = [(i, j, [m for m in range(N) if subs[i][m] != subs[j][m]])
                 for i in range(len(subs)) for j in range(i + 1, len(subs))]
        pairs = [(i, j, diff[0]) for i, j, diff in pairs if len(diff) == 1]
        if N >= 2 and pairs:
            i, j, d = pairs[draw(st.integers(0, len(pairs) - 1))]
            keep = draw(st.sampled_from([m for m in range(N) if m != d]))
            rest = [m for m in range(N) if m != keep]
            vecs = []
            for m in rest:
                v = fl(draw, shape[m], vkind)
                if m == d:
                    v[subs[i][d]] = vals[j]
                    v[subs[j][d]] = -vals[i]
                else:
                    v[subs[i][m]] = 1.0
                vecs.append(v)
            return dict(form="exclude", dims=[keep], vecs=vecs, cancel=True)
        form = "dims"
    if form == "int":
        d = draw(st.integers(0, N - 1))
        return dict(form=form, dims=d, vecs=[fl(draw, shape[d], vkind)])
    if form == "all":
        return dict(form=form, dims=None, vecs=[fl(draw, s, vkind) for s in shape])
    if form == "exclude":
        ex = draw(gen.mode_subset(N, 0, N - 1))
        rest = [m for m in range(N) if m not in ex]
        return dict(form=form, dims=ex, vecs=[fl(draw, shape[m], vkind) for m in rest])
    dims = draw(gen.mode_subset(N, 1, N))
    if form == "full-list" and len(dims) < N:
        # one vector per mode of the tensor, only those named in dims are used
        return dict(form=form, dims=dims, vecs=[fl(draw, s, vkind) for s in shape])
    return dict(form="dims", dims=dims, vecs=[fl(draw, shape[m], vkind) for m in dims])


def _ttv(X, p, c):
    vecs = [arr(v) for v in p["vecs"]]
    f = p["form"]
    if f == "int":
        return X["a"].ttv(vecs[0], iint(p, p["dims"]))
    if f == "all":
        return X["a"].ttv(vecs)
    if f == "exclude":
        return X["a"].ttv(vecs, exclude_dims=iarr(p, p["dims"], seq_ok=True))
    return X["a"].ttv(vecs, iarr(p, p["dims"], seq_ok=True))


op("ttv", "ttv", _ttv, params=_p_ttv, combine=True, accum=True)


@st.composite
def _p_ttm(draw, tier, shape, vkind, case):
    N = len(shape)
    tr = draw(st.booleans())
    form = draw(st.sampled_from(["int", "int", "dims", "exclude"]))

    def m(d):
        j = draw(st.integers(1, 3))
        return mat(draw, shape[d], j, vkind) if tr else mat(draw, j, shape[d], vkind)

    if form == "int":
        d = draw(st.integers(0, N - 1))
        return dict(form=form, dims=d, mats=[m(d)], transpose=tr)
    if form == "exclude":
        ex = draw(gen.mode_subset(N, 0, max(0, N - 1)))
        rest = [k for k in range(N) if k not in ex]
        if not rest:
            ex, rest = [], list(range(N))
        return dict(form=form, dims=ex, mats=[m(k) for k in rest], transpose=tr)
    dims = draw(gen.mode_subset(N, 1, N))
    return dict(form=form, dims=dims, mats=[m(k) for k in dims], transpose=tr)


def _ttm(X, p, c):
    mats = [arr(v) for v in p["mats"]]
    f = p["form"]
    if f == "int":
        return X["a"].ttm(mats[0], iint(p, p["dims"]), transpose=p["transpose"])
    if f == "exclude":
        return X["a"].ttm(mats, exclude_dims=iarr(p, p["dims"], seq_ok=True), transpose=p["transpose"])
    return X["a"].ttm(mats, iarr(p, p["dims"], seq_ok=True), transpose=p["transpose"])


op("ttm", "ttm", _ttm, params=_p_ttm, combine=True, accum=True)


@st.composite
def _contract_shapes(draw, tier):
    lim = _limits(tier)
    n = draw(st.integers(2, 4))
    s = draw(st.integers(1, 3))
    rest = [draw(st.integers(1, 3)) for _ in range(n - 2)]
    while s * s * ref.prod(rest) > lim["max_cells"] and rest:
        rest.pop()
    shape = [s, s] + rest
    perm = draw(st.permutations(range(len(shape))))
    return [shape[i] for i in perm]


@st.composite
def _p_contract(draw, tier, shape, vkind, case):
    pairs = [(i, j) for i in range(len(shape)) for j in range(len(shape)) if i != j and shape[i] == shape[j]]
    i, j = draw(st.sampled_from(pairs))
    return dict(i=i, j=j)


op("contract", "contract", lambda X, p, c: X["a"].contract(iint(p, p["i"]), iint(p, p["j"])), params=_p_contract, combine=True,
   accum=True, shapes=_contract_shapes)

COLLAPSE = {"sum": sum, "np.sum": np.sum, "max": np.max, "min": np.min}


@st.composite
def _p_collapse(draw, tier, shape, vkind, case):
    N = len(shape)
    fun = draw(st.sampled_from(["default", "sum", "np.sum", "max", "min"]))
    dims = None if draw(st.integers(0, 4)) == 0 else draw(gen.mode_subset(N, 1, N))
    return dict(fun=fun, dims=dims)


def _collapse(X, p, c):
    d = None if p["dims"] is None else iarr(p, p["dims"], seq_ok=True)
    if p["fun"] == "default":
        return X["a"].collapse(d)
    return X["a"].collapse(d, COLLAPSE[p["fun"]])


op("collapse", "collapse", _collapse, params=_p_collapse, combine=True, accum=True)


@st.composite
def _p_scale_arr(draw, tier, shape, vkind, case):
    d = draw(st.integers(0, len(shape) - 1))
    return dict(dims=[d], factor=fl(draw, shape[d], vkind))


op("scale", "scale-ndarray", lambda X, p, c: X["a"].scale(arr(p["factor"]), iarr(p, p["dims"], seq_ok=True)),
   params=_p_scale_arr)


@st.composite
def _p_scale_tensor(draw, tier, shape, vkind, case):
    dims = sorted(draw(gen.mode_subset(len(shape), 1, len(shape))))
    fs = [shape[d] for d in dims]
    return dict(dims=dims, fshape=fs, factor=fl(draw, ref.prod(fs), vkind))


op("scale", "scale-tensor",
   lambda X, p, c: X["a"].scale(ttb.tensor(gen.arr_F(p["fshape"], p["factor"]).copy(order="F"), tuple(p["fshape"])),
                                iarr(p, p["dims"])), params=_p_scale_tensor)


@st.composite
def _p_scale_sp(draw, tier, shape, vkind, case):
    dims = sorted(draw(gen.mode_subset(len(shape), 1, len(shape))))
    return dict(dims=dims, fshape=[shape[d] for d in dims])


op("scale", "scale-sptensor", lambda X, p, c: X["a"].scale(X["b"], iarr(p, p["dims"], seq_ok=True)), params=_p_scale_sp,
   keys=("a", "b"), bshape=lambda case: case["p"]["fshape"])


@st.composite
def _p_mttkrp(draw, tier, shape, vkind, case):
    N = len(shape)
    r = draw(st.integers(1, 3))
    return dict(n=draw(st.integers(0, N - 1)), U=[mat(draw, s, r, vkind) for s in shape],
                weights=fl(draw, r, vkind) if draw(st.booleans()) else None)


def _mttkrp(X, p, c):
    U = [arr(u) for u in p["U"]]
    if p["weights"] is not None:
        return X["a"].mttkrp(ttb.ktensor(U, arr(p["weights"])), iint(p, p["n"]))
    return X["a"].mttkrp(U, iint(p, p["n"]))


op("mttkrp", "mttkrp", _mttkrp, params=_p_mttkrp, accum=True,
   shapes=lambda tier: default_shapes(tier, min_order=2))

# ---------------------------------------------------------------- other-operand strategies


@st.composite
def _p_dense_other(draw, tier, shape, vkind, case):
    """dense tensor of the same shape: at A's nonzeros equal / zero / unrelated, elsewhere zero-heavy"""
    A = dense_of(shape, case["a"])
    flat = []
    for s in ref.all_subs_F(shape):
        a = float(A[s])
        if a != 0:
            rel = draw(st.sampled_from(["same", "zero", "other", "neg"]))
            flat.append(a if rel == "same" else (0.0 if rel == "zero" else (-a if rel == "neg" else draw(
                gen.values(vkind, nonzero=True)))))
        else:
            flat.append(draw(gen.values(vkind)) if draw(st.booleans()) else 0.0)
    out = dict(T=flat)
    if case["a"].get("dtype") in NARROW:
        out["Tdtype"] = case["a"]["dtype"]
        if out["Tdtype"] == "uint8":
            out["T"] = [abs(v) for v in flat]
    return out


def _T(p, c):
    if "Tseed" in p:  # large cases: the dense operand is a function of a seed (zero at about a third of the cells)
        rs = np.random.RandomState(int(p["Tseed"]))
        T = np.asfortranarray(np.round(rs.uniform(-6, 6, size=tuple(c["shape"]))) if c["vkind"] == "int" else rs.uniform(
            -3, 3, size=tuple(c["shape"])))
        T[rs.uniform(size=T.shape) < 0.3] = 0.0
        return ttb.tensor(T, tuple(c["shape"]))
    T = gen.arr_F(c["shape"], p["T"]).copy(order="F")
    if p.get("Tdtype"):  # narrow integer dtype of the sparse operand: the products then wrap around like the values
        T = T.astype(p["Tdtype"])
    return ttb.tensor(T, tuple(c["shape"]))


SCALARS = [-2.0, -1.0, 0.0, 1.0, 2.0, 0.5]


@st.composite
def _p_scalar(draw, tier, shape, vkind, case):
    vals = case["a"]["vals"]
    if vals and draw(st.booleans()):
        s = float(vals[draw(st.integers(0, len(vals) - 1))])
    else:
        s = draw(st.sampled_from(SCALARS))
    if draw(st.integers(0, 3)) == 0 and s == int(s):
        return dict(s=int(s), as_int=True)
    return dict(s=s, as_int=False)


def _s(p):
    return int(p["s"]) if p.get("as_int") else float(p["s"])


@st.composite
def _p_kt_other(draw, tier, shape, vkind, case):
    k = draw(gen.ktensor_case(tier, kinds=(vkind,), shape=shape, max_rank=2))
    return dict(weights=k["weights"], factors=k["factors"], rank=k["rank"])


def _K(p, c):
    return ttb.ktensor([arr(f).reshape(n, p["rank"]) for f, n in zip(p["factors"], c["shape"])], arr(p["weights"]))


@st.composite
def _p_tt_other(draw, tier, shape, vkind, case):
    cshape = [draw(st.integers(1, 2)) for _ in shape]
    return dict(cshape=cshape, core=fl(draw, ref.prod(cshape), vkind),
                factors=[mat(draw, s, k, vkind) for s, k in zip(shape, cshape)])


def _TT(p, c):
    core = gen.arr_F(p["cshape"], p["core"])
    return ttb.ttensor(ttb.tensor(core.copy(order="F"), tuple(p["cshape"])),
                       [arr(f).reshape(s, k) for f, s, k in zip(p["factors"], c["shape"], p["cshape"])])


# ---------------------------------------------------------------- arithmetic

ARITH = {"add": operator.add, "sub": operator.sub, "mul": operator.mul, "div": operator.truediv}
for _n, _f in ARITH.items():
    op("arith-sptensor", f"{_n}-sptensor", (lambda f: lambda X, p, c: f(X["a"], X["b"]))(_f), keys=("a", "b"),
       combine=True)
    op("arith-tensor", f"{_n}-tensor", (lambda f: lambda X, p, c: f(X["a"], _T(p, c)))(_f), params=_p_dense_other,
       combine=True)
    op("arith-tensor", f"tensor-{_n}", (lambda f: lambda X, p, c: f(_T(p, c), X["a"]))(_f), params=_p_dense_other,
       combine=True)
    op("arith-scalar", f"{_n}-scalar", (lambda f: lambda X, p, c: f(X["a"], _s(p)))(_f), params=_p_scalar)
op("arith-scalar", "scalar-mul", lambda X, p, c: _s(p) * X["a"], params=_p_scalar)
op("arith-scalar", "scalar-div", lambda X, p, c: _s(p) / X["a"], params=_p_scalar)
op("arith-ktensor", "mul-ktensor", lambda X, p, c: X["a"] * _K(p, c), params=_p_kt_other, combine=True)
op("arith-ktensor", "ktensor-mul", lambda X, p, c: _K(p, c) * X["a"], params=_p_kt_other, combine=True)
op("arith-ktensor", "div-ktensor", lambda X, p, c: X["a"] / _K(p, c), params=_p_kt_other)

# ---------------------------------------------------------------- comparison

CMP = {"eq": operator.eq, "ne": operator.ne, "lt": operator.lt, "le": operator.le, "gt": operator.gt,
       "ge": operator.ge}
for _n, _f in CMP.items():
    op("compare-sptensor", f"{_n}-sptensor", (lambda f: lambda X, p, c: f(X["a"], X["b"]))(_f), keys=("a", "b"),
       combine=True)
    op("compare-tensor", f"{_n}-tensor", (lambda f: lambda X, p, c: f(X["a"], _T(p, c)))(_f), params=_p_dense_other,
       combine=True)
    op("compare-scalar", f"{_n}-scalar", (lambda f: lambda X, p, c: f(X["a"], _s(p)))(_f), params=_p_scalar,
       combine=True)

# ---------------------------------------------------------------- logic

for _n in ("logical_and", "logical_or", "logical_xor"):
    op("logical", f"{_n}-sptensor", (lambda n: lambda X, p, c: getattr(X["a"], n)(X["b"]))(_n), keys=("a", "b"),
       combine=True)
    op("logical", f"{_n}-tensor", (lambda n: lambda X, p, c: getattr(X["a"], n)(_T(p, c)))(_n),
       params=_p_dense_other, combine=True)
    op("logical", f"{_n}-scalar", (lambda n: lambda X, p, c: getattr(X["a"], n)(_s(p)))(_n), params=_p_scalar,
       combine=True)
op("logical", "logical_not", lambda X, p, c: X["a"].logical_not(), combine=True)

# ---------------------------------------------------------------- scalar-valued pairings

op("innerprod", "innerprod-sptensor", lambda X, p, c: X["a"].innerprod(X["b"]), keys=("a", "b"), accum=True)
op("innerprod", "innerprod-tensor", lambda X, p, c: X["a"].innerprod(_T(p, c)), params=_p_dense_other, accum=True)
op("innerprod", "tensor-innerprod", lambda X, p, c: _T(p, c).innerprod(X["a"]), params=_p_dense_other, accum=True)
op("innerprod", "innerprod-ktensor", lambda X, p, c: X["a"].innerprod(_K(p, c)), params=_p_kt_other, accum=True)
op("innerprod", "ktensor-innerprod", lambda X, p, c: _K(p, c).innerprod(X["a"]), params=_p_kt_other, accum=True)
op("innerprod", "innerprod-ttensor", lambda X, p, c: X["a"].innerprod(_TT(p, c)), params=_p_tt_other, accum=True)
op("innerprod", "ttensor-innerprod", lambda X, p, c: _TT(p, c).innerprod(X["a"]), params=_p_tt_other, accum=True)
op("isequal", "isequal-sptensor", lambda X, p, c: X["a"].isequal(X["b"]), keys=("a", "b"))
op("isequal", "isequal-self", lambda X, p, c: X["a"].isequal(build_sp(c["shape"], c["a"])))
op("isequal", "isequal-tensor", lambda X, p, c: X["a"].isequal(_T(p, c)), params=_p_dense_other)
op("isequal", "tensor-isequal", lambda X, p, c: _T(p, c).isequal(X["a"]), params=_p_dense_other)
op("isequal", "isequal-own-full", lambda X, p, c: X["a"].isequal(ttb.tensor(dense_of(c["shape"], c["a"]))))

# ---------------------------------------------------------------- reads


@st.composite
def _p_subs(draw, tier, shape, vkind, case):
    cells = lex_cells(shape)
    own = case["a"]["subs"]
    k = draw(st.integers(1, 5))
    rows = []
    for _ in range(k):
        if own and draw(st.booleans()):
            rows.append(list(own[draw(st.integers(0, len(own) - 1))]))
        else:
            rows.append(list(cells[draw(st.integers(0, len(cells) - 1))]))
    return dict(subs=rows)


op("read", "extract", lambda X, p, c: X["a"].extract(iarr(p, p["subs"]).reshape(len(p["subs"]), len(c["shape"]))),
   params=_p_subs)
op("read", "getitem-subs",
   lambda X, p, c: X["a"][iarr(p, p["subs"]).reshape(len(p["subs"]), len(c["shape"]))], params=_p_subs)


@st.composite
def _p_linear(draw, tier, shape, vkind, case):
    n = ref.prod(shape)
    form = draw(st.sampled_from(["int", "neg-int", "array", "list", "slice"]))
    if form == "int":
        return dict(form=form, key=draw(st.integers(0, n - 1)))
    if form == "neg-int":
        return dict(form=form, key=-draw(st.integers(1, n)))
    if form == "slice":
        a = draw(st.integers(0, n - 1))
        return dict(form=form, key=[a, draw(st.integers(a, n)), draw(st.integers(1, 2))])
    return dict(form=form, key=draw(st.lists(st.integers(0, n - 1), min_size=1, max_size=5)))


def _getitem_linear(X, p, c):
    k, f = p["key"], p["form"]
    if f in ("int", "neg-int"):
        return X["a"][k]
    if f == "slice":
        return X["a"][slice(k[0], k[1], k[2])]
    return X["a"][iarr(p, k)] if f == "array" else X["a"][list(k)]


op("read", "getitem-linear", _getitem_linear, params=_p_linear)


@st.composite
def _p_region(draw, tier, shape, vkind, case):
    key = []
    for s in shape:
        form = draw(st.sampled_from(["int", "neg-int", "full", "slice", "slice", "list", "step", "empty", "rev"]))
        if form == "int":
            key.append(dict(f=form, v=draw(st.integers(0, s - 1))))
        elif form == "neg-int":
            key.append(dict(f=form, v=-draw(st.integers(1, s))))
        elif form == "full":
            key.append(dict(f=form))
        elif form == "slice":
            a = draw(st.integers(0, s - 1))
            key.append(dict(f=form, v=[a, draw(st.integers(a + 1, s))]))
        elif form == "step":  # every second index
            a = draw(st.integers(0, s - 1))
            key.append(dict(f=form, v=[a, draw(st.integers(a + 1, s)), 2]))
        elif form == "empty":  # a range without any index
            a = draw(st.integers(0, s - 1))
            key.append(dict(f=form, v=[a, a, 1]))
        elif form == "rev":  # the whole mode backwards
            key.append(dict(f=form, v=[None, None, -1]))
        else:
            key.append(dict(f=form, v=sorted(draw(st.sets(st.integers(0, s - 1), min_size=1, max_size=s)))))
    return dict(key=key)


def _region_key(p):
    out = []
    for k in p["key"]:
        f = k["f"]
        out.append(iint(p, k["v"]) if f in ("int", "neg-int") else (slice(None) if f == "full" else (
            slice(k["v"][0], k["v"][1]) if f == "slice" else (
                slice(k["v"][0], k["v"][1], k["v"][2]) if f in ("step", "empty", "rev") else list(k["v"])))))
    return tuple(out)


op("read", "getitem-region", lambda X, p, c: X["a"][_region_key(p)], params=_p_region, combine=True)


def _mask(X, p, c):
    out = X["a"].mask(X["b"])
    W = X["b"]
    # values come back in W's stored order (documented): place them at W's subscripts
    D = np.full(tuple(c["shape"]), 0.0)
    hit = np.zeros(tuple(c["shape"]))
    out = np.asarray(out, dtype=float)
    n = W.nnz
    if out.shape != (n, 1):
        return ("mask-shape", out.shape, n)
    for s, v in zip(W.subs[:n], out[:, 0]):
        D[tuple(int(i) for i in s)] = v
        hit[tuple(int(i) for i in s)] += 1
    return (D, hit)


op("read", "mask", _mask, keys=("a", "b"))


def _kt_mask(X, p, c):
    out = np.asarray(_K(p, c).mask(X["a"]), dtype=float)
    W = X["a"]
    D = np.zeros(tuple(c["shape"]))
    if out.shape != (W.nnz, 1):
        return ("mask-shape", out.shape, W.nnz)
    for s, v in zip(W.subs[:W.nnz], out[:, 0]):
        D[tuple(int(i) for i in s)] = v
    return D


op("read", "ktensor-mask", _kt_mask, params=_p_kt_other, accum=True)

# ---------------------------------------------------------------- writes: S[...] = ... (the outcome is the tensor itself)
#
# The engine builds a fresh operand for every stored order, so an assignment may change it in place; what is
# compared between the orders is the tensor the assignment leaves behind (well-formed, no explicit zero after an
# assignment that clears entries, the same array and shape for every stored order - or the same exception).


def _row_cells(draw, shape, own, k, grow):
    """k subscript rows: stored subscripts of the operand, other cells, and (grow) cells just outside the shape"""
    cells = lex_cells(shape)
    rows = []
    for _ in range(k):
        how = draw(st.sampled_from(["own", "own", "cell", "outside"] if grow else ["own", "own", "cell"]))
        if how == "own" and own:
            rows.append(list(own[draw(st.integers(0, len(own) - 1))]))
        elif how == "outside":
            r = list(cells[draw(st.integers(0, len(cells) - 1))])
            m = draw(st.integers(0, len(shape) - 1))
            r[m] = shape[m] + draw(st.integers(0, 1))
            rows.append(r)
        else:
            rows.append(list(cells[draw(st.integers(0, len(cells) - 1))]))
    return rows


@st.composite
def _p_set_subs(draw, tier, shape, vkind, case):
    """S[M] = V: rows of M hit stored entries (overwrite with a nonzero / clear with 0), empty cells (insert /
    no-op) and, one time in three, cells outside the shape (growth).  Rows are distinct 7 times in 8."""
    own = case["a"]["subs"]
    k = draw(st.integers(1, 6))
    rows = _row_cells(draw, shape, own, k, grow=draw(st.integers(0, 2)) == 0)
    if draw(st.integers(0, 7)):
        seen, uniq = set(), []
        for r in rows:
            if tuple(r) not in seen:
                seen.add(tuple(r)), uniq.append(r)
        rows = uniq
    form = draw(st.sampled_from(["vector", "vector", "vector", "scalar"]))
    if form == "scalar":
        v = draw(st.sampled_from([0.0, 0.0, 1.0, -2.0, 2.5]))
        return dict(subs=rows, form=form, vals=[v], as_int=float(v).is_integer() and draw(st.booleans()))
    vals = [0.0 if draw(st.integers(0, 2)) == 0 else draw(gen.values(vkind, nonzero=True)) for _ in rows]
    return dict(subs=rows, form=form, vals=vals)


def _do_set_subs(S, p):
    n = len(p["subs"])
    M = iarr(p, p["subs"]).reshape(n, len(p["subs"][0]))
    if p["form"] == "scalar":
        v = p["vals"][0]
        S[M] = int(v) if p.get("as_int") else float(v)
    else:
        S[M] = arr(p["vals"]).reshape(n, 1)
    return S


op("write", "setitem-subs", lambda X, p, c: _do_set_subs(X["a"], p), params=_p_set_subs, combine=True)


@st.composite
def _p_set_region(draw, tier, shape, vkind, case, rhs_sparse=False):
    """S[R1,..,Rn] = c: every mode addressed by an index, a slice (also open, empty, stepped) or an index list; one
    time in three the region reaches beyond the shape (growth).  rhs_sparse: no integer keys (the right-hand side
    then has one mode per range), the lengths of the ranges give its shape."""
    grow = draw(st.integers(0, 2)) == 0
    key = []
    for s in shape:
        hi = s + 1 if grow and draw(st.booleans()) else s
        forms = ["full", "slice", "slice", "list"] + ([] if rhs_sparse else ["int", "int", "step", "empty"])
        form = draw(st.sampled_from(forms))
        if form == "int":
            key.append(dict(f=form, v=draw(st.integers(0, hi - 1))))
        elif form == "full":
            key.append(dict(f=form))
        elif form == "slice":
            a = draw(st.integers(0, hi - 1))
            key.append(dict(f=form, v=[a, draw(st.integers(a + 1, hi))]))
        elif form == "step":
            a = draw(st.integers(0, s - 1))
            key.append(dict(f=form, v=[a, draw(st.integers(a + 1, s)), 2]))
        elif form == "empty":
            a = draw(st.integers(0, s - 1))
            key.append(dict(f=form, v=[a, a]))
        else:
            key.append(dict(f=form, v=sorted(draw(st.sets(st.integers(0, hi - 1), min_size=1, max_size=hi)))))
    out = dict(key=key)
    if rhs_sparse:
        out["rshape"] = [s if k["f"] == "full" else (k["v"][1] - k["v"][0] if k["f"] == "slice" else len(k["v"]))
                         for k, s in zip(key, shape)]
        out["list_as_array"] = draw(st.booleans())
    else:
        v = draw(st.sampled_from([0.0, 0.0, 1.0, -2.0, 2.5]))
        out["value"], out["as_int"] = v, float(v).is_integer() and draw(st.booleans())
    return out


def _set_key(p):
    out = []
    for k in p["key"]:
        f = k["f"]
        if f == "int":
            out.append(iint(p, k["v"]))
        elif f == "full":
            out.append(slice(None))
        elif f in ("slice", "empty"):
            out.append(slice(k["v"][0], k["v"][1]))
        elif f == "step":
            out.append(slice(k["v"][0], k["v"][1], k["v"][2]))
        else:
            out.append(iarr(p, k["v"]) if p.get("list_as_array") else list(k["v"]))
    return tuple(out)


def _do_set_region(S, p):
    v = p["value"]
    S[_set_key(p)] = int(v) if p.get("as_int") else float(v)
    return S


op("write", "setitem-region", lambda X, p, c: _do_set_region(X["a"], p), params=_p_set_region, combine=True)


@st.composite
def _p_set_region_sparse(draw, tier, shape, vkind, case):
    return draw(_p_set_region(tier, shape, vkind, case, rhs_sparse=True))


def _do_set_region_sparse(X, p, c):
    S = X["a"]
    S[_set_key(p)] = X["b"]
    return S


op("write", "setitem-region-sptensor", _do_set_region_sparse, params=_p_set_region_sparse, keys=("a", "b"),
   bshape=lambda case: case["p"]["rshape"], combine=True)


@st.composite
def _p_set_element(draw, tier, shape, vkind, case):
    own = case["a"]["subs"]
    r = _row_cells(draw, shape, own, 1, grow=draw(st.integers(0, 2)) == 0)[0]
    v = 0.0 if draw(st.integers(0, 2)) == 0 else draw(gen.values(vkind, nonzero=True))
    return dict(sub=r, value=v, as_int=float(v).is_integer() and draw(st.booleans()),
                negative=len(shape) > 1 and draw(st.booleans()) and all(i < n for i, n in zip(r, shape)))


def _do_set_element(S, p, c):
    key = tuple(i - n if p["negative"] else iint(p, i) for i, n in zip(p["sub"], c["shape"]))
    if len(key) == 1:
        key = key[0]  # a 1-way tensor takes S[i] = v
    S[key] = int(p["value"]) if p["as_int"] else float(p["value"])
    return S


op("write", "setitem-element", lambda X, p, c: _do_set_element(X["a"], p, c), params=_p_set_element, combine=True)


@st.composite
def _p_set_seq(draw, tier, shape, vkind, case):
    """2..3 assignments in a row on the same object (subscript arrays / regions / single elements): every later
    one works on the state the earlier ones left behind"""
    steps = []
    for _ in range(draw(st.integers(2, 3))):
        kind = draw(st.sampled_from(["subs", "subs", "region", "element"]))
        sub = dict(subs=_p_set_subs, region=_p_set_region, element=_p_set_element)[kind]
        steps.append(dict(kind=kind, p=draw(sub(tier, shape, vkind, case))))
    return dict(steps=steps)


def _do_step(S, stp, p, c):
    sp = dict(stp["p"], idt=p["idt"]) if p.get("idt") else stp["p"]
    if stp["kind"] == "subs":
        _do_set_subs(S, sp)
    elif stp["kind"] == "region":
        _do_set_region(S, sp)
    else:
        _do_set_element(S, sp, c)


def _do_set_seq(X, p, c):
    S = X["a"]
    for stp in p["steps"]:
        _do_step(S, stp, p, c)
    return S


op("write", "setitem-sequence", _do_set_seq, params=_p_set_seq, combine=True)


@st.composite
def _p_set_sptenmat(draw, tier, shape, vkind, case):
    from .c01 import expected_split, split_spec

    spec = draw(split_spec(len(shape)))
    rd, cd = expected_split(len(shape), spec)
    nr, nc = ref.prod(shape[d] for d in rd), ref.prod(shape[d] for d in cd)
    form = draw(st.sampled_from(["element", "element", "block"]))
    if form == "element":
        r, cc = [draw(st.integers(0, nr - 1))], [draw(st.integers(0, nc - 1))]
    else:
        r = sorted(draw(st.sets(st.integers(0, nr - 1), min_size=1, max_size=min(nr, 3))))
        cc = sorted(draw(st.sets(st.integers(0, nc - 1), min_size=1, max_size=min(nc, 3))))
    return dict(split=spec, form=form, rows=r, cols=cc, value=draw(gen.values(vkind, nonzero=True)),
                vector=form == "block" and draw(st.booleans()))


def _do_set_sptenmat(X, p, c):
    M = X["a"].to_sptenmat(**_kw(p))
    if p["form"] == "element":
        M[iint(p, p["rows"][0]), iint(p, p["cols"][0])] = float(p["value"])
    elif p.get("vector"):
        # round 4: one value per (row, column) pair, as a column (a flat vector is not accepted for every receiver)
        v = np.array([float(p["value"]) * (k + 1) for k in range(len(p["rows"]) * len(p["cols"]))])
        M[iarr(p, p["rows"]), iarr(p, p["cols"])] = v.reshape(-1, 1)
    else:
        M[iarr(p, p["rows"]), iarr(p, p["cols"])] = float(p["value"])
    return M


op("write", "to_sptenmat.setitem", _do_set_sptenmat, params=_p_set_sptenmat)

# ---------------------------------------------------------------- round 4: rejected requests inside write histories
#
# A history of 2..5 assignments of which 1..2 are requests the library rejects (it raises): values that are not a
# column / of the wrong count / a Python list / a numpy scalar for a subscript-array assignment - with and without extra
# subscript columns (order growth) and rows outside the shape (growth); subscript arrays with too few columns, a
# negative entry, a float dtype; a region assignment whose right-hand side is no scalar and no sparse tensor (numpy
# integer scalar, ndarray, None, str, dense tensor) - with and without growth; an open slice for a new mode; too few
# keys; a linear index into a tensor of order >= 2; a sparse right-hand side whose shape does not match an index list.
# After every rejected step the receiver is well-formed, denotes the array it denoted, has the same shape and the same
# stored entries bit for bit (`setitem-history:after-rejected:<kind>:...`), the right-hand side operand too; the
# valid steps that follow work on it, and at the end the tensor is, bit for bit, what the history without the rejected
# steps leaves behind (`setitem-history:rejected-steps-are-not-no-ops`) - and, as for every operation, well-formed
# and the same for every stored order of the receiver.  Only kinds the unchanged library rejects are generated; a
# request that is accepted ends the history unjudged (label `not-rejected-<kind>`).


def _extra_cols(draw, rows, g):
    return [r + [draw(st.integers(0, 1)) for _ in range(g)] for r in rows]


@st.composite
def _p_rejected(draw, tier, shape, vkind, case):
    N = len(shape)
    own = case["a"]["subs"]
    kinds = ["subs-bad-values"] * 4 + ["subs-bad-key", "subs-np-scalar", "region-bad-rhs", "region-bad-rhs",
                                       "region-open-slice-new-mode", "sp-rhs-list-mismatch"]
    if N >= 2:
        kinds += ["region-too-few-keys", "linear-on-multiway"]
    kind = draw(st.sampled_from(kinds))
    if kind in ("subs-bad-values", "subs-bad-key", "subs-np-scalar"):
        k = draw(st.integers(1, 4))
        rows = _row_cells(draw, shape, own, k, grow=draw(st.integers(0, 2)) == 0)
        g = draw(st.sampled_from([0, 0, 0, 1, 2]))
        rows = _extra_cols(draw, rows, g)
        vals = [draw(gen.values(vkind, nonzero=True)) for _ in rows]
        if kind == "subs-bad-values":
            forms = ["count+1", "flat", "list"] + (["row"] if k >= 2 else []) + (["count-1"] if k >= 3 else [])
            form = draw(st.sampled_from(forms))
            if form == "count+1":
                vals = vals + [draw(gen.values(vkind, nonzero=True))]
            elif form == "count-1":
                vals = vals[:-1]
            return dict(kind=kind, subs=rows, g=g, form=form, vals=vals)
        if kind == "subs-np-scalar":
            return dict(kind=kind, subs=rows, g=g, form=draw(st.sampled_from(["int64", "int32", "float32"])),
                        vals=[float(draw(st.sampled_from([0, 1, 3])))])
        forms = ["negative", "float"] + (["fewer-columns"] if N >= 2 else [])
        form = draw(st.sampled_from(forms))
        if form == "fewer-columns":
            rows, g = [r[:N - 1] for r in rows], 0
        elif form == "negative":
            rows[draw(st.integers(0, k - 1))][draw(st.integers(0, N + g - 1))] = -1
        return dict(kind=kind, subs=rows, g=g, form=form, vals=vals)
    if kind == "region-bad-rhs":
        rp = draw(_p_set_region(tier, shape, vkind, case))
        rp["key"] = [k_ for k_ in rp["key"] if k_["f"] != "empty"] if False else rp["key"]
        g = draw(st.sampled_from([0, 0, 1]))
        extra = [dict(f="int", v=draw(st.integers(0, 1))) for _ in range(g)]
        return dict(kind=kind, key=rp["key"] + extra, g=g,
                    form=draw(st.sampled_from(["np-int", "np-int", "ndarray1", "none", "str", "dense"])),
                    value=float(draw(st.sampled_from([0, 1, 3]))))
    if kind == "region-open-slice-new-mode":
        rp = draw(_p_set_region(tier, shape, vkind, case))
        return dict(kind=kind, key=rp["key"] + [dict(f="full")], value=draw(st.sampled_from([0.0, 2.0])))
    if kind == "region-too-few-keys":
        return dict(kind=kind, key=[dict(f="int", v=draw(st.integers(0, shape[m] - 1))) for m in range(N - 1)],
                    value=draw(st.sampled_from([0.0, 2.0])))
    if kind == "linear-on-multiway":
        return dict(kind=kind, index=draw(st.integers(0, ref.prod(shape) - 1)), value=draw(st.sampled_from([0.0, 2.0])))
    # sp-rhs-list-mismatch: one index list per mode (1 in 3: reaching beyond the shape); the right-hand side has one
    # index more / fewer than the list in one mode
    grow = draw(st.integers(0, 2)) == 0
    key = []
    for s_ in shape:
        hi = s_ + 1 if grow and draw(st.booleans()) else s_
        key.append(dict(f="list", v=sorted(draw(st.sets(st.integers(0, hi - 1), min_size=1, max_size=hi)))))
    rshape = [len(k_["v"]) for k_ in key]
    m = draw(st.integers(0, N - 1))
    rshape[m] += 1 if rshape[m] == 1 or draw(st.booleans()) else -1
    return dict(kind=kind, key=key, rshape=rshape, rhs_nonzero=draw(st.booleans()),
                list_as_array=draw(st.booleans()))


def _attempt_rejected(S, q, p):
    """issue the request; returns (exception or None, right-hand side operand or None)"""
    kind = q["kind"]
    rhs = None
    if kind.startswith("subs-"):
        n = len(q["subs"])
        if q["form"] == "float":
            M = np.array(q["subs"], dtype=float).reshape(n, -1)
        else:
            M = iarr(p, q["subs"]).reshape(n, -1)
        if kind == "subs-np-scalar":
            V = np.dtype(q["form"]).type(q["vals"][0])
        elif q.get("form") == "row":
            V = arr(q["vals"]).reshape(1, -1)
        elif q.get("form") == "flat":
            V = arr(q["vals"])
        elif q.get("form") == "list":
            V = [float(v) for v in q["vals"]]
        else:
            V = arr(q["vals"]).reshape(-1, 1)
        key = M
    elif kind == "region-bad-rhs":
        key = _set_key(dict(p, key=q["key"]))
        f = q["form"]
        V = (np.int64(q["value"]) if f == "np-int" else np.array([q["value"]]) if f == "ndarray1" else None
             if f == "none" else "x" if f == "str" else ttb.tensor(np.array([q["value"]])))
        rhs = None
    elif kind in ("region-open-slice-new-mode", "region-too-few-keys"):
        key, V = _set_key(dict(p, key=q["key"])), float(q["value"])
    elif kind == "linear-on-multiway":
        key, V = int(q["index"]), float(q["value"])
    else:
        key = _set_key(dict(p, key=q["key"], list_as_array=q["list_as_array"]))
        if q["rhs_nonzero"]:
            V = ttb.sptensor(np.zeros((1, len(q["rshape"])), dtype=int), np.array([[2.0]]), tuple(q["rshape"]))
        else:
            V = ttb.sptensor(shape=tuple(q["rshape"]))
        rhs = V
    try:
        S[key] = V
    except Exception as e:  # noqa: BLE001
        if _sut_frame(e.__traceback__) == "outside-pyttb":
            raise
        return e, rhs
    return None, rhs


@st.composite
def _p_history(draw, tier, shape, vkind, case):
    nsteps = draw(st.integers(2, 5))
    nrej = draw(st.sampled_from([1, 1, 2]))
    where = set(draw(st.lists(st.integers(0, nsteps - 1), min_size=nrej, max_size=nrej)))
    if draw(st.integers(0, 3)):  # 3 in 4: a valid step follows the last rejected one
        where.discard(nsteps - 1)
        where = where or {0}
    steps = []
    for i in range(nsteps):
        if i in where:
            steps.append(dict(kind="rejected", p=draw(_p_rejected(tier, shape, vkind, case))))
        else:
            kind = draw(st.sampled_from(["subs", "subs", "region", "element"]))
            sub = dict(subs=_p_set_subs, region=_p_set_region, element=_p_set_element)[kind]
            steps.append(dict(kind=kind, p=draw(sub(tier, shape, vkind, case))))
    return dict(steps=steps)


def _do_history(X, p, c):
    ctx = _CUR["ctx"]
    S = X["a"]
    model = ttb.sptensor(np.array(S.subs, copy=True), np.array(S.vals, copy=True), tuple(S.shape)) if S.subs.size else \
        ttb.sptensor(shape=tuple(S.shape))
    import warnings

    for i, stp in enumerate(p["steps"]):
        if stp["kind"] != "rejected":
            # a valid step that grows the tensor beyond what a later step's negative index assumed: same for the model
            with warnings.catch_warnings():
                warnings.simplefilter("ignore")
                _do_step(S, stp, p, c)
                _do_step(model, stp, dict(p, idt=None), c)
            continue
        q = stp["p"]
        kind = q["kind"]
        before = _state_of(S)
        with warnings.catch_warnings():
            warnings.simplefilter("ignore")
            exc, rhs = _attempt_rejected(S, q, p)
        if exc is None:
            ctx.label("not-rejected-" + kind)
            raise Bad()
        ctx.label("rejected-" + kind + ("-" + str(q["form"]) if "form" in q else ""),
                  "rejected-then-valid" if i + 1 < len(p["steps"]) else "rejected-last",
                  *(["rejected-request-names-new-modes"] if q.get("g") else []))
        if not _judge_unchanged(ctx, f"setitem-history:after-rejected:{kind}", before, S):
            raise Bad()  # (recorded) the history ends here: this run has no outcome to compare
        if rhs is not None:
            ok = not ref.sptensor_problems(rhs, allow_explicit_zero=True) and tuple(rhs.shape) == tuple(q["rshape"]) \
                and rhs.nnz == (1 if q["rhs_nonzero"] else 0)
            _once(ctx, ok, f"setitem-history:after-rejected:{kind}:right-hand-side-changed")
    same = (tuple(int(v) for v in S.shape) == tuple(int(v) for v in model.shape)
            and np.asarray(S.subs).shape == np.asarray(model.subs).shape and np.array_equal(S.subs, model.subs)
            and np.asarray(S.vals).shape == np.asarray(model.vals).shape
            and ref.same_exact(np.asarray(S.vals, dtype=float), np.asarray(model.vals, dtype=float)))
    _once(ctx, same, "setitem-history:rejected-steps-are-not-no-ops",
          f"shape {tuple(S.shape)} vs {tuple(model.shape)}; subs {np.asarray(S.subs).tolist()[:6]} vs "
          f"{np.asarray(model.subs).tolist()[:6]}; vals {np.asarray(S.vals).ravel().tolist()[:6]} vs "
          f"{np.asarray(model.vals).ravel().tolist()[:6]}")
    return S


op("rejected", "setitem-history", _do_history, params=_p_history, combine=True)

# ---------------------------------------------------------------- round 4: ill-formed calls of the other operations
#
# One ill-formed argument, everything else valid and - where it can be - broadcast-compatible (a vector / factor of
# length 1 for a longer mode, an operand whose mismatching mode has length 1): if the library raises, the sparse
# operands are afterwards what they were (well-formed, same shape, same stored entries).  Whether the request *must*
# be rejected is C19's question: a call that returns ends the case unjudged (label `not-rejected-<what>`).

ILLFORMED = ["ttv-length", "ttv-mode", "ttm-size", "permute-repeated", "permute-short", "reshape-product",
             "contract-unequal", "scale-length", "mttkrp-rows", "mttkrp-mode", "binary-shape",
             "binary-shape", "extract-outside", "getitem-outside", "to_sptenmat-repeated"]
BINARY = ["add", "sub", "mul", "eq", "lt", "logical_and", "logical_or", "innerprod", "mask", "isequal", "scale"]


@st.composite
def _p_illformed(draw, tier, shape, vkind, case):
    N = len(shape)
    what = draw(st.sampled_from(ILLFORMED))
    d = draw(st.integers(0, N - 1))
    out = dict(what=what, d=d)
    if what in ("ttv-length", "scale-length"):
        out["n"] = 1 if shape[d] > 1 and draw(st.booleans()) else shape[d] + 1
        out["v"] = fl(draw, out["n"], vkind)
    elif what == "ttm-size":
        out["n"] = 1 if shape[d] > 1 and draw(st.booleans()) else shape[d] + 1
        out["m"] = mat(draw, draw(st.integers(1, 2)), out["n"], vkind)
    elif what == "binary-shape":
        bs = list(shape)
        bs[d] = 1 if shape[d] > 1 and draw(st.booleans()) else shape[d] + 1
        out["bshape"] = bs
        out["bop"] = draw(st.sampled_from(BINARY))
        out["b"] = draw(entries(bs, vkind))
    elif what in ("mttkrp-rows", "mttkrp-mode"):
        r = draw(st.integers(1, 2))
        rows = list(shape)
        if what == "mttkrp-rows":
            rows[d] = 1 if shape[d] > 1 and draw(st.booleans()) else shape[d] + 1
        out["U"] = [mat(draw, n, r, vkind) for n in rows]
        out["n"] = draw(st.integers(0, N - 1)) if what == "mttkrp-rows" else N
    elif what in ("extract-outside", "getitem-outside"):
        rows = _row_cells(draw, shape, case["a"]["subs"], draw(st.integers(1, 3)), grow=False)
        rows[draw(st.integers(0, len(rows) - 1))][d] = shape[d] + draw(st.integers(0, 1))
        out["subs"] = rows
    return out


def _illformed_call(S, q, p, c):
    w, d, N = q["what"], q["d"], len(c["shape"])
    if w == "ttv-length":
        return S.ttv(arr(q["v"]), iint(p, d))
    if w == "ttv-mode":
        return S.ttv(np.ones(2), iint(p, N))
    if w == "ttm-size":
        return S.ttm(arr(q["m"]), iint(p, d))
    if w == "permute-repeated":
        return S.permute(iarr(p, [d] + list(range(1, N)) if d != 0 or N == 1 else [1] + list(range(1, N))) if N > 1
                         else iarr(p, [1]))
    if w == "permute-short":
        return S.permute(iarr(p, list(range(N - 1)) if N > 1 else [0, 1]))
    if w == "reshape-product":
        return S.reshape((ref.prod(c["shape"]) + 1,))
    if w == "contract-unequal":
        if N >= 2 and c["shape"][d] != c["shape"][(d + 1) % N]:
            return S.contract(iint(p, d), iint(p, (d + 1) % N))
        return S.contract(iint(p, d), iint(p, d))
    if w == "collapse-mode":
        return S.collapse(iarr(p, [N]))
    if w == "scale-length":
        return S.scale(arr(q["v"]), iarr(p, [d]))
    if w in ("mttkrp-rows", "mttkrp-mode"):
        return S.mttkrp([arr(u) for u in q["U"]], iint(p, q["n"]))
    if w in ("extract-outside", "getitem-outside"):
        M = iarr(p, q["subs"]).reshape(len(q["subs"]), N)
        return S.extract(M) if w == "extract-outside" else S[M]
    if w == "to_sptenmat-repeated":
        return S.to_sptenmat(iarr(p, [d]), iarr(p, [d] + [m for m in range(N) if m != d][1:]))
    if w == "setitem-outside-negative":
        S[tuple([-1] * (N - 1) + [-(c["shape"][-1] + 3)])] = 2.0
        return None
    raise KeyError(w)


def _do_illformed(X, p, c):
    ctx = _CUR["ctx"]
    S, q = X["a"], p
    B = None
    before = {"a": _state_of(S)}
    if q["what"] == "binary-shape":
        B = build_sp(q["bshape"], q["b"])
        before["b"] = _state_of(B)
    try:
        if B is not None:
            n = q["bop"]
            r = (ARITH[n](S, B) if n in ARITH else CMP[n](S, B) if n in CMP else S.scale(B, iarr(p, list(range(len(c["shape"])))))
                 if n == "scale" else getattr(S, n)(B))
            if n == "isequal" and r is False:
                raise Bad()  # isequal of different shapes is a valid question
        else:
            r = _illformed_call(S, q, p, c)
    except Bad:
        raise
    except Exception as e:  # noqa: BLE001
        if _sut_frame(e.__traceback__) == "outside-pyttb":
            raise
        what = q["what"] + ("-" + q["bop"] if B is not None else "")
        ctx.label("rejected-" + what)
        _judge_unchanged(ctx, f"ill-formed-call:{what}:receiver-after-exception", before["a"], S)
        if B is not None:
            _judge_unchanged(ctx, f"ill-formed-call:{what}:other-operand-after-exception", before["b"], B)
        return ("rejected",)
    ctx.label("not-rejected-" + q["what"] + ("-" + q["bop"] if B is not None else ""))
    raise Bad()


op("rejected", "ill-formed-call", _do_illformed, params=_p_illformed)



def _do_sptenmat_rejected(X, p, c):
    """M[key] = v with a key that is no pair (a bare index, three indices): rejected; M stays what it was; then the
    valid assignment of `to_sptenmat.setitem`"""
    ctx = _CUR["ctx"]
    M = X["a"].to_sptenmat(**_kw(p))
    before = (np.array(M.subs, copy=True), np.array(M.vals, copy=True), tuple(M.tshape), list(M.rdims), list(M.cdims))
    for key in ((p["rows"][0],) * 3, p["rows"][0]) if p["bad"] == "both" else (((p["rows"][0],) * 3,) if p["bad"] == "three"
                                                                                  else (p["rows"][0],)):
        try:
            M[key] = 2.0
        except Exception as e:  # noqa: BLE001
            if _sut_frame(e.__traceback__) == "outside-pyttb":
                raise
        else:
            ctx.label("not-rejected-sptenmat-key")
            raise Bad()
        probs = sptenmat_problems(M, allow_explicit_zero=True)
        same = not probs and np.array_equal(M.subs, before[0]) and np.asarray(M.subs).shape == before[0].shape and \
            np.array_equal(M.vals, before[1]) and tuple(M.tshape) == before[2] and list(M.rdims) == before[3] and \
            list(M.cdims) == before[4]
        if not _once(ctx, same, "sptenmat-setitem-rejected:receiver-changed", str(probs)):
            raise Bad()
    if p["form"] == "element":
        M[p["rows"][0], p["cols"][0]] = float(p["value"])
    else:
        M[iarr(p, p["rows"]), iarr(p, p["cols"])] = float(p["value"])
    return M


@st.composite
def _p_sptenmat_rejected(draw, tier, shape, vkind, case):
    return dict(draw(_p_set_sptenmat(tier, shape, vkind, case)), bad=draw(st.sampled_from(["three", "bare", "both"])))


op("rejected", "sptenmat-setitem-rejected", _do_sptenmat_rejected, params=_p_sptenmat_rejected)

# ---------------------------------------------------------------- further public operations on a sparse operand

op("structure", "allsubs", lambda X, p, c: X["a"].allsubs())
op("structure", "deepcopy", lambda X, p, c: __import__("copy").deepcopy(X["a"]))
op("structure", "spmatrix.from_array",
   lambda X, p, c: ttb.sptenmat.from_array(X["a"].spmatrix(), arr([0], int), arr([1], int), tuple(c["shape"])),
   shapes=lambda tier: gen.shapes(tier, min_order=2, **dict(_limits(tier), max_order=2)), combine=True)
op("sptenmat", "to_sptenmat.pos", lambda X, p, c: +X["a"].to_sptenmat(**_kw(p)), params=_p_split)


def _subdims(X, p, c):
    """subdims returns storage positions (order dependent by design): compared as the entries they select"""
    S = X["a"]
    loc = np.asarray(S.subdims(list(_region_key(p)))).astype(int).reshape(-1)
    D = np.zeros(tuple(c["shape"]))
    cnt = np.zeros(tuple(c["shape"]))
    for i in loc:
        D[tuple(int(v) for v in S.subs[i])] += float(S.vals[i, 0])
        cnt[tuple(int(v) for v in S.subs[i])] += 1
    return (D, cnt)


def _export_import(X, p, c):
    import os
    import tempfile

    fd, path = tempfile.mkstemp(suffix=".tns", dir=os.environ.get("TMPDIR", "/tmp"))
    os.close(fd)
    try:
        ttb.export_data(X["a"], path)
        return ttb.import_data(path)
    finally:
        os.unlink(path)


for _n, _f in CMP.items():
    op("compare-tensor", f"tensor-{_n}", (lambda f: lambda X, p, c: f(_T(p, c), X["a"]))(_f), params=_p_dense_other)
for _n in ("logical_and", "logical_or", "logical_xor"):
    op("logical", f"tensor-{_n}", (lambda n: lambda X, p, c: getattr(_T(p, c), n)(X["a"]))(_n),
       params=_p_dense_other)

op("read", "subdims", _subdims, params=_p_region)
op("io", "export-import", _export_import)

# ---------------------------------------------------------------- holders built around a sparse tensor


@st.composite
def _p_ttensor_core(draw, tier, shape, vkind, case):
    outs = [draw(st.integers(1, 3)) for _ in shape]
    return dict(factors=[mat(draw, o, s, vkind) for o, s in zip(outs, shape)], outs=outs)


def _tt_core(X, p, c):
    return ttb.ttensor(X["a"], [arr(f).reshape(o, s) for f, o, s in zip(p["factors"], p["outs"], c["shape"])])


op("holder", "ttensor-core.full", lambda X, p, c: _tt_core(X, p, c).full(), params=_p_ttensor_core, accum=True,
   shapes=lambda tier: gen.shapes(tier, min_order=2, **dict(_limits(tier), max_size=3, max_order=3)))
op("holder", "ttensor-core.norm", lambda X, p, c: _tt_core(X, p, c).norm(), params=_p_ttensor_core, accum=True,
   shapes=lambda tier: gen.shapes(tier, min_order=2, **dict(_limits(tier), max_size=3, max_order=3)))
op("holder", "sumtensor-part.full", lambda X, p, c: ttb.sumtensor([_T(p, c), X["a"]]).full(), params=_p_dense_other)
op("holder", "sumtensor-first.full", lambda X, p, c: ttb.sumtensor([X["a"], _T(p, c)]).full(), params=_p_dense_other)


# --------------------------------------------------------------------------
# case strategy and engine
# --------------------------------------------------------------------------


VSCALES = [1.0, 1.0, 1.0, 1e-6, 1e6, 1e-12, 1e-160, 1e-200, 1e200]
EXTREME = (1e-160, 1e-200, 1e200)
NARROW = ("int8", "uint8")
_PARAM_DATA_KEYS = ("T", "vecs", "mats", "factor", "weights", "factors", "core", "U")


def _narrow_value(v, dt):
    """-6..6 -> +-(4, 8, 16, 32, 64, 64 | -128): values of a narrow integer dtype whose products wrap around"""
    m = 2 ** min(int(abs(v)) + 1, 7)
    if dt == "uint8":
        return float(m)
    if v < 0:
        return float(-m)
    return float(min(m, 64))


def _scale_nested(x, f):
    if isinstance(x, list):
        return [_scale_nested(v, f) for v in x]
    if isinstance(x, float):
        # values copied from an (already scaled) operand stay as they are: every input is a finite real number
        return x * f if x == 0.0 or 1e-100 < abs(x) < 1e100 else x
    return x


def _scale_params(p, f):
    """scale the numeric data of an operation's parameters (vectors, matrices, the dense / Kruskal / Tucker operand)"""
    for k in _PARAM_DATA_KEYS:
        if isinstance(p.get(k), list):
            p[k] = _scale_nested(p[k], f)


@st.composite
def family_case(draw, tier, fam):
    name = draw(st.sampled_from(FAMILIES[fam]))
    O = OPS[name]
    shape = list(draw(O.shapes(tier) if O.shapes else default_shapes(tier)))
    vkind = draw(st.sampled_from(["int", "float"]))
    case = dict(op=name, shape=shape, vkind=vkind)
    if O.keys == ("a", "b") and O.bshape is None:
        case["a"], case["b"] = draw(entries_pair(shape, vkind))
    else:
        case["a"] = draw((O.ents or entries)(shape, vkind))
    # data magnitudes (order independence is scale-free; the accumulation tolerance is relative to the magnitudes).
    # Extreme dynamic range: 1e-200 / 1e-160 / 1e+200 - products of two such values underflow to exactly zero (all of
    # them / some of them) or overflow; the second operand and the numeric parameters are then scaled the same way, the
    # inverse way (quotients underflow) or not at all
    vscale = draw(st.sampled_from(VSCALES)) if vkind == "float" else 1.0
    case["vscale"] = vscale
    extreme = vscale in EXTREME
    bscale = pscale = vscale
    if extreme:
        bscale = draw(st.sampled_from([vscale, vscale, 1.0 / vscale]))
        pscale = draw(st.sampled_from([vscale, vscale, 1.0 / vscale, 1.0]))
        case["bscale"], case["pscale"] = bscale, pscale
    if vscale != 1.0:
        for k in ("a", "b"):
            if k in case:
                f = vscale if k == "a" else bscale
                case[k]["vals"] = [v * f for v in case[k]["vals"]]
    # narrow integer dtypes whose products (and sums) wrap around, also to exactly zero: 16 * 16 in int8 / uint8
    if vkind == "int" and O.build is None and draw(st.integers(0, 5)) == 0:
        dt = draw(st.sampled_from(["int8", "int8", "uint8"]))
        for k in ("a", "b"):
            if k in case:
                case[k]["vals"] = [_narrow_value(v, dt) for v in case[k]["vals"]]
                case[k]["dtype"] = dt
    case["p"] = draw(O.params(tier, shape, vkind, case)) if O.params else {}
    if extreme and pscale != 1.0:
        _scale_params(case["p"], pscale)
    if O.keys == ("a", "b") and O.bshape is not None:
        case["b"] = draw(entries(O.bshape(case), vkind))
        if extreme:
            case["b"]["vals"] = [v * bscale for v in case["b"]["vals"]]
    # value dtypes: integer-valued operands are held in int64 one time in three, independently of each other
    if vkind == "int" and O.build is None:
        for k in O.keys:
            if "dtype" not in case[k] and draw(st.integers(0, 2)) == 0:
                case[k]["dtype"] = "int64"
    if O.build is None:
        for k in O.keys:
            if draw(st.integers(0, 3)) == 0:
                case[k]["npshape"] = True
    # round 4: float data held in single precision (values that a float32 holds exactly, so the operand denotes the same
    # array; accumulations are then judged with a single-precision bound)
    if vkind == "float" and O.build is None and not extreme and vscale != 1e-12 and draw(st.integers(0, 5)) == 0:
        for k in O.keys:
            case[k]["vals"] = [float(np.float32(v)) for v in case[k]["vals"]]
            if draw(st.integers(0, 3)) > 0:
                case[k]["dtype"] = "float32"
    # round 4: the same operands / index arguments in another presentation, the same call with the root logger at DEBUG
    for k in O.keys:
        if draw(st.integers(0, 2)) == 0:
            case[k]["pres"] = draw(presentation(len(_shape_of_key(O, case, k))))
    if draw(st.integers(0, 3)) == 0:
        case["idt"] = draw(st.sampled_from(["int32", "int32", "uint8", "uint16", "uint64", "int16", "list", "tuple",
                                            "bare-int"]))
    if draw(st.integers(0, 5)) == 0:
        case["env"] = "debug-log"
    if draw(st.integers(0, 3)) == 0:
        case["strided_args"] = True
    orders = {}
    for k in O.keys:
        orders[k] = draw(orders_for(len(case[k]["subs"])))
    if len(O.keys) == 2:
        orders["joint"] = [[draw(st.integers(0, 10**6)), draw(st.integers(0, 10**6))] for _ in range(6)]
    case["orders"] = orders
    return case


def _shape_of_key(O, case, k):
    if k == "b" and O.bshape is not None:
        return O.bshape(case)
    return case["shape"]


def _empty_region_inside(case):
    """S[R1,..,Rn] = c where some range holds no index and no index of any range lies outside the shape"""
    key = case["p"].get("key", [])
    if not any(k["f"] == "empty" for k in key):
        return False
    for k, n in zip(key, case["shape"]):
        v = k.get("v")
        idx = [] if v is None else ([v] if isinstance(v, int) else (v[:2] if k["f"] in ("slice", "step", "empty") else v))
        hi = [i - 1 if (k["f"] in ("slice", "step", "empty") and j == 1) else i for j, i in enumerate(idx)]
        if any(i >= n for i in hi):
            return False
    return True


def _alias_round(ctx, name, X, r):
    """several live objects: the operands and the object an operation handed back are edited in place one after the
    other through the public interface (S[subs] = v, M[r, c] = v, T[...] = B, a[...] = B); every other one must stay
    exactly what it was (`<op>:<object>:changed-by:edit-of-<other>`).  Not for the assignments, which hand back
    their operand."""
    from ._live import Live, _is_scipy

    if not isinstance(r, (ttb.sptensor, ttb.sptenmat, ttb.tensor, ttb.tenmat, np.ndarray)) and not _is_scipy(r):
        return
    if any(r is x for x in X.values()):
        return
    live = Live(ctx, prefix=name + ":")
    for k, x in X.items():
        if isinstance(x, ttb.sptensor):
            live.keep("operand-" + k, x)
    if not live.items:
        return
    live.keep("result", r)
    live.edit_all()


_CUR["ctx"] = None


def _debug_logging():
    """the process of a caller who debugs: root logger at DEBUG with a handler that drops the records, no
    logging.disable() in force (core.evaluate silences logging that way)"""
    root = logging.getLogger()
    env = (root.level, root.manager.disable, logging.NullHandler())
    root.addHandler(env[2])
    root.setLevel(logging.DEBUG)
    logging.disable(logging.NOTSET)
    return env


def _restore_logging(env):
    if env is not None:
        root = logging.getLogger()
        root.removeHandler(env[2])
        root.setLevel(env[0])
        logging.disable(env[1])


def _state_of(S):
    """what a sparse tensor is, read from its attributes (copies)"""
    return (tuple(int(v) for v in S.shape), np.array(S.subs, copy=True), np.array(S.vals, copy=True))


def _judge_unchanged(ctx, clause, before, S, strict=True):
    """after a rejected request: S is well-formed, denotes the array it denoted before (`values-changed`), has the
    shape it had (`shape-changed`) and the stored entries it had, bit for bit (`storage-changed`).  Returns False
    when S cannot be used any further."""
    shape0, subs0, vals0 = before
    if ref.prod(shape0) > 10**6 or subs0.shape[0] > FAST_ABOVE:  # large / huge operands: the storage itself
        same = (tuple(int(v) for v in S.shape) == shape0 and np.asarray(S.subs).shape == subs0.shape
                and np.array_equal(S.subs, subs0) and np.asarray(S.vals).shape == vals0.shape
                and np.array_equal(S.vals, vals0, equal_nan=True))
        return _once(ctx, same, clause + ":storage-changed", "large operand")
    probs = ref.sptensor_problems(S, allow_explicit_zero=True)
    if probs:
        _malformed(ctx, clause, probs, S)
        return False
    shape1 = tuple(int(v) for v in S.shape)
    D0 = np.zeros(shape0)
    for r_, v in zip(subs0.reshape(-1, len(shape0)) if subs0.size else [], vals0.reshape(-1)):
        D0[tuple(int(i) for i in r_)] = v
    D1 = ref.den(S)
    # the same array: the old array is the leading block of the new one (first index of every new mode) and nothing
    # else is stored - a changed shape alone is reported as `shape-changed`
    same_vals = len(shape1) >= len(shape0) and all(a <= b for a, b in zip(shape0, shape1))
    if same_vals:
        block = tuple(slice(0, n) for n in shape0) + (0,) * (len(shape1) - len(shape0))
        same_vals = ref.same_exact(np.asarray(D1[block], dtype=float).reshape(shape0), D0) and \
            np.count_nonzero(D1) == np.count_nonzero(D0)
    if not _once(ctx, same_vals, clause + ":values-changed", f"shape {shape0} -> {shape1}; {_brief(D0)} -> {_brief(D1)}"):
        return False
    if not _once(ctx, shape1 == shape0, clause + ":shape-changed", f"{shape0} -> {shape1}"):
        return False
    if strict:
        same = (np.asarray(S.subs).shape == subs0.shape and np.array_equal(S.subs, subs0)
                and np.asarray(S.vals).shape == vals0.shape and S.vals.dtype == vals0.dtype
                and ref.same_exact(np.asarray(S.vals, dtype=float), np.asarray(vals0, dtype=float)))
        _once(ctx, same, clause + ":storage-changed",
              f"subs {subs0.tolist()[:6]} -> {np.asarray(S.subs).tolist()[:6]}; vals {vals0.ravel().tolist()[:6]} -> "
              f"{np.asarray(S.vals).ravel().tolist()[:6]}")
    return True


def _run(ctx, case):
    O = OPS[case["op"]]
    name = O.name
    tol = tolerance(O, case)
    nmax = max(len(case[k]["subs"]) for k in O.keys)
    ctx.label("op-" + name, *gen.shape_classes(case["shape"]), "v-" + case["vkind"],
              "nnz" + (str(nmax) if nmax <= 4 else "5+"), f"vscale-{case.get('vscale', 1.0):g}",
              *([f"pscale-{case['pscale']:g}"] if "pscale" in case else []),
              "dtypes-" + "/".join(case[k].get("dtype", "float64") for k in O.keys),
              "numpy-int-shape" if any(case[k].get("npshape") for k in O.keys) else "python-int-shape")
    overflow = O.accum and max(case.get("vscale", 1.0), case.get("bscale", 1.0), case.get("pscale", 1.0)) >= 1e100
    base = None
    base_combo = None
    nrun = 0
    ok_runs = 0
    _CUR["ctx"] = ctx
    runs = combos(case, list(O.keys))
    # round 4 (presentation): the first run gets every operand and argument in the library's favourite form (int64
    # subscripts, C-contiguous, tuple of ints); later runs get operand a (odd runs) / operand b (runs 2, 3 mod 4) and
    # the index arguments (odd runs) in the generated other presentation.  (environment): odd runs execute with the
    # root logger at DEBUG.  Any difference between two runs is a violation, whichever of order / presentation /
    # environment caused it.
    has_alt = any(case[k].get("pres") for k in O.keys) or bool(case.get("idt")) or bool(case.get("env")) or \
        bool(case.get("strided_args"))
    if has_alt and len(runs) < 4:
        runs = (runs * 4)[:4 if len(O.keys) == 2 else 2]
    if has_alt:
        ctx.label(*["subs-" + case[k]["pres"]["subs_dtype"] for k in O.keys if case[k].get("pres")],
                  *["via-coo" for k in O.keys if (case[k].get("pres") or {}).get("via") == "coo"
                    and len(_shape_of_key(O, case, k)) == 2],
                  *["layout-" + case[k]["pres"]["layout"] for k in O.keys if case[k].get("pres")],
                  *(["index-args-" + case["idt"]] if case.get("idt") else []),
                  *(["env-" + case["env"]] if case.get("env") else []),
                  *(["strided-read-only-args"] if case.get("strided_args") else []))
    for irun, combo in enumerate(runs):
        alt = {k: bool(case[k].get("pres")) and bool(irun >> j & 1) for j, k in enumerate(O.keys)}
        if O.build is not None:  # raw (subscripts, values) for from_aggregator / sptenmat(): the subscript dtype
            X = {k: O.build(_shape_of_key(O, case, k), case[k], combo[k]) for k in O.keys}
            for k in O.keys:
                if alt[k] and isinstance(X[k], tuple):
                    X[k] = (X[k][0].astype(case[k]["pres"]["subs_dtype"]), X[k][1])
        else:
            X = {k: build_sp(_shape_of_key(O, case, k), case[k], combo[k], alt=alt[k]) for k in O.keys}
        p_run = dict(case["p"], alt=True, idt=case.get("idt")) if irun & 1 else case["p"]
        snap = {k: _state_of(x) for k, x in X.items() if isinstance(x, ttb.sptensor)}
        nrun += 1
        env = _debug_logging() if case.get("env") == "debug-log" and irun & 1 else None
        _CUR["strided"] = bool(case.get("strided_args")) and bool(irun & 1)
        try:
            r = O.call(X, p_run, case)
        except Bad:
            _restore_logging(env)
            _CUR["strided"] = False
            continue
        except Exception as e:  # noqa: BLE001
            _restore_logging(env)
            _CUR["strided"] = False
            frame = _sut_frame(e.__traceback__)
            if frame == "outside-pyttb":
                raise
            out = ("raises", type(e).__name__, frame, str(e)[:160])
            # round 4 (state after a rejected request): whatever an operation does on its way to an exception, the
            # operands the caller still holds are what they were - well-formed, same shape, same stored entries
            for k, before in (snap.items() if name not in ("setitem-sequence", "setitem-history") else ()):
                _judge_unchanged(ctx, f"{name}:operand-{k}-after-exception", before, X[k])
        else:
            _restore_logging(env)
            _CUR["strided"] = False
            try:
                out = ("value", summarize(ctx, O, r))
                ok_runs += 1
            except Bad:
                continue
            if nrun == 1 and not case.get("was_big"):
                _alias_round(ctx, name, X, r)
            if name == "setitem-region" and _empty_region_inside(case):
                # degenerate request: a region without any cell, inside the shape - the assignment is a no-op
                want = ("sptensor", tuple(case["shape"]), dense_of(case["shape"], case["a"]))
                _once(ctx, same_outcome(out[1], want, 0.0), "setitem-region:empty-region-is-a-no-op",
                      f"{_brief(out[1])[:150]} vs {_brief(want)[:150]}")
        if base is None:
            base, base_combo = out, combo
            continue
        if out[0] != base[0] or (out[0] == "raises" and out[1] != base[1]):
            exc = out if out[0] == "raises" else base
            ctx.fail("exception", f"{name}:raises-for-some-orders:{exc[1]}@{exc[2]}",
                     f"order {combo}: {_brief(out)[:150]} | order {base_combo}: {_brief(base)[:150]}")
            break
        if out[0] == "value" and not same_outcome(out[1], base[1], tol, overflow):
            _once(ctx, False, f"{name}:order-dependent",
                  f"order {combo}: {_brief(out[1])[:170]} | order {base_combo}: {_brief(base[1])[:170]}")
            break
    if base is not None and base[0] == "raises":
        ctx.label("raises-" + base[1])
    ctx.label(f"orders-run-{'1' if nrun == 1 else ('2-6' if nrun <= 6 else ('7-24' if nrun <= 24 else '25+'))}")
    ctx.nt = nmax >= 2 and ok_runs >= 2


# --------------------------------------------------------------------------
# round 3: large operands.  Vectorised implementations process nonzeros / rows in blocks (1e4, 16384 entries, 2**22
# row comparisons); a few cases per run have 1e4..5e4 stored nonzeros (operations that are linear in the number of
# nonzeros) or 900..1700 stored nonzeros on ~1800 cells (operations that match the rows of two subscript lists or of
# the list of all subscripts).  The case is stored in compact form: the operation's parameters are drawn for a small
# proxy operand, the operand itself (proxy entries + entries generated from a seed) and three stored orders (reversed,
# two generated) come from `_expand_large`.
# --------------------------------------------------------------------------

LARGE_LINEAR_SHAPES = [(40, 40, 40), (30, 50, 35), (250, 300), (25, 20, 10, 12), (60000,), (40, 1, 40, 40)]
LARGE_PAIR_SHAPES = [((12, 12, 12), (900, 1600)), ((40, 45), (1200, 1750)), ((6, 7, 6, 7), (800, 1600)),
                     ((2500,), (1700, 2400))]
LARGE_LINEAR_OPS = [
    "copy", "neg", "ones", "full", "double", "nnz", "norm", "find", "squeeze", "permute", "reshape", "elemfun",
    "to_sptenmat", "to_sptenmat.to_sptensor", "to_sptenmat.double", "to_sptenmat.full", "to_sptenmat.norm",
    "to_sptenmat.isequal", "from_aggregator", "ttv", "ttv", "ttm", "ttm", "contract", "collapse", "collapse",
    "scale-ndarray", "mttkrp", "mttkrp", "mul-tensor", "tensor-mul", "add-tensor", "sub-tensor", "innerprod-tensor",
    "tensor-innerprod", "logical_and-tensor", "mul-scalar", "div-scalar", "add-scalar", "scalar-mul", "extract",
    "getitem-subs", "getitem-linear", "getitem-region", "subdims", "ktensor-mask", "setitem-subs", "setitem-region",
    "setitem-element", "innerprod-ktensor", "ktensor-innerprod", "innerprod-ttensor", "mul-ktensor", "ktensor-mul",
    "ttensor-core.full", "sumtensor-part.full", "export-import", "deepcopy", "spmatrix", "spmatrix.from_array",
]
LARGE_PAIR_OPS = (
    [f"{n}-sptensor" for n in list(ARITH) + list(CMP) + ["logical_and", "logical_or", "logical_xor", "innerprod",
                                                         "isequal"]]
    + ["mask", "logical_not", "logical_not"] + [f"{n}-scalar" for n in CMP] + [f"{n}-tensor" for n in CMP]
    + ["logical_or-tensor", "logical_xor-tensor", "tensor-eq", "tensor-lt"])
_DENSE_OTHER = _p_dense_other


@st.composite
def _proxy_entries(draw, shape, vkind):
    """a few entries of a large operand, drawn by Hypothesis (parameters that refer to stored entries use these)"""
    n = draw(st.integers(1, 4))
    subs = sorted({tuple(draw(st.integers(0, s - 1)) for s in shape) for _ in range(n)})
    return dict(subs=[list(x) for x in subs],
                vals=draw(st.lists(gen.values(vkind, nonzero=True), min_size=len(subs), max_size=len(subs))))


def _large_admissible(name, shape):
    O = OPS[name]
    if name in ("spmatrix", "spmatrix.from_array"):
        return len(shape) == 2
    if name == "contract":
        return len(shape) >= 2 and len(set(shape)) < len(shape) and max(shape) <= 300
    if name == "mttkrp" or name.startswith("ttensor-core"):
        return len(shape) >= 2 and max(shape) <= 50  # one factor matrix per mode is drawn by Hypothesis
    if O.params is not None and O.params is not _DENSE_OTHER:
        return max(shape) <= 300  # vectors / matrices along a mode are drawn by Hypothesis
    return True


@st.composite
def large_case(draw, tier, kind):
    """compact large case: one operand (pair of operands) and several operations with their parameters"""
    from ._live import run_salt

    raw = draw(st.integers(0, 2**32 - 1))
    seed = (raw ^ run_salt()) & 0xFFFFFFFF
    rng = np.random.RandomState(seed)
    dups = False
    if kind == "linear":
        shape = list(LARGE_LINEAR_SHAPES[rng.randint(len(LARGE_LINEAR_SHAPES))])
        lo, hi = [(10001, 12000), (16385, 20000), (20001, 50000)][rng.randint(3)]
        nnz = min(int(rng.randint(lo, hi + 1)), int(0.8 * ref.prod(shape)))
        dups = rng.randint(5) == 0
        pool = ["from_aggregator"] * 3 if dups else [n for n in LARGE_LINEAR_OPS if n != "from_aggregator"
                                                     and _large_admissible(n, shape)]
        k = 3 if dups else 6
    else:
        shape, (lo, hi) = LARGE_PAIR_SHAPES[rng.randint(len(LARGE_PAIR_SHAPES))]
        shape, nnz = list(shape), int(rng.randint(lo, hi + 1))
        pool, k = LARGE_PAIR_OPS, 3
    names = [pool[i] for i in rng.choice(len(pool), size=min(k, len(pool)), replace=False)]
    vkind = draw(st.sampled_from(["int", "float"]))
    case = dict(shape=shape, vkind=vkind, vscale=1.0, big=dict(seed=seed, nnz=nnz, kind=kind, simplest=raw == 0, dups=dups))
    case["a"] = draw(_proxy_entries(shape, vkind))
    if any(OPS[n].keys == ("a", "b") for n in names):
        case["b"] = draw(_proxy_entries(shape, vkind))
    ops = []
    for n in names:
        O = OPS[n]
        if O.params is _DENSE_OTHER:
            p_ = dict(Tseed=int(rng.randint(2**31 - 1)))
        else:
            p_ = draw(O.params(tier, shape, vkind, case)) if O.params else {}
        ops.append(dict(op=n, p=p_))
    case["ops"] = ops
    return case


_EXPANDED = {}


def _big_entries(rng, shape, vkind, nnz, proxy, dups=False, like=None):
    """canonical entry list (distinct subscripts in row-lexicographic order; with dups: some repeated, adjacent) holding
    the proxy entries and nnz generated ones; like: another entry list, half of whose subscripts are reused with equal /
    negated / unrelated values (the overlap of two operands)"""
    ncell = ref.prod(shape)
    have = {}
    for s_, v in zip(proxy["subs"], proxy["vals"]):
        have[int(np.ravel_multi_index(tuple(s_), tuple(shape)))] = float(v)

    def val():
        if vkind == "int":
            return float(rng.choice([-6, -5, -4, -3, -2, -1, 1, 2, 3, 4, 5, 6]))
        return float(10.0 ** rng.uniform(-3, 3) * rng.choice([-1.0, 1.0]))

    if like is not None:
        keys = [int(np.ravel_multi_index(tuple(s_), tuple(shape))) for s_ in like["subs"]]
        for i in rng.choice(len(keys), size=min(len(keys), nnz // 2), replace=False):
            rel = rng.randint(3)
            have.setdefault(keys[i], like["vals"][i] if rel == 0 else (-like["vals"][i] if rel == 1 else val()))
    want = min(ncell, nnz + len(have))
    cand = rng.choice(ncell, size=min(ncell, nnz), replace=False)
    if vkind == "int":
        cv = rng.choice([-6.0, -5.0, -4.0, -3.0, -2.0, -1.0, 1.0, 2.0, 3.0, 4.0, 5.0, 6.0], size=len(cand))
    else:
        cv = 10.0 ** rng.uniform(-3, 3, size=len(cand)) * rng.choice([-1.0, 1.0], size=len(cand))
    for k, v in zip(cand.tolist(), cv.tolist()):
        if len(have) >= want:
            break
        have.setdefault(k, v)
    keys = sorted(have)
    subs = np.array(np.unravel_index(np.array(keys, dtype=np.int64), tuple(shape))).T.tolist()
    vals = [have[k] for k in keys]
    if dups:
        s2, v2 = [], []
        for s_, v in zip(subs, vals):
            s2.append(s_), v2.append(v)
            if rng.randint(8) == 0:
                s2.append(list(s_)), v2.append(-v if rng.randint(2) else val())
        subs, vals = s2, v2
    return dict(subs=subs, vals=vals)


def _expand_large(case):
    """the full operands and stored orders of a compact large case (cached); every other case is returned as it is"""
    if "big" not in case:
        return case
    big = case["big"]
    key = canon_key(case)
    hit = _EXPANDED.get(key)
    if hit is not None:
        return hit
    shape = case["shape"]
    rng = np.random.RandomState(int(big["seed"]) ^ 0x5EED)
    out = {k: v for k, v in case.items() if k not in ("big", "ops")}
    out["was_big"] = True
    out["a"] = dict(case["a"], **_big_entries(rng, shape, case["vkind"], big["nnz"], case["a"], dups=big.get("dups", False)))
    orders = {}
    if "b" in case:
        nb = int(rng.randint(int(0.7 * big["nnz"]), big["nnz"] + 1))
        out["b"] = dict(case["b"], **_big_entries(rng, shape, case["vkind"], nb, case["b"], like=out["a"]))
        orders["joint"] = [[1, 2], [2, 1]]
    for k in ("a", "b"):
        if k in out:
            n = len(out[k]["subs"])
            orders[k] = [list(range(n - 1, -1, -1)), rng.permutation(n).tolist(), rng.permutation(n).tolist()]
    out["orders"] = orders
    if len(_EXPANDED) > 4:
        _EXPANDED.clear()
    _EXPANDED[key] = out
    return out


def canon_key(case):
    from ..core import canon

    return canon({k: v for k, v in case.items() if k not in ("orders", "ops", "op", "p")})


def _large_sub(case, k):
    """the k-th operation of a compact large case as an ordinary (expanded) case"""
    full = _expand_large(case)
    sub = dict(full, op=case["ops"][k]["op"], p=case["ops"][k]["p"])
    O = OPS[sub["op"]]
    if len(O.keys) == 2:  # two large operands: identity and one other order each, all four combinations
        sub["orders"] = dict(full["orders"], a=full["orders"]["a"][1:2], b=full["orders"]["b"][:1])
    return sub


def _run_large(ctx, case):
    if case["big"].get("simplest"):
        ctx.skip("simplest-example-is-the-same-in-every-shard")
    full = _expand_large(case)
    n = len(full["a"]["subs"])
    ctx.label("big-" + case["big"]["kind"], "big-shape-" + "x".join(str(v) for v in case["shape"]),
              "stored-" + ("<=1e4" if n <= 10000 else ("<=16384" if n <= 16384 else ">16384")),
              "repeated-subscripts" if case["big"].get("dups") else "distinct-subscripts")
    nt = False
    for k in range(len(case["ops"])):
        _run(ctx, _large_sub(case, k))
        nt = nt or bool(ctx.nt)
    ctx.nt = nt


cell("C06/large-linear", strategy=lambda tier: large_case(tier, "linear"), quick=4, thorough=20, shards=(1, 4))(_run_large)
cell("C06/large-pairs", strategy=lambda tier: large_case(tier, "pairs"), quick=3, thorough=16, shards=(1, 4))(_run_large)


# --------------------------------------------------------------------------
# round 3: shapes that cannot be expanded - modes longer than 2**40 / 2**53 / 2**60, more than 2**63 cells, stored
# subscripts at the ends of the modes and just above 2**53.  Integer values (exact comparison); sparse results are
# compared as sets of (subscript, value) entries.  Only operations whose work and result are proportional to the
# number of stored entries (an operation that would mark every empty position cannot be run at this size).
# --------------------------------------------------------------------------

HUGE_MODES = [2**40 + 7, 2**53 + 5, 2**53 + 5, 2**60 + 1, 2**62]
HUGE_OPS_1 = ["copy", "pos", "neg", "ones", "nnz", "norm", "permute", "elemfun", "to_sptenmat", "to_sptenmat.to_sptensor",
              "to_sptenmat.nnz", "to_sptenmat.copy", "to_sptenmat.isequal", "to_sptenmat.norm", "from_aggregator",
              "deepcopy", "mul-scalar", "isequal-self"]
HUGE_OPS_2 = ["add-sptensor", "sub-sptensor", "mul-sptensor", "logical_and-sptensor", "logical_or-sptensor",
              "logical_xor-sptensor", "ne-sptensor", "lt-sptensor", "gt-sptensor", "innerprod-sptensor",
              "isequal-sptensor"]


@st.composite
def _huge_sub(draw, shape):
    row = []
    for n in shape:
        how = draw(st.sampled_from(["zero", "last", "last", "near-last", "above-2^53", "above-2^53", "any"]))
        v = {"zero": 0, "last": n - 1, "near-last": max(0, n - 1 - draw(st.integers(1, 3))),
             "above-2^53": 2**53 + draw(st.integers(0, 3))}.get(how)
        if v is None or v >= n:
            v = draw(st.integers(0, n - 1))
        row.append(int(v))
    return row


@st.composite
def huge_case(draw, tier):
    name = draw(st.sampled_from(HUGE_OPS_1 + HUGE_OPS_2))
    O = OPS[name]
    N = draw(st.integers(1, 3))
    for _ in range(20):
        shape = [draw(st.sampled_from(HUGE_MODES + [1, 2, 3])) for _ in range(N)]
        if max(shape) < 2**40:
            shape[draw(st.integers(0, N - 1))] = draw(st.sampled_from(HUGE_MODES))
        # (a mode split is drawn for the sptenmat operations: keep every side below 2**63 rows whatever the split)
        if not name.startswith("to_sptenmat") or ref.prod(shape) < 2**63:
            break
    else:
        shape = [2**53 + 5] + [2] * (N - 1)
    vals = gen.NZ_INT_VALUES
    ka = sorted({tuple(draw(_huge_sub(shape))) for _ in range(draw(st.sampled_from(NNZ_CHOICES)))})
    a = {k: draw(vals) for k in ka}
    case = dict(op=name, shape=shape, vkind="int", vscale=1.0, huge=True)
    if O.build is not None:  # from_aggregator: repeated subscripts
        subs, vs_ = [], []
        for k in ka:
            for j in range(draw(st.sampled_from([1, 1, 1, 2, 3]))):
                subs.append(list(k)), vs_.append(a[k] if j == 0 else (-a[k] if draw(st.booleans()) else draw(vals)))
        case["a"] = dict(subs=subs, vals=vs_)
    else:
        case["a"] = dict(subs=[list(k) for k in ka], vals=[a[k] for k in ka])
    if O.keys == ("a", "b"):
        b = {}
        for k in ka:
            rel = draw(st.sampled_from(["same", "neg", "other", "absent", "absent"]))
            if rel != "absent":
                b[k] = a[k] if rel == "same" else (-a[k] if rel == "neg" else draw(vals))
        for _ in range(draw(st.integers(0, 4))):
            b.setdefault(tuple(draw(_huge_sub(shape))), draw(vals))
        kb = sorted(b)
        case["b"] = dict(subs=[list(k) for k in kb], vals=[b[k] for k in kb])
    case["p"] = draw(O.params(tier, shape, "int", case)) if O.params else {}
    orders = {k: draw(orders_for(len(case[k]["subs"]))) for k in O.keys}
    if len(O.keys) == 2:
        orders["joint"] = [[draw(st.integers(0, 10**6)), draw(st.integers(0, 10**6))] for _ in range(6)]
    case["orders"] = orders
    return case


def _run_huge(ctx, case):
    sh = case["shape"]
    ctx.label("cells>2^63" if ref.prod(sh) >= 2**63 else "cells<2^63", "mode>2^53" if max(sh) > 2**53 else "mode<=2^53",
              "subscript>2^53" if any(v > 2**53 for k in ("a", "b") if k in case for r in case[k]["subs"] for v in r)
              else "subscripts<=2^53")
    _run(ctx, case)


cell("C06/huge", strategy=huge_case, quick=120, thorough=3000, shards=(1, 4))(_run_huge)


BUDGET = {
    # family: (quick, thorough)
    "structure": (700, 14000),
    "sptenmat": (400, 8000),
    "construct": (300, 6000),
    "ttv": (300, 6000),
    "ttm": (250, 5000),
    "contract": (250, 5000),
    "collapse": (300, 6000),
    "scale": (300, 6000),
    "mttkrp": (150, 3000),
    "arith-sptensor": (400, 8000),
    "arith-tensor": (400, 8000),
    "arith-scalar": (300, 6000),
    "arith-ktensor": (200, 4000),
    "compare-sptensor": (500, 10000),
    "compare-tensor": (400, 8000),
    "compare-scalar": (400, 8000),
    "logical": (600, 12000),
    "innerprod": (400, 8000),
    "isequal": (300, 6000),
    "read": (500, 10000),
    "holder": (200, 4000),
    "write": (700, 14000),
    "rejected": (170, 1700),
    "io": (60, 1000),
}

for _fam in FAMILIES:
    _q, _t = BUDGET[_fam]
    cell(f"C06/{_fam}", strategy=(lambda fam: lambda tier: family_case(tier, fam))(_fam), quick=_q, thorough=_t,
         shards=(2, 8))(_run)


# --------------------------------------------------------------------------
# exhaustive small space: every pair of zero patterns on tiny shapes x every binary sparse-sparse operation,
# each run in all stored orders of both operands
# --------------------------------------------------------------------------

ENUM_VALUES = [2.0, -1.0, 2.0, 3.0]  # by cell position; B uses a rotated copy so overlaps are equal and unequal


def _enum_pairs(tier):
    shapes = [(3,), (2, 2)] if tier == "quick" else [(3,), (4,), (2, 2), (1, 3), (2, 1, 2)]
    names = FAMILIES["arith-sptensor"] + FAMILIES["compare-sptensor"] + [
        n for n in FAMILIES["logical"] if n.endswith("-sptensor")] + ["innerprod-sptensor", "isequal-sptensor", "mask"]
    for sh in shapes:
        cells = lex_cells(sh)
        n = len(cells)
        for ma in range(2 ** n):
            for mb in range(2 ** n):
                for name in names:
                    yield dict(op=name, shape=list(sh), ma=ma, mb=mb)


def _enum_case(case):
    sh = case["shape"]
    cells = lex_cells(sh)
    a = dict(subs=[], vals=[])
    b = dict(subs=[], vals=[])
    for i, s in enumerate(cells):
        if case["ma"] >> i & 1:
            a["subs"].append(s), a["vals"].append(ENUM_VALUES[i % 4])
        if case["mb"] >> i & 1:
            b["subs"].append(s), b["vals"].append(ENUM_VALUES[(i + (i % 2)) % 4] * (1.0 if i % 3 else -1.0))
    return dict(op=case["op"], shape=sh, vkind="int", a=a, b=b, p={}, orders={})


@cell("C06/pairs/enumerated", enum=_enum_pairs, shards=(8, 16))
def pairs_enumerated(ctx, case):
    """all pairs of zero patterns on tiny shapes x all sparse-sparse operations x all stored orders of both"""
    _run(ctx, _enum_case(case))


# --------------------------------------------------------------------------
# predicates for known findings
# --------------------------------------------------------------------------


def _full(case):
    if "ma" in case:
        return _enum_case(case)
    if "big" in case:  # compact large case: operands expanded (parameters are not used by the open findings)
        return dict(_expand_large(case), p={})
    return case


def _nnz(case, k="a"):
    return len(_full(case)[k]["subs"])


def _maps(case):
    c = _full(case)
    a = {tuple(s): v for s, v in zip(c["a"]["subs"], c["a"]["vals"])}
    b = {tuple(s): v for s, v in zip(c["b"]["subs"], c["b"]["vals"])} if "b" in c else {}
    return a, b


def _common(case):
    a, b = _maps(case)
    return len(set(a) & set(b))


def _symdiff(case):
    a, b = _maps(case)
    return len(set(a) ^ set(b))


def _T_at_a(case):
    """values of the dense operand at A's stored subscripts"""
    c = _full(case)
    T = gen.arr_F(c["shape"], c["p"]["T"])
    return [(float(T[tuple(s)]), float(v)) for s, v in zip(c["a"]["subs"], c["a"]["vals"])]


def _K_at_a(case):
    c = _full(case)
    p = c["p"]
    K = ref.den_kruskal(arr(p["weights"]), [arr(f).reshape(n, p["rank"]) for f, n in zip(p["factors"], c["shape"])])
    return [float(K[tuple(s)]) for s in c["a"]["subs"]]


def _ne_tensor_float_subs(case):
    c = _full(case)
    A = dense_of(c["shape"], c["a"])
    T = gen.arr_F(c["shape"], c["p"]["T"])
    union_covers_all = not np.any((A == 0) & (T != 0))
    no_stored_mismatch = all(t == v for t, v in _T_at_a(case))
    return bool(union_covers_all) != bool(no_stored_mismatch)  # exactly one of the two stacked groups is empty


def _scalar(case):
    return float(_full(case)["p"]["s"])


def _common_product_zero(case):
    """some subscript stored by both operands whose product, taken in the operands' value dtypes, is exactly zero"""
    c = _full(case)
    a, b = _maps(case)
    da, db = c["a"].get("dtype", "float64"), c["b"].get("dtype", "float64")
    with np.errstate(all="ignore"):
        return any((np.array([a[k]]).astype(da) * np.array([b[k]]).astype(db))[0] == 0 for k in set(a) & set(b))


def _quotient_zero_at_a(case):
    """a stored value divided by the (nonzero, finite) dense value at its subscript is exactly zero"""
    with np.errstate(all="ignore"):
        return any(t != 0 and np.isfinite(t) and np.float64(v) / np.float64(t) == 0 for t, v in _T_at_a(case))


def _common_quotient_zero(case):
    a, b = _maps(case)
    with np.errstate(all="ignore"):
        return any(np.float64(a[k]) / np.float64(b[k]) == 0 for k in set(a) & set(b))


def _rejected_steps(case):
    return [st_["p"] for st_ in (_full(case).get("p") or {}).get("steps", []) if st_.get("kind") == "rejected"]


def _region_reaches_beyond(case, q):
    if q.get("g"):
        return True
    for k, n in zip(q["key"], case["shape"]):
        v = k.get("v")
        top = None if v is None else (v if isinstance(v, int) else (v[1] - 1 if k["f"] in ("slice", "step", "empty") else max(v)))
        if top is not None and top >= n:
            return True
    return False


def _unsigned_subscripts(case):
    """some operand's subscripts or the index arguments are presented in an unsigned integer dtype"""
    c = _full(case)
    for k in ("a", "b"):
        pres = (c.get(k) or {}).get("pres")
        if pres and pres["subs_dtype"].startswith("u") and not (pres["via"] == "coo" and len(c[k]["subs"][:1] and c[k]["subs"][0]) == 2):
            return True
    return str(c.get("idt") or "").startswith("u")


PREDICATES = {
    # round 4: a rejected S[M] = V with extra subscript columns leaves the tensor with the grown order
    "rejected_subs_names_new_modes": lambda c: any(
        q["kind"] in ("subs-bad-values", "subs-np-scalar") and q.get("g") for q in _rejected_steps(c)),
    # round 4: a rejected S[R1..Rn] = <no scalar, no sptensor> leaves the tensor resized to the region
    "rejected_region_reaches_beyond_shape": lambda c: any(
        q["kind"] == "region-bad-rhs" and _region_reaches_beyond(_full(c), q) for q in _rejected_steps(c)),
    # round 4: S[i,..] = negative value into a uint8-valued tensor: NumPy refuses the value after the tensor was resized
    "negative_into_uint8": lambda c: _full(c)["a"].get("dtype") == "uint8" and float(_full(c)["p"].get("value", 0)) < 0,
    # round 4: mode lists / mode numbers given in uint64
    "uint64_mode_args": lambda c: _full(c).get("idt") == "uint64",
    # round 4: subscripts kept in the caller's unsigned dtype
    "unsigned_subscripts": _unsigned_subscripts,
    # S/T and S/S2 do not drop a quotient that underflows to exactly zero
    "quotient_zero_at_a": _quotient_zero_at_a,
    "common_quotient_zero": _common_quotient_zero,
    # S*S2 does not drop a common entry whose product underflows / wraps around to exactly zero
    "common_product_zero": _common_product_zero,
    # `*`, `/`, `==` of two sparse tensors pair the common entries by position: needs two common subscripts
    "common_ge_2": lambda c: _common(c) >= 2,
    # S/S looks up the one-sided entries in the wrong array
    "symdiff_nonempty": lambda c: _symdiff(c) >= 1,
    "b_only_nonempty": lambda c: len(set(_maps(c)[1]) - set(_maps(c)[0])) >= 1,
    "a_or_b_empty": lambda c: _nnz(c, "a") == 0 or _nnz(c, "b") == 0,
    # S == c / S != c
    "eq_scalar_len": lambda c: _scalar(c) != 0 and (_nnz(c) == 0 or any(v != _scalar(c) for v in _full(c)["a"]["vals"])),
    "ne_scalar_len": lambda c: _scalar(c) != 0 and any(v != _scalar(c) for v in _full(c)["a"]["vals"]),
    "ne_zero_of_empty": lambda c: _scalar(c) == 0 and _nnz(c) == 0,
    "ne_tensor_float_subs": _ne_tensor_float_subs,
    # mask
    "mask_positions": lambda c: _nnz(c, "a") >= 1 and _nnz(c, "b") >= 1 and (_nnz(c, "a") >= 2 or _nnz(c, "b") >= 2),
    # S*T, S*K keep a product that is zero
    "T_zero_at_a_nonzero": lambda c: any(t == 0 for t, _ in _T_at_a(c)),
    "K_zero_at_a_nonzero": lambda c: any(k == 0 for k in _K_at_a(c)),
}
