"""C14 — leading mode-n vectors span the dominant subspace in every representation."""

from __future__ import annotations

import logging

import numpy as np

import pyttb as ttb

from .. import gen, ref
from ..core import cell
from . import _c14_helpers as H

PROPERTY = "C14"
RULE = (
    "cases = (model, mode n, count r in 1..I_n, flipsign) where the model is built so that the mode-n Gram matrix has a "
    "prescribed spectrum: 'spectral' = U diag(s) W^T folded along mode n with s geometric / a close pair (relative gap "
    "4e-3) / one dominant value / rank-deficient / slow decay, scaled by 1e-6..1e6; 'cp' = Kruskal tensor with "
    "orthonormal factor columns, weights of either sign (1e-6..1e6), optional tiny generic components; 'sparse' = "
    "integer tensor with one / some / all nonzeros (also scaled by 1e-6 / 1e6); 'block' (cells */large and a tenth of "
    "the histories) = integer data whose mode-n Gram matrix is exactly block diagonal with rank-one blocks, so the "
    "leading vectors have exact structure: entries summing exactly to zero ((2,-1,-1), (1,-1), (1,1,-1,-1), ...), one or "
    "two nonzero entries, exact ties in magnitude, all-equal entries; plus empty slices and a low-energy filler.  "
    "Cells */large use mode sizes 21..40 (quick) / 21..64 (thorough), above ARPACK's default subspace of "
    "min(I, max(2r+1, 20)) vectors, with r on both sides of 10 and at the solver switch r = I-2, I-1, I.  "
    "Every holder (tensor, sptensor, ktensor, ttensor with dense core / sparse core / scipy coo factor matrices) of the "
    "same array is a cell family of its own and is compared with eigh of the Gram matrix of the denoted array.  Holder "
    "states: constructor, and states only public operations produce (tensor: grown by assignment, C-ordered input, "
    "permute round trip, converted from sptensor, reconstructed from a ttensor; sptensor: random stored order, "
    "explicitly stored zeros, zero by subscript assignment, numpy-integer shape, grown by assignment, converted from "
    "tensor, permute round trip; ktensor: normalize(weight_factor=k), normalize(), arrange(), redistribute(k), "
    "F-ordered input; ttensor: grown dense core, sparse core with random order + explicit zero + numpy-integer "
    "shape, F-ordered factors, copy=False).  Storage dtype int64 / int32 / uint8 where the data are integer valued and "
    "the class admits it (ktensor demands float).  n and r are passed as Python int, numpy.int64 or numpy.int32.  "
    "C14/history/*: 2..4 nvecs calls on ONE object (different n / r / flipsign, or the same), with in-place edits of "
    "one attribute array in between (tensor data, sptensor vals / one subscript row, ktensor weights / factor, ttensor "
    "factor / coo factor data / core data or vals: scale a slice, shear a column, change an entry, scale everything, "
    "zero a slice), calls on a fresh copy made from the current attributes, and the returned array overwritten by the "
    "caller; every answer is judged against the array the object denotes at that moment.  A fixed list of models is "
    "enumerated over every n and every r.  Non-trivial: 1 < r < I_n with separated leading eigenvalues (histories: such "
    "a call after an edit)."
)
ASSUMPTIONS = [
    "reference: G = X_(n) X_(n)^T from the denoted array, numpy.linalg.eigh, eigenvalues in decreasing order",
    "value clauses apply when the r leading eigenvalues are pairwise separated, and separated from the (r+1)-th, by "
    "at least 1e-3*lambda_1 (the property quantifies over well separated leading eigenvalues); other cases only get "
    "the shape and real-dtype clauses",
    "tolerances (all relative, the property is scale free): V^T V = I within 1e-8; ||G v_j - lambda_j v_j|| <= "
    "1e-6*lambda_1; captured energy within 1e-6*r*lambda_1; projector V V^T within 1e-6 (entrywise) of the reference "
    "projector; sign rule skipped for a column whose two largest magnitudes differ by less than 1e-9 (exact ties)",
    "np.random.seed(case['np_seed']) immediately before every nvecs call (ARPACK start vectors)",
    "holders denote the same array up to rounding of the orthogonal rotations used to build the Tucker/Kruskal forms "
    "(1e-15 relative), far below the tolerances; the block family uses exact forms (fibre Kruskal form, permutation "
    "Tucker form, every second dense-core case a rotation)",
    "derived holder states come out of public operations that other properties judge: when such an operation fails or "
    "does not reproduce the array the holder falls back to the constructor (label state-ctor)",
    "history steps: the value clauses additionally need lambda_1 >= 1e-4*||den_abs||_F^2, where den_abs is the array "
    "denoted by the absolute values of the attributes (an edit may leave pure cancellation noise of a rotated form)",
    "n, r as numpy.uint8 are not generated: scipy's eigsh does fixed-width arithmetic with the caller's integer type "
    "(workspace size ncv*(ncv+8) wraps), which is outside what 'count r' promises; float32 data are not generated "
    "(the tolerances above are for double precision)",
]

logging.disable(logging.WARNING)  # pyttb warns through the root logger about memory order on internal copies


def _npint(case, v):
    """n and r as the case asks: plain Python int or a numpy integer scalar"""
    t = case.get("npint")
    return int(v) if not t else getattr(np, t)(v)


def _verify(ctx, X, V, n, r, flip, pre="", values=True):
    """the clauses of the property for one answer V = nvecs(n, r, flipsign=flip) of a holder denoting X; `pre` prefixes
    the clause names (history cells: which solver path the step took).  Returns (separated, reference eigenvalues)."""
    I = X.shape[n]
    G, lam, Vref = H.reference(X, n)
    sep = H.separated(lam, r)
    ctx.require(isinstance(V, np.ndarray) and V.shape == (I, r), pre + "nvecs-returns-In-by-r-array",
                (type(V).__name__, getattr(V, "shape", None)))
    isreal = np.isrealobj(V)
    ctx.check(isreal, pre + "nvecs-real-dtype", str(V.dtype))
    ctx.require(bool(np.isfinite(V).all()), pre + "nvecs-finite")
    if not sep or not values:
        return False, lam
    if not isreal:
        # keep searching behind a complex dtype: the values must still be the real eigenvectors
        ctx.require(float(np.max(np.abs(V.imag), initial=0.0)) <= 1e-12, pre + "nvecs-imaginary-part-zero", float(np.max(np.abs(V.imag))))
        V = np.ascontiguousarray(V.real)
    V = np.asarray(V, dtype=float)
    l1 = lam[0]
    ctx.check(float(np.max(np.abs(V.T @ V - np.eye(r)))) <= 1e-8, pre + "nvecs-columns-orthonormal",
              float(np.max(np.abs(V.T @ V - np.eye(r)))))
    res = [float(np.linalg.norm(G @ V[:, j] - lam[j] * V[:, j])) for j in range(r)]
    ctx.check(max(res) <= 1e-6 * l1, pre + "nvecs-columns-are-eigenvectors-in-decreasing-order", (max(res) / l1, lam[: min(r + 1, 6)].tolist()))
    energy = float(np.trace(V.T @ G @ V))
    ctx.check(abs(energy - float(lam[:r].sum())) <= 1e-6 * r * l1, pre + "nvecs-captures-leading-energy", (energy, float(lam[:r].sum())))
    P, Pref = V @ V.T, Vref[:, :r] @ Vref[:, :r].T
    ctx.check(float(np.max(np.abs(P - Pref))) <= 1e-6, pre + "nvecs-spans-dominant-subspace", float(np.max(np.abs(P - Pref))))
    if flip:
        bad = []
        for j in range(r):
            a = np.abs(V[:, j])
            o = np.argsort(-a)
            if len(o) >= 2 and a[o[0]] - a[o[1]] <= 1e-9 * a[o[0]]:
                continue
            if V[o[0], j] <= 0:
                bad.append(j)
        ctx.check(not bad, pre + "nvecs-flipsign-largest-entry-positive", bad)
    return sep, lam


def _magnitude(X):
    m = float(np.max(np.abs(X), initial=0.0))
    return "magnitude-tiny" if 0 < m < 1e-4 else ("magnitude-huge" if m > 1e4 else "magnitude-moderate")


def _lead_structure(Vref, r):
    """labels for exact structure among the r leading reference vectors"""
    out = []
    W = Vref[:, :r]
    if np.any(np.abs(W.sum(axis=0)) <= 1e-13):
        out.append("a-leading-vector-sums-to-zero")
    if np.abs(W[:, 0].sum()) <= 1e-13:
        out.append("first-vector-sums-to-zero")
    if np.any((np.abs(W) > 1e-12).sum(axis=0) <= 2):
        out.append("a-leading-vector-has-at-most-two-entries")
    return out


def _denotes(obj, X):
    D = H.den(obj)
    scale = np.max(np.abs(X)) if X.size else 0.0
    if not (D.shape == X.shape and np.max(np.abs(D - X), initial=0.0) <= 1e-12 * max(scale, 1e-300)):
        raise RuntimeError(f"harness: holder does not denote the model array (max diff {np.max(np.abs(D - X))})")


def _check(ctx, case, make_holder, holder_name):
    X = H.dense_of(case)
    n, r, flip = case["n"], case["r"], case["flipsign"]
    I = X.shape[n]
    _, lam, Vref = H.reference(X, n)
    sep = H.separated(lam, r)
    path = "iterative-path" if r < I - 1 else "dense-path"
    ctx.nt = 1 < r < I and sep
    obj, labels = make_holder(case, X)
    if sep:
        labels = labels + _lead_structure(Vref, r)
    if isinstance(obj, ttb.ttensor) and isinstance(obj.core, ttb.sptensor):
        # sptensor.ttm answers with a sparse or a dense tensor depending on the density (threshold one half), and
        # ttensor.nvecs has one branch for each
        d = obj.core.nnz / max(1, ref.prod(obj.core.shape))
        labels = labels + ["core-density<=half" if d <= 0.5 else "core-density>half"]
    ctx.label(holder_name, "family-" + case["family"], "spec-" + str(case.get("spectrum")), f"order{X.ndim}", path,
              "separated" if sep else "not-separated", "flipsign" if flip else "noflip",
              "r=1" if r == 1 else ("r=I" if r == I else ("r=I-1" if r == I - 1 else "1<r<I-1")),
              "n,r:" + (case.get("npint") or "python-int"), _magnitude(X),
              "I>20" if I > 20 else "I<=20", *labels)
    if I > 20 and path == "iterative-path":
        ctx.label("subspace>20" if 2 * r + 1 > 20 else "subspace=20")
    # the holder denotes the array the reference was computed from
    _denotes(obj, X)
    np.random.seed(case["np_seed"])
    with ctx.sut(f"{holder_name}.nvecs"):
        V = obj.nvecs(_npint(case, n), _npint(case, r), flipsign=flip)
    _verify(ctx, X, V, n, r, flip)


def _history(ctx, case, make_holder, holder_name):
    """steps on one object; after every step the answer is judged against the array the object denotes *now* (read
    from its attributes), so each call may depend only on its own arguments and the current state"""
    X = H.dense_of(case)
    obj, labels = make_holder(case, X)
    ctx.label(holder_name, "family-" + case["family"], f"steps={len(case['steps'])}", *labels)
    _denotes(obj, X)
    edited = False
    nt = False
    last = None
    for k, s in enumerate(case["steps"]):
        if s.get("edit"):
            ctx.label(H.apply_edit(obj, s["edit"]))
            edited = True
        Xk = H.den(obj)
        if not bool(np.isfinite(Xk).all()):
            ctx.skip("edit overflowed")
        n, r, flip = s["n"], s["r"], s["flipsign"]
        I = Xk.shape[n]
        target = obj
        if s.get("fresh"):
            target = H.fresh_copy(obj)
            _denotes(target, Xk)
            ctx.label("call-on-fresh-copy")
        path = "iterative-path:" if r < I - 1 else "dense-path:"
        np.random.seed(s["np_seed"])
        with ctx.sut(f"{path}{holder_name}.nvecs"):
            V = target.nvecs(_npint(case, n), _npint(case, r), flipsign=flip)
        # an edit can make the object denote pure cancellation noise (e.g. zeroing the factor row that carried all the
        # data of a rotated Tucker form): the value clauses need the leading eigenvalue to stand clear of the rounding
        # noise of the representation, 1e-16 * ||den_abs||^2 (bound: noise / (SEP * lambda_1) <= 1e-8 << 1e-6)
        lam1 = float(H.reference(Xk, n)[1][0])
        conditioned = lam1 >= 1e-4 * float(np.sum(H.den_abs(obj) ** 2))
        if not conditioned:
            ctx.label("step-ill-conditioned-representation")
        sep, _ = _verify(ctx, Xk, V, n, r, flip, pre=path, values=conditioned)
        # the call leaves the object alone
        ctx.check(ref.same_exact(H.den(obj), Xk), path + "nvecs-leaves-the-object-unchanged")
        this = (n, r, flip)
        if last is not None:
            ctx.label("repeat-same-arguments" if this == last[0] else
                      ("same-n-r-other-flipsign" if this[:2] == last[0][:2] else ("same-n-other-r" if n == last[0][0] else "other-n")))
        ctx.label(("after-edit-" if edited else "before-edit-") + ("separated" if sep else "not-separated"))
        if edited and sep and 1 < r:
            nt = True
        if s.get("clobber") and isinstance(V, np.ndarray) and V.flags.writeable:
            V[...] = 7.0  # the caller owns the returned array: a later call must not see this
            ctx.label("returned-array-overwritten")
        last = (this, V)
    ctx.nt = nt


def _split(obj_label):
    obj, lab = obj_label
    return obj, [x for x in lab.split(",") if x]


HOLDERS = {
    "tensor": (lambda case, X: _split(H.as_tensor(X, case)), H.TENSOR_STATES),
    "sptensor": (lambda case, X: _split(H.as_sptensor(X, case["stored"], case)), H.SPTENSOR_STATES),
    "ktensor": (lambda case, X: _split(H.as_ktensor(case, X, True)), H.KTENSOR_STATES),
    "ttensor-dense-core": (lambda case, X: _split(H.as_ttensor(case, X, False, True)), H.TTENSOR_STATES),
    "ttensor-sparse-core": (lambda case, X: _split(H.as_ttensor(case, X, True, True)), H.TTENSOR_STATES),
    # scipy coo matrices as factor matrices (admitted by the constructor; ttensor.nvecs has branches of its own for them,
    # and sptensor.ttm only then answers with a sparse tensor); sparse core, every fourth case a dense one
    "ttensor-coo-factors": (lambda case, X: _split(H.as_ttensor(case, X, case.get("tseed", 0) % 4 != 0, True, sparse_factors=True)),
                            H.TTENSOR_STATES),
}


def _register(holder):
    cls = holder.split("-")[0]
    make, states = HOLDERS[holder]

    @cell(f"C14/nvecs/{holder}/sampled", strategy=lambda tier: H.model_case(tier, states=states), quick=450, thorough=9000, shards=(2, 8))
    def sampled(ctx, case, _m=make, _c=cls):
        _check(ctx, case, _m, _c)

    @cell(f"C14/nvecs/{holder}/enumerated", enum=H.enum_models, shards=(2, 8))
    def enumerated(ctx, case, _m=make, _c=cls):
        """fixed models x every mode x every r x both sign settings"""
        _check(ctx, case, _m, _c)

    @cell(f"C14/nvecs/{holder}/large", strategy=lambda tier: H.large_case(tier, states=states), quick=110, thorough=5000, shards=(1, 8))
    def large(ctx, case, _m=make, _c=cls):
        """mode size above 20 (the iterative solver's default subspace no longer spans everything): block models whose
        leading vectors have exact structure (sum zero, few entries, sign symmetric), spectral models with generic ones"""
        _check(ctx, case, _m, _c)

    @cell(f"C14/history/{holder}", strategy=lambda tier: H.history_case(tier, states=states), quick=150, thorough=6000, shards=(1, 8))
    def history(ctx, case, _m=make, _c=cls):
        """2..4 calls on one object with in-place edits of its attribute arrays in between"""
        _history(ctx, case, _m, _c)


for _holder in HOLDERS:
    _register(_holder)


# --------------------------------------------------------------------------
# predicates for known findings
# --------------------------------------------------------------------------


def _In(case):
    return case["shape"][case["n"]]


def _P(case):
    return ref.prod(case["shape"]) // _In(case)


def _regular(case):
    """order >= 2, mode n and the product of the other modes both larger than one"""
    return len(case["shape"]) >= 2 and _In(case) >= 2 and _P(case) >= 2


def _int_storage(case):
    return H.int_dtype_of(case, H.dense_of(case)) is not None


PREDICATES = {
    # integer core and integer factor matrices (as_ttensor keeps the factors float when tseed is a multiple of 3)
    "ttensor_all_integer_iterative": lambda case: _int_storage(case) and case.get("tseed", 0) % 3 != 0 and case["r"] < _In(case) - 1,
    "sptensor_int_storage_iterative": lambda case: _int_storage(case) and case["r"] < _In(case) - 1,
    "sptensor_int_storage_dense": lambda case: _int_storage(case) and case["r"] >= _In(case) - 1,
    "dense_path_regular": lambda case: _regular(case) and case["r"] >= _In(case) - 1,
    "dense_path": lambda case: case["r"] >= _In(case) - 1,
    "all_singleton": lambda case: all(s == 1 for s in case["shape"]),
    "iterative_path_regular": lambda case: _regular(case) and case["r"] < _In(case) - 1,
    "regular": _regular,
    "degenerate_unfolding": lambda case: not _regular(case),
    "order1": lambda case: len(case["shape"]) == 1,
}
