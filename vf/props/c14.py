"""C14 — leading mode-n vectors span the dominant subspace in every representation."""

from __future__ import annotations

import logging

import numpy as np

import pyttb as ttb

from .. import gen, ref
from ..core import cell
from . import _c14_helpers as H

PROPERTY = "C14"
RULE = (
    "cases = (model, mode n, count r in 1..I_n, flipsign) where the model is built so that the mode-n Gram matrix has a "
    "prescribed spectrum: 'spectral' = U diag(s) W^T folded along mode n with s geometric / a close pair (relative gap "
    "4e-3) / one dominant value / rank-deficient / slow decay, scaled by 1e-6..1e6; 'cp' = Kruskal tensor with "
    "orthonormal factor columns, weights of either sign (1e-6..1e6), optional tiny generic components; 'sparse' = "
    "integer tensor with one / some / all nonzeros (also scaled by 1e-6 / 1e6); 'block' (cells */large and a tenth of "
    "the histories) = integer data whose mode-n Gram matrix is exactly block diagonal with rank-one blocks, so the "
    "leading vectors have exact structure: entries summing exactly to zero ((2,-1,-1), (1,-1), (1,1,-1,-1), ...), one or "
    "two nonzero entries, exact ties in magnitude, all-equal entries; plus empty slices and a low-energy filler.  "
    "Cells */large use mode sizes 21..40 (quick) / 21..64 (thorough), above ARPACK's default subspace of "
    "min(I, max(2r+1, 20)) vectors, with r on both sides of 10 and at the solver switch r = I-2, I-1, I.  "
    "Every holder (tensor, sptensor, ktensor, ttensor with dense core / sparse core / scipy coo factor matrices) of the "
    "same array is a cell family of its own and is compared with eigh of the Gram matrix of the denoted array.  Holder "
    "states: constructor, and states only public operations produce (tensor: grown by assignment, C-ordered input, "
    "permute round trip, converted from sptensor, reconstructed from a ttensor; sptensor: random stored order, "
    "explicitly stored zeros, zero by subscript assignment, numpy-integer shape, grown by assignment, converted from "
    "tensor, permute round trip; ktensor: normalize(weight_factor=k), normalize(), arrange(), redistribute(k), "
    "F-ordered input; ttensor: grown dense core, sparse core with random order + explicit zero + numpy-integer "
    "shape, F-ordered factors, copy=False).  Storage dtype int64 / int32 / uint8 where the data are integer valued and "
    "the class admits it (ktensor demands float).  n and r are passed as Python int, numpy.int64 or numpy.int32.  "
    "C14/history/*: 2..4 nvecs calls on ONE object (different n / r / flipsign, or the same), with in-place edits of "
    "one attribute array in between (tensor data, sptensor vals / one subscript row, ktensor weights / factor, ttensor "
    "factor / coo factor data / core data or vals: scale a slice, shear a column, change an entry, scale everything, "
    "zero a slice), calls on a fresh copy made from the current attributes, and the returned array overwritten by the "
    "caller; every answer is judged against the array the object denotes at that moment.  A fixed list of models is "
    "enumerated over every n and every r.  "
    "Round 3.  C14/nvecs/*/structured: forms whose parts are exactly special, epsilon-perturbed (eps = 1e-12 .. 1e-5 times a "
    "generic matrix, on every factor or on one) or generic: 'tucker' = core (spectral / integer sparse / zero) times factor "
    "matrices that are identity, permutation, orthonormal (square or tall), diagonal powers of two, unit-norm non-orthogonal "
    "columns, generic integers; square, tall or wide; optionally with powers of two (2^+-30, 2^+-60) moved between factors "
    "and core; 'kruskal' = factors with orthonormal / unit-vector / unit-norm / generic columns (rank above the mode sizes "
    "for the latter two), weights equal, near-equal (eigenvalue gaps 1.1e-3 .. 5e-3 of the largest: just above the "
    "separation threshold), geometric, slow decay, one exactly zero, either sign, optionally 2^+-60 moved between a "
    "weight and its column; 'spectral' with singular values spanning 12 decades (a few separated leading ones, then "
    "1e-5 .. 1e-12), gaps just above the threshold, rank one / two / deficient; the all-zero tensor (empty sptensor or "
    "explicit zeros only, zero weights, a zero factor, zero core); overall magnitudes 1e-15 .. 1e+15.  "
    "C14/nvecs/*/xlarge: a few cases per run with mode n of 60..200: block data with (I-2)*P/nb >= 1e4 stored nonzeros whose "
    "leading vectors involve every stored entry, Kruskal forms with 2..12 orthonormal components or ~350 fibre components, "
    "Tucker forms with tall (60..200 x 4..12) factors, dense spectral data; all expanded from seeds.  "
    "C14/nvecs/sptensor/long-modes: a spectral model whose modes other than n are stretched to lengths 2**16, 2**40, 2**53+7, "
    "2**60, 2**62 (one or two of them; products beyond 2**63), the stored entries sitting at a handful of indices (0, 1, L-1, "
    "L/2, 2**31, 2**53 and 2**53+1 ...): the mode-n Gram matrix is that of the small array without the empty slices.  "
    "Histories additionally keep every returned array alive, call twins of the holder (constructor copy, copy(), deepcopy, "
    "a second object sharing the attribute arrays through copy=False) and fork (a public copy lives on beside the original; "
    "one is edited and called, the other judged again at the end).  "
    "Round 4.  Every generated case also draws how the request is presented: n and r as Python int or numpy int64 / int32 / "
    "uint64 / intp / uint32 / int16 / uint16, flipsign as bool or numpy.bool_, by keyword or positionally; the root logger "
    "untouched / at DEBUG / at INFO during the call; storage of integer-valued data additionally as int8 / int16 / uint16 / "
    "float16 / float32; holder states read-only arrays shared through copy=False (all four classes), strided view as "
    "constructor input; and every non-history cell demands that the call leaves every attribute array bit for bit "
    "unchanged.  C14/nvecs/*/presentation: the same request plainly and as presented, answers compared.  "
    "C14/nvecs/*/float32: single-precision storage (families of the sampled / large cells and 'wide' spectra spanning "
    "1 .. 1e-4 in the singular values), judged in double precision against what the holder stores.  Histories: the root "
    "logger level per step, and ill-formed requests (no such mode, r = 0 / -1 / 1.5) before a valid step with a bit-for-bit "
    "snapshot of all attribute arrays around them.  "
    "Non-trivial: 1 < r < I_n with separated leading eigenvalues (histories: such a call after an edit)."
)
ASSUMPTIONS = [
    "reference: G = X_(n) X_(n)^T from the denoted array, numpy.linalg.eigh, eigenvalues in decreasing order",
    "value clauses apply when the r leading eigenvalues are pairwise separated, and separated from the (r+1)-th, by "
    "at least 1e-3*lambda_1 (the property quantifies over well separated leading eigenvalues); other cases only get "
    "the shape, real-dtype and finiteness clauses (e.g. equal Kruskal weights on orthonormal factors)",
    "degenerate requests: when k < r leading eigenvalues are separated like that and every further one is below "
    "1e-9*lambda_1 (rank-deficient unfolding - always when the other modes have fewer than I_n cells - with r beyond the "
    "rank; a spectrum dropping by many decades) the request is still inside the quantifier (all r up to I_n, leading "
    "eigenvalues separated), and the property allows exactly this: all r columns orthonormal, the first k the "
    "eigenvectors of the k leading eigenvalues in order (subspace clause on those k), the other columns any orthonormal "
    "vectors with ||G v|| negligible (eigenvector of a numerically zero eigenvalue: residual clause with the tolerance "
    "below), energy as before, sign rule on every column.  All-zero tensor (k = 0): every vector is an eigenvector, so "
    "any real orthonormal I_n x r matrix obeying the sign rule is allowed and nothing else",
    "tight tolerances in */structured and */xlarge, where the conditioning of the representation is known: with "
    "noise = 1e3 * 1.1e-16 * ||den_abs||_F^2 (rounding of any evaluation order of the Gram matrix, den_abs = the array "
    "denoted by the absolute values of the attributes): V^T V = I within 1e-11; residual <= max(1e-10*lambda_1, noise); "
    "projector within max(1e-9, noise/gap at the cut) (Davis-Kahan); value clauses only when lambda_1 >= 1e-4 * "
    "||den_abs||_F^2 (label ill-conditioned-representation otherwise).  These are what makes a shortcut taken for "
    "factors within 1e-8 of orthonormal visible (error eps/gap)",
    "long modes: the product of the lengths of the modes other than n is either at most 2**16 * 72 or at least 2**40 - "
    "the unrepaired sptensor.nvecs (C14-K8) needs memory proportional to it, and in between the outcome would depend on "
    "the machine",
    "several live objects: a twin that cannot be made or does not denote the same array is not used (copying is judged "
    "by other properties); the kept arrays must compare equal (exactly) to their values at return time",
    "tolerances (all relative, the property is scale free): V^T V = I within 1e-8; ||G v_j - lambda_j v_j|| <= "
    "1e-6*lambda_1; captured energy within 1e-6*r*lambda_1; projector V V^T within 1e-6 (entrywise) of the reference "
    "projector; sign rule skipped for a column whose two largest magnitudes differ by less than 1e-9 (exact ties)",
    "np.random.seed(case['np_seed']) immediately before every nvecs call (ARPACK start vectors)",
    "holders denote the same array up to rounding of the orthogonal rotations used to build the Tucker/Kruskal forms "
    "(1e-15 relative), far below the tolerances; the block family uses exact forms (fibre Kruskal form, permutation "
    "Tucker form, every second dense-core case a rotation)",
    "derived holder states come out of public operations that other properties judge: when such an operation fails or "
    "does not reproduce the array the holder falls back to the constructor (label state-ctor)",
    "history steps: the value clauses additionally need lambda_1 >= 1e-4*||den_abs||_F^2, where den_abs is the array "
    "denoted by the absolute values of the attributes (an edit may leave pure cancellation noise of a rotated form)",
    "n, r as numpy.uint8 / int8 are not generated, and the 16-bit types only for mode sizes up to 64: scipy's eigsh does "
    "fixed-width arithmetic with the caller's integer type (workspace size ncv*(ncv+8) wraps), which is outside what "
    "'count r' promises",
    "float32 data (cells */float32; tensor data, sptensor vals, ttensor core and - two cases in three - factor matrices; the "
    "ktensor constructor demands float64): the holder denotes the float32 values exactly, so the reference is eigh of the "
    "Gram matrix of the float64 copy of what the holder stores, and the bounds are those of a double-precision "
    "computation (the tight ones of */structured: noise = 1e3 * 1.1e-16 * ||den_abs||_F^2) - single precision limits "
    "what the data say, not how accurately the library may evaluate it.  For the spectra 'wide-*' (singular values 1, "
    "1e-2, 1e-4 / 1 .. 1e-4 by decades / 1, .6, .3, 3e-3, 1e-4, then zeros that the float32 rounding turns into a tail of "
    "~1e-15*lambda_1) 'well separated' means gaps of at least 1e-9*lambda_1 (ratios of 1e2 and more); the projector bound "
    "noise/gap follows the gap.  Integer-valued data are also stored as float16 / float32 / int8 / int16 / uint16 in every "
    "cell (exact; scipy.sparse has no float16, so coo factor matrices get float32 then)",
    "same request in two presentations (cells */presentation): bit for bit on the dense path (LAPACK is deterministic); "
    "on the iterative path ARPACK's start vector comes from its own generator, whose state carries over between calls, so "
    "the separated columns are compared up to 1e-6 and up to the sign (the sign rule is judged separately)",
    "root logger level: set inside the cell to DEBUG / INFO with only a NullHandler installed and logging.disable lifted, "
    "restored in a finally; stdout is captured by the framework",
    "ill-formed requests inside histories (mode N, N+3, -N-1; r = 0, -1, 1.5): the property does not say they must be "
    "rejected (sptensor / ktensor accept n = -1, for example), only that - rejected or not - the object is bit for bit the "
    "same afterwards and the next valid call is judged as if nothing had happened",
]

logging.disable(logging.WARNING)  # pyttb warns through the root logger about memory order on internal copies


def _call(ctx, what, obj, case, n, r, flip, I, seed, log=None, plain=False):
    """one nvecs call the way the case presents it (numpy scalars for n and r, numpy.bool_ / positional flipsign), with
    the root logger at the level `log` for the duration of the call (restored afterwards, also after an exception);
    plain = Python ints, keyword bool, logging untouched"""
    args, kw = ((int(n), int(r)), dict(flipsign=bool(flip))) if plain else H.present(case, n, r, flip, I)
    np.random.seed(seed)
    with H.root_logging(None if plain else log):
        with ctx.sut(what):
            return obj.nvecs(*args, **kw)


def _presentation_labels(case, log):
    return ["n,r:" + (case.get("npint") or "python-int"), "flipsign:" + (case.get("flipform") or "keyword-bool"), "root-logger:" + (log or "untouched")]


def _verify(ctx, X, V, n, r, flip, pre="", values=True, absnorm2=None, sep=H.SEP):
    """the clauses of the property for one answer V = nvecs(n, r, flipsign=flip) of a holder denoting X; `pre` prefixes
    the clause names (history cells: which solver path the step took).  `absnorm2` (cells */structured, */xlarge) =
    squared Frobenius norm of the array the absolute values of the holder's attributes denote: it bounds the rounding
    noise of any evaluation of the Gram matrix by ~1e-16 * absnorm2 and turns on the tight tolerances.
    Returns (value clauses applied, reference eigenvalues)."""
    I = X.shape[n]
    G, lam, Vref = H.reference(X, n)
    k, cls = H.spectrum_class(lam, r, sep)
    ctx.require(isinstance(V, np.ndarray) and V.shape == (I, r), pre + "nvecs-returns-In-by-r-array",
                (type(V).__name__, getattr(V, "shape", None)))
    isreal = np.isrealobj(V)
    ctx.check(isreal, pre + "nvecs-real-dtype", str(V.dtype))
    ctx.require(bool(np.isfinite(V).all()), pre + "nvecs-finite")
    if cls == "not-separated" or not values:
        return False, lam
    if not isreal:
        # keep searching behind a complex dtype: the values must still be the real eigenvectors
        ctx.require(float(np.max(np.abs(V.imag), initial=0.0)) <= 1e-12, pre + "nvecs-imaginary-part-zero", float(np.max(np.abs(V.imag))))
        V = np.ascontiguousarray(V.real)
    V = np.asarray(V, dtype=float)
    l1 = float(lam[0])
    tight = absnorm2 is not None
    noise = 1e-13 * float(absnorm2) if tight else 0.0  # 1e3 * unit roundoff * absnorm2
    # every column, also those that belong to the negligible tail: orthonormal
    dev = float(np.max(np.abs(V.T @ V - np.eye(r))))
    ctx.check(dev <= (1e-11 if tight else 1e-8), pre + "nvecs-columns-orthonormal", dev)
    if l1 > 0:
        # column j is an eigenvector for the j-th largest eigenvalue (tail columns: for a negligible one, i.e. G v ~ 0)
        tol_res = max(1e-10 * l1, noise) if tight else 1e-6 * l1
        res = [float(np.linalg.norm(G @ V[:, j] - lam[j] * V[:, j])) for j in range(r)]
        ctx.check(max(res) <= tol_res, pre + "nvecs-columns-are-eigenvectors-in-decreasing-order", (max(res) / l1, lam[: min(r + 1, 6)].tolist()))
        energy = float(np.trace(V.T @ G @ V))
        ctx.check(abs(energy - float(lam[:r].sum())) <= r * tol_res, pre + "nvecs-captures-leading-energy", (energy, float(lam[:r].sum())))
        # the k separated leading columns span the reference's leading subspace (Davis-Kahan: noise / gap at the cut)
        P, Pref = V[:, :k] @ V[:, :k].T, Vref[:, :k] @ Vref[:, :k].T
        gap = float(lam[k - 1] - lam[k]) if k < len(lam) else l1
        tol_P = max(1e-9, noise / gap) if tight else 1e-6
        ctx.check(float(np.max(np.abs(P - Pref))) <= tol_P, pre + "nvecs-spans-dominant-subspace", (float(np.max(np.abs(P - Pref))), tol_P))
    if flip:
        bad = []
        for j in range(r):
            a = np.abs(V[:, j])
            o = np.argsort(-a)
            if len(o) >= 2 and a[o[0]] - a[o[1]] <= 1e-9 * a[o[0]]:
                continue
            if V[o[0], j] <= 0:
                bad.append(j)
        ctx.check(not bad, pre + "nvecs-flipsign-largest-entry-positive", bad)
    return True, lam


def _magnitude(X):
    m = float(np.max(np.abs(X), initial=0.0))
    if m == 0:
        return "all-zero"
    if m < 1e-8 or m > 1e8:
        return "magnitude<1e-8" if m < 1 else "magnitude>1e8"
    return "magnitude-tiny" if m < 1e-4 else ("magnitude-huge" if m > 1e4 else "magnitude-moderate")


def _lead_structure(Vref, r):
    """labels for exact structure among the r leading reference vectors"""
    out = []
    W = Vref[:, :r]
    if np.any(np.abs(W.sum(axis=0)) <= 1e-13):
        out.append("a-leading-vector-sums-to-zero")
    if np.abs(W[:, 0].sum()) <= 1e-13:
        out.append("first-vector-sums-to-zero")
    if np.any((np.abs(W) > 1e-12).sum(axis=0) <= 2):
        out.append("a-leading-vector-has-at-most-two-entries")
    return out


def _denotes(obj, X):
    """harness precondition: the holder denotes the model array, up to the rounding of evaluating the representation
    (measured against the array the absolute values of the attributes denote: a form whose terms cancel carries that
    much noise)"""
    D = H.den(obj)
    scale = float(np.max(H.den_abs(obj), initial=0.0)) if X.size else 0.0
    if not (D.shape == X.shape and np.max(np.abs(D - X), initial=0.0) <= 1e-12 * max(scale, 1e-300)):
        raise RuntimeError(f"harness: holder does not denote the model array (max diff {np.max(np.abs(D - X))})")


def _f32_model(obj, X):
    """single-precision storage: the holder denotes the float32 roundings of the model array; the array it denotes (read
    back in double precision from its attributes) is what the answer is judged against.  Harness precondition: it is
    the model up to single-precision rounding of the attributes."""
    D = H.den(obj)
    scale = float(np.max(H.den_abs(obj), initial=0.0))
    if not (D.shape == X.shape and np.max(np.abs(D - X), initial=0.0) <= 1e-5 * max(scale, 1e-300)):
        raise RuntimeError(f"harness: float32 holder is not the rounded model array (max diff {np.max(np.abs(D - X))})")
    return D


def _check(ctx, case, make_holder, holder_name, tight=False, metamorphic=False):
    X = H.dense_of(case)
    n, r, flip = case["n"], case["r"], case["flipsign"]
    I = X.shape[n]
    obj, labels = make_holder(case, X)
    f32 = H.is_f32(case)
    sep = H.SEP
    if f32:
        X = _f32_model(obj, X)
        # spectra spanning 1 .. 1e-4 in the singular values: separated by ratios of 1e2 and more, the property's "well
        # separated" (absolute gaps down to 1e-8 * lambda_1; the tolerance follows the gap)
        sep = _case_sep(case)
    _, lam, Vref = H.reference(X, n)
    k, cls = H.spectrum_class(lam, r, sep)
    sep_ = cls == "separated"
    path = "iterative-path" if r < I - 1 else "dense-path"
    ctx.nt = 1 < r < I and (sep_ or k >= 1)
    labels = labels + H.case_labels(case)
    if cls == "separated-then-negligible":
        labels = labels + ["r-beyond-the-numerical-rank" if k else "all-zero-tensor", "tail:" + path]
    if sep_:
        labels = labels + _lead_structure(Vref, r)
    if isinstance(obj, ttb.ttensor) and isinstance(obj.core, ttb.sptensor):
        # sptensor.ttm answers with a sparse or a dense tensor depending on the density (threshold one half), and
        # ttensor.nvecs has one branch for each
        d = obj.core.nnz / max(1, ref.prod(obj.core.shape))
        labels = labels + ["core-density<=half" if d <= 0.5 else "core-density>half"]
    log = case.get("log")
    ctx.label(holder_name, "family-" + case["family"], "spec-" + str(case.get("spectrum")), f"order{X.ndim}", path,
              cls, "flipsign" if flip else "noflip",
              "r=1" if r == 1 else ("r=I" if r == I else ("r=I-1" if r == I - 1 else "1<r<I-1")),
              *_presentation_labels(case, log), _magnitude(X),
              "I>20" if I > 20 else "I<=20", *labels)
    if f32 and k >= 3 and float(lam[k - 1]) <= 1e-6 * float(lam[0]):
        ctx.label("f32:requested-eigenvalue<=1e-6*lambda_1")
    if I > 20 and path == "iterative-path":
        ctx.label("subspace>20" if 2 * r + 1 > 20 else "subspace=20")
    if I >= 60:
        ctx.label("I>=60", "I>=150" if I >= 150 else "I<150")
    sp = obj if isinstance(obj, ttb.sptensor) else (obj.core if isinstance(obj, ttb.ttensor) and isinstance(obj.core, ttb.sptensor) else None)
    if sp is not None and sp.nnz >= 4000:
        ctx.label("stored-entries>=1e4" if sp.nnz >= 10000 else "stored-entries>=4e3")
    if isinstance(obj, ttb.ktensor) and obj.ncomponents > 20:
        ctx.label("components>20")
    # the holder denotes the array the reference was computed from
    _denotes(obj, X)
    absn2 = None
    values = True
    if tight:
        # the value clauses need the leading eigenvalue to stand clear of the rounding noise of the representation
        # (generic factors with cancellation, powers of two moved between factors and core)
        absn2 = float(np.sum(H.den_abs(obj) ** 2))
        values = float(lam[0]) >= 1e-4 * absn2
        if not values:
            ctx.label("ill-conditioned-representation")
    snap = H.snapshot(obj) if X.size <= 20000 else None
    V0 = None
    if metamorphic:
        V0 = _call(ctx, f"{holder_name}.nvecs", obj, case, n, r, flip, I, case["np_seed"], plain=True)
    V = _call(ctx, f"{holder_name}.nvecs", obj, case, n, r, flip, I, case["np_seed"], log=log)
    if snap is not None:
        ctx.check(H.same_snapshot(obj, snap), "nvecs-leaves-the-object-unchanged")
    applied, _ = _verify(ctx, X, V, n, r, flip, values=values, absnorm2=absn2, sep=sep)
    if metamorphic:
        # the same request, presented plainly: same answer - bit for bit where the solver is deterministic (dense path),
        # to the property's bound where ARPACK draws its start vector (separated columns, up to the sign when the sign
        # rule is off or the two largest magnitudes tie)
        ctx.require(isinstance(V0, np.ndarray) and V0.shape == V.shape, "same-request-same-shape", (getattr(V0, "shape", None), V.shape))
        ctx.check(V0.dtype == V.dtype, "same-request-same-dtype", (str(V0.dtype), str(V.dtype)))
        if path == "dense-path":
            ctx.check(ref.same_exact(np.abs(V0 - V), np.zeros(V.shape)), "same-request-same-answer-exactly", float(np.max(np.abs(V0 - V), initial=0.0)))
        elif applied and np.isrealobj(V0) and np.isrealobj(V):
            d = [min(float(np.linalg.norm(V0[:, j] - V[:, j])), float(np.linalg.norm(V0[:, j] + V[:, j]))) for j in range(k)]
            ctx.check(max(d, default=0.0) <= 1e-6, "same-request-same-answer", max(d, default=0.0))


def _history(ctx, case, make_holder, holder_name):
    """steps on one object; after every step the answer is judged against the array the object denotes *now* (read
    from its attributes), so each call may depend only on its own arguments and the current state.  Several objects
    stay alive: every returned array is kept (and must keep its values through later calls and edits, unless the
    caller overwrote it), overwriting a returned array must leave the holder alone, calls go to twins of the holder
    (copies, or a second object sharing the attribute arrays), and a history may fork: a copy made through the public
    API lives on beside the original, one of them is edited and called, the other one is judged again at the end."""
    X = H.dense_of(case)
    obj, labels = make_holder(case, X)
    ctx.label(holder_name, "family-" + case["family"], f"steps={len(case['steps'])}", *_presentation_labels(case, None)[:2], *labels)
    _denotes(obj, X)
    edited = False
    nt = False
    last = None
    kept = []   # (returned array, its values when it was returned)
    fork = None  # (the object that is not touched any more, the array it denotes, the arguments of the first call)
    for k, s in enumerate(case["steps"]):
        if s.get("fork") and fork is None:
            other = H.twin(obj, s["fork"]["how"])
            if other is None:
                ctx.label("fork-copy-failed")
            else:
                s0 = case["steps"][0]
                Xf = H.den(obj)
                if s["fork"]["go_on_with"] == "copy":
                    fork, obj = (obj, Xf, s0), other
                else:
                    fork = (other, Xf, s0)
                ctx.label("fork-" + s["fork"]["how"], "fork-go-on-with-" + s["fork"]["go_on_with"])
        if s.get("edit"):
            ctx.label(H.apply_edit(obj, s["edit"]))
            edited = True
        Xk = H.den(obj)
        if not bool(np.isfinite(Xk).all()):
            ctx.skip("edit overflowed")
        n, r, flip = s["n"], s["r"], s["flipsign"]
        I = Xk.shape[n]
        if s.get("reject"):
            # a request outside the domain (no such mode, a count that is not a positive integer), rejected or not: the
            # object is the same afterwards, bit for bit in every attribute, and the valid step that follows is judged as if
            # nothing had happened
            rj = s["reject"]
            bn, br = H.rejected_args(rj["kind"], rj["n"], Xk.ndim, Xk.shape[rj["n"]])
            snap = H.snapshot(obj)
            np.random.seed(s["np_seed"])
            try:
                with H.root_logging(rj.get("log")):
                    obj.nvecs(bn, br, flipsign=flip)
                ctx.label("ill-formed-request-accepted", "ill-formed-accepted:" + rj["kind"])
            except Exception:  # noqa: BLE001
                ctx.label("ill-formed-request-rejected", "ill-formed-rejected:" + rj["kind"])
            ctx.check(H.same_snapshot(obj, snap) and ref.same_exact(H.den(obj), Xk), "rejected-request-leaves-the-object-unchanged", rj["kind"])
        target = obj
        if s.get("fresh"):
            t = H.twin(obj, s["fresh"])
            if t is not None:
                target = t
                ctx.label("call-on-" + ("ctor-copy" if s["fresh"] is True else str(s["fresh"])))
        path = "iterative-path:" if r < I - 1 else "dense-path:"
        V = _call(ctx, f"{path}{holder_name}.nvecs", target, case, n, r, flip, I, s["np_seed"], log=s.get("log"))
        ctx.label("step-root-logger:" + (s.get("log") or "untouched"))
        # an edit can make the object denote pure cancellation noise (e.g. zeroing the factor row that carried all the
        # data of a rotated Tucker form): the value clauses need the leading eigenvalue to stand clear of the rounding
        # noise of the representation, 1e-16 * ||den_abs||^2 (bound: noise / (SEP * lambda_1) <= 1e-8 << 1e-6)
        lam1 = float(H.reference(Xk, n)[1][0])
        conditioned = lam1 >= 1e-4 * float(np.sum(H.den_abs(obj) ** 2))
        if not conditioned:
            ctx.label("step-ill-conditioned-representation")
        sep, _ = _verify(ctx, Xk, V, n, r, flip, pre=path, values=conditioned)
        # the call leaves the object alone
        ctx.check(ref.same_exact(H.den(obj), Xk), path + "nvecs-leaves-the-object-unchanged")
        this = (n, r, flip)
        if last is not None:
            ctx.label("repeat-same-arguments" if this == last[0] else
                      ("same-n-r-other-flipsign" if this[:2] == last[0][:2] else ("same-n-other-r" if n == last[0][0] else "other-n")))
        ctx.label(("after-edit-" if edited else "before-edit-") + ("separated" if sep else "not-separated"))
        if edited and sep and 1 < r:
            nt = True
        if s.get("clobber") and isinstance(V, np.ndarray) and V.flags.writeable:
            V[...] = 7.0  # the caller owns the returned array: a later call must not see this, nor may the holder
            ctx.label("returned-array-overwritten")
            ctx.check(ref.same_exact(H.den(obj), Xk) and ref.same_exact(H.den(target), Xk),
                      path + "overwriting-the-returned-array-leaves-the-object-unchanged")
        elif isinstance(V, np.ndarray):
            kept.append((V, np.array(V, copy=True)))
        last = (this, V)
    # the arrays returned earlier still hold what they held when they were returned
    ctx.check(all(ref.same_exact(v, snap) for v, snap in kept), "earlier-results-unchanged-by-later-calls-and-edits")
    if fork is not None:
        other, Xf, s0 = fork
        if not ref.same_exact(H.den(other), Xf):
            ctx.label("fork-copy-shares-state")  # copying is judged by other properties
        else:
            n, r, flip = s0["n"], s0["r"], s0["flipsign"]
            pre = "fork:" + ("iterative-path:" if r < Xf.shape[n] - 1 else "dense-path:")
            V = _call(ctx, f"{pre}{holder_name}.nvecs", other, case, n, r, flip, Xf.shape[n], s0["np_seed"], log=s0.get("log"))
            lam1 = float(H.reference(Xf, n)[1][0])
            sep, _ = _verify(ctx, Xf, V, n, r, flip, pre=pre, values=lam1 >= 1e-4 * float(np.sum(H.den_abs(other) ** 2)))
            ctx.label("fork-judged-" + ("separated" if sep else "not-separated") + ("-after-edit-of-the-other" if edited else ""))
    ctx.nt = nt


def _split(obj_label):
    obj, lab = obj_label
    return obj, [x for x in lab.split(",") if x]


HOLDERS = {
    "tensor": (lambda case, X: _split(H.as_tensor(X, case)), H.TENSOR_STATES),
    "sptensor": (lambda case, X: _split(H.as_sptensor(X, case["stored"], case)), H.SPTENSOR_STATES),
    "ktensor": (lambda case, X: _split(H.as_ktensor(case, X, True)), H.KTENSOR_STATES),
    "ttensor-dense-core": (lambda case, X: _split(H.as_ttensor(case, X, False, True)), H.TTENSOR_STATES),
    "ttensor-sparse-core": (lambda case, X: _split(H.as_ttensor(case, X, True, True)), H.TTENSOR_STATES),
    # scipy coo matrices as factor matrices (admitted by the constructor; ttensor.nvecs has branches of its own for them,
    # and sptensor.ttm only then answers with a sparse tensor); sparse core, every fourth case a dense one
    "ttensor-coo-factors": (lambda case, X: _split(H.as_ttensor(case, X, case.get("tseed", 0) % 4 != 0, True, sparse_factors=True)),
                            H.TTENSOR_STATES),
}


def _register(holder):
    cls = holder.split("-")[0]
    make, states = HOLDERS[holder]

    @cell(f"C14/nvecs/{holder}/sampled", strategy=lambda tier: H.model_case(tier, states=states), quick=370, thorough=7500, shards=(2, 8))
    def sampled(ctx, case, _m=make, _c=cls):
        _check(ctx, case, _m, _c)

    @cell(f"C14/nvecs/{holder}/enumerated", enum=H.enum_models, shards=(2, 8))
    def enumerated(ctx, case, _m=make, _c=cls):
        """fixed models x every mode x every r x both sign settings"""
        _check(ctx, case, _m, _c)

    @cell(f"C14/nvecs/{holder}/large", strategy=lambda tier: H.large_case(tier, states=states), quick=110, thorough=5000, shards=(1, 8))
    def large(ctx, case, _m=make, _c=cls):
        """mode size above 20 (the iterative solver's default subspace no longer spans everything): block models whose
        leading vectors have exact structure (sum zero, few entries, sign symmetric), spectral models with generic ones"""
        _check(ctx, case, _m, _c)

    @cell(f"C14/nvecs/{holder}/structured", strategy=lambda tier: H.structured_case(tier, cls=cls, states=states), quick=125, thorough=3000,
          shards=(1, 8))
    def structured(ctx, case, _m=make, _c=cls):
        """forms whose factors / weights / cores are exactly special, epsilon-perturbed or generic; magnitudes 1e-15..1e15;
        12 decades inside one array; the all-zero tensor; r beyond the rank.  Tight tolerances."""
        _check(ctx, case, _m, _c, tight=True)

    @cell(f"C14/nvecs/{holder}/xlarge", strategy=lambda tier: H.xlarge_case(tier, cls=cls, states=states), quick=3, thorough=40, shards=(1, 4))
    def xlarge(ctx, case, _m=make, _c=cls):
        """a few large cases: mode sizes 60..200, 1e4+ stored nonzeros, tall factor matrices"""
        _check(ctx, case, _m, _c, tight=True)

    @cell(f"C14/nvecs/{holder}/presentation", strategy=lambda tier: H.presentation_case(tier, cls=cls, states=states), quick=20, thorough=200,
          shards=(1, 4))
    def presentation(ctx, case, _m=make, _c=cls):
        """the same request presented plainly and as ordinary callers do (numpy integer scalars for n and r, numpy.bool_ or
        positional flipsign) with the root logger at DEBUG / INFO: same answer, and the answer obeys the property"""
        _check(ctx, case, _m, _c, metamorphic=True)

    if cls != "ktensor":  # the ktensor constructor demands float64 factor matrices
        @cell(f"C14/nvecs/{holder}/float32", strategy=lambda tier: H.float32_case(tier, states=states), quick=25, thorough=250, shards=(1, 4))
        def float32(ctx, case, _m=make, _c=cls):
            """single-precision data (values / core / factor matrices stored as float32): judged against eigh of the Gram
            matrix of the float64 copy of the stored values, with the double-precision tolerances of */structured"""
            _check(ctx, case, _m, _c, tight=True)

    @cell(f"C14/history/{holder}", strategy=lambda tier: H.history_case(tier, states=states, cls=cls), quick=140, thorough=5500, shards=(1, 8))
    def history(ctx, case, _m=make, _c=cls):
        """2..4 calls on one object with in-place edits of its attribute arrays in between"""
        _history(ctx, case, _m, _c)


for _holder in HOLDERS:
    _register(_holder)


@cell("C14/nvecs/sptensor/long-modes", strategy=H.long_case, quick=25, thorough=500, shards=(1, 4))
def long_modes(ctx, case):
    """sparse tensor whose modes other than n have lengths 2**16 .. 2**62 with entries at a handful of their indices: the
    mode-n Gram matrix is that of the small dense array obtained by deleting the empty slices of the long modes"""
    X = H.dense_of(case)
    n, r, flip = case["n"], case["r"], case["flipsign"]
    subs, vals = H.nonzeros_F(X)
    big = subs.astype(np.int64)
    shape = [int(v) for v in X.shape]
    for k, spec in case["long"].items():
        used = np.array(spec["used"], dtype=np.int64)
        big[:, int(k)] = used[subs[:, int(k)]]
        shape[int(k)] = int(spec["L"])
    p = np.random.default_rng(int(case["tseed"])).permutation(len(big))
    S = ttb.sptensor(big[p], vals[p], tuple(shape))
    I = X.shape[n]
    cls = H.spectrum_class(H.reference(X, n)[1], r)[1]
    lmax = max(int(spec["L"]) for spec in case["long"].values())
    ctx.label("sptensor", f"order{X.ndim}", "iterative-path" if r < I - 1 else "dense-path", cls, f"long-modes={len(case['long'])}",
              "longest>=2**53" if lmax >= 2 ** 53 else ("longest=2**40" if lmax >= 2 ** 40 else "longest=2**16"),
              "cells>=2**63" if ref.prod(shape) >= 2 ** 63 else "cells<2**63",
              *(["indices-2**53-and-2**53+1"] if any({2 ** 53, 2 ** 53 + 1} <= set(spec["used"]) for spec in case["long"].values()) else []))
    ctx.nt = 1 < r < I and cls != "not-separated"
    V = _call(ctx, "sptensor.nvecs", S, case, n, r, flip, I, case["np_seed"], log=case.get("log"))
    _verify(ctx, X, V, n, r, flip)


# --------------------------------------------------------------------------
# predicates for known findings
# --------------------------------------------------------------------------


def _In(case):
    return case["shape"][case["n"]]


def _P(case):
    return ref.prod(case["shape"]) // _In(case)


def _regular(case):
    """order >= 2, mode n and the product of the other modes both larger than one"""
    return len(case["shape"]) >= 2 and _In(case) >= 2 and _P(case) >= 2


def _int_storage(case):
    return H.int_dtype_of(case, H.dense_of(case)) is not None


def _case_sep(case):
    return 1e-9 if H.is_f32(case) and str(case.get("spectrum", "")).startswith("wide") else H.SEP


def _repeated_tail(case):
    """the request reaches into the negligible tail of the spectrum (a repeated, numerically zero eigenvalue)"""
    lam = H.reference(H.dense_of(case), case["n"])[1]
    return H.spectrum_class(lam, case["r"], _case_sep(case))[1] == "separated-then-negligible"


def _f32_rotation_factors(case):
    """float32 core *and* float32 factor matrices (as_ttensor keeps the factors float64 when tseed is a multiple of 3) that
    are rotations (the block family with an even tseed gets permutation factors, whose Gram matrices are exact)"""
    return H.is_f32(case) and case.get("tseed", 0) % 3 != 0 and not (case["family"] == "block" and case.get("tseed", 0) % 2 == 0)


ARPACK_FLOOR = float(np.finfo(float).eps) ** (2.0 / 3.0)  # 3.67e-11: dsconv tests bounds <= tol * max(eps23, |ritz|)


def _below_floor(case):
    """iterative solver on a mode longer than ARPACK's default subspace, largest Gram eigenvalue below ARPACK's floor"""
    I = _In(case)
    if not (case["r"] < I - 1 and I > 20):
        return False
    lam = H.reference(H.dense_of(case), case["n"])[1]
    return 0 < float(lam[0]) < ARPACK_FLOOR


def _history_below_floor(case):
    """histories: a mode longer than 20 and data so small that every Gram matrix stays below the floor also after the
    edits (which scale by at most 4 each)"""
    X = H.dense_of(case)
    return max(case["shape"]) > 20 and 0 < float(np.sum(X * X)) < ARPACK_FLOOR / 4096.0


PREDICATES = {
    "ttensor_float32_rotation_factors": _f32_rotation_factors,
    # coo-factors holder: the core is dense (and the form a rotation) only when tseed is a multiple of 4
    "ttensor_float32_rotation_coo_factors": lambda case: _f32_rotation_factors(case) and case.get("tseed", 0) % 4 == 0,
    "iterative_path_gram_below_arpack_floor": _below_floor,
    "history_gram_below_arpack_floor": _history_below_floor,
    "long_other_mode": lambda case: any(int(spec["L"]) >= 2 ** 40 for spec in case.get("long", {}).values()),
    "dense_path_f32_wide_spectrum": lambda case: case["r"] >= _In(case) - 1 and _case_sep(case) < H.SEP,
    "dense_path_repeated_tail": lambda case: case["r"] >= _In(case) - 1 and _repeated_tail(case),
    # integer core and integer factor matrices (as_ttensor keeps the factors float when tseed is a multiple of 3)
    "ttensor_all_integer_iterative": lambda case: _int_storage(case) and case.get("tseed", 0) % 3 != 0 and case["r"] < _In(case) - 1,
    "sptensor_int_storage_iterative": lambda case: _int_storage(case) and case["r"] < _In(case) - 1,
    "sptensor_int_storage_dense": lambda case: _int_storage(case) and case["r"] >= _In(case) - 1,
    "dense_path_regular": lambda case: _regular(case) and case["r"] >= _In(case) - 1,
    "dense_path": lambda case: case["r"] >= _In(case) - 1,
    "all_singleton": lambda case: all(s == 1 for s in case["shape"]),
    "iterative_path_regular": lambda case: _regular(case) and case["r"] < _In(case) - 1,
    "regular": _regular,
    "degenerate_unfolding": lambda case: not _regular(case),
    "order1": lambda case: len(case["shape"]) == 1,
}
