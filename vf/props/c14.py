"""C14 — leading mode-n vectors span the dominant subspace in every representation."""

from __future__ import annotations

import logging

import numpy as np

import pyttb as ttb

from .. import gen, ref
from ..core import cell
from . import _c14_helpers as H

PROPERTY = "C14"
RULE = (
    "cases = (model, mode n, count r in 1..I_n, flipsign) where the model is built so that the mode-n Gram matrix has a "
    "prescribed spectrum: 'spectral' = U diag(s) W^T folded along mode n with s geometric / a close pair (relative gap "
    "4e-3) / one dominant value / rank-deficient / slow decay, scaled by 1e-3..1e3; 'cp' = Kruskal tensor with "
    "orthonormal factor columns, weights of either sign, optional tiny generic components; 'sparse' = integer tensor "
    "with one / some / all nonzeros.  Every holder (tensor, sptensor in two stored orders, ktensor, ttensor with dense "
    "or sparse core) of the same array is a cell of its own and is compared with eigh of the Gram matrix of the "
    "denoted array.  A fixed list of models is enumerated over every n and every r.  Non-trivial: 1 < r < I_n."
)
ASSUMPTIONS = [
    "reference: G = X_(n) X_(n)^T from the denoted array, numpy.linalg.eigh, eigenvalues in decreasing order",
    "value clauses apply when the r leading eigenvalues are pairwise separated, and separated from the (r+1)-th, by "
    "at least 1e-3*lambda_1 (the property quantifies over well separated leading eigenvalues); other cases only get "
    "the shape and real-dtype clauses",
    "tolerances: V^T V = I within 1e-8; ||G v_j - lambda_j v_j|| <= 1e-6*lambda_1; captured energy within "
    "1e-6*r*lambda_1; projector V V^T within 1e-6 (entrywise) of the reference projector; sign rule skipped for a "
    "column whose two largest magnitudes differ by less than 1e-9",
    "np.random.seed(case['np_seed']) immediately before every nvecs call (ARPACK start vectors)",
    "holders denote the same array up to rounding of the orthogonal rotations used to build the Tucker/Kruskal forms "
    "(1e-15 relative), far below the tolerances",
]

logging.disable(logging.WARNING)  # pyttb warns through the root logger about memory order on internal copies


def _check(ctx, case, make_holder, holder_name):
    X = H.dense_of(case)
    n, r, flip = case["n"], case["r"], case["flipsign"]
    I = X.shape[n]
    G, lam, Vref = H.reference(X, n)
    sep = H.separated(lam, r)
    path = "iterative-path" if r < I - 1 else "dense-path"
    ctx.nt = 1 < r < I and sep
    ctx.label(holder_name, "family-" + case["family"], "spec-" + str(case.get("spectrum")), f"order{X.ndim}", path,
              "separated" if sep else "not-separated", "flipsign" if flip else "noflip",
              "r=1" if r == 1 else ("r=I" if r == I else ("r=I-1" if r == I - 1 else "1<r<I-1")))
    obj = make_holder(case, X)
    # the holder denotes the array the reference was computed from
    D = ref.den(obj)
    scale = np.max(np.abs(X)) if X.size else 0.0
    if not (D.shape == X.shape and np.max(np.abs(D - X), initial=0.0) <= 1e-12 * max(scale, 1e-300)):
        raise RuntimeError(f"harness: holder does not denote the model array (max diff {np.max(np.abs(D - X))})")
    np.random.seed(case["np_seed"])
    with ctx.sut(f"{holder_name}.nvecs"):
        V = obj.nvecs(n, r, flipsign=flip)
    ctx.require(isinstance(V, np.ndarray) and V.shape == (I, r), "nvecs-returns-In-by-r-array",
                (type(V).__name__, getattr(V, "shape", None)))
    isreal = np.isrealobj(V)
    ctx.check(isreal, "nvecs-real-dtype", str(V.dtype))
    ctx.require(bool(np.isfinite(V).all()), "nvecs-finite")
    if not sep:
        return
    if not isreal:
        # keep searching behind a complex dtype: the values must still be the real eigenvectors
        ctx.require(float(np.max(np.abs(V.imag), initial=0.0)) <= 1e-12, "nvecs-imaginary-part-zero", float(np.max(np.abs(V.imag))))
        V = np.ascontiguousarray(V.real)
    l1 = lam[0]
    ctx.check(float(np.max(np.abs(V.T @ V - np.eye(r)))) <= 1e-8, "nvecs-columns-orthonormal",
              float(np.max(np.abs(V.T @ V - np.eye(r)))))
    res = [float(np.linalg.norm(G @ V[:, j] - lam[j] * V[:, j])) for j in range(r)]
    ctx.check(max(res) <= 1e-6 * l1, "nvecs-columns-are-eigenvectors-in-decreasing-order", (res, lam[: r + 1].tolist()))
    energy = float(np.trace(V.T @ G @ V))
    ctx.check(abs(energy - float(lam[:r].sum())) <= 1e-6 * r * l1, "nvecs-captures-leading-energy", (energy, float(lam[:r].sum())))
    P, Pref = V @ V.T, Vref[:, :r] @ Vref[:, :r].T
    ctx.check(float(np.max(np.abs(P - Pref))) <= 1e-6, "nvecs-spans-dominant-subspace", float(np.max(np.abs(P - Pref))))
    if flip:
        bad = []
        for j in range(r):
            a = np.abs(V[:, j])
            o = np.argsort(-a)
            if len(o) >= 2 and a[o[0]] - a[o[1]] <= 1e-9 * a[o[0]]:
                continue
            if V[o[0], j] <= 0:
                bad.append(j)
        ctx.check(not bad, "nvecs-flipsign-largest-entry-positive", bad)


def _sampled(families=None):
    if families is None:
        return lambda tier: H.model_case(tier)
    return lambda tier: H.model_case(tier, families=families)


HOLDERS = {
    "tensor": lambda case, X: H.as_tensor(X),
    "sptensor": lambda case, X: H.as_sptensor(X, case["stored"]),
    "ktensor": lambda case, X: H.as_ktensor(case, X),
    "ttensor-dense-core": lambda case, X: H.as_ttensor(case, X, False),
    "ttensor-sparse-core": lambda case, X: H.as_ttensor(case, X, True),
}


def _register(holder):
    cls = holder.split("-")[0]

    @cell(f"C14/nvecs/{holder}/sampled", strategy=_sampled(), quick=700, thorough=9000, shards=(2, 8))
    def sampled(ctx, case, _h=holder, _c=cls):
        _check(ctx, case, HOLDERS[_h], _c)

    @cell(f"C14/nvecs/{holder}/enumerated", enum=H.enum_models, shards=(2, 8))
    def enumerated(ctx, case, _h=holder, _c=cls):
        """fixed models x every mode x every r x both sign settings"""
        _check(ctx, case, HOLDERS[_h], _c)


for _holder in HOLDERS:
    _register(_holder)


# --------------------------------------------------------------------------
# predicates for known findings
# --------------------------------------------------------------------------


def _In(case):
    return case["shape"][case["n"]]


def _P(case):
    return ref.prod(case["shape"]) // _In(case)


def _regular(case):
    """order >= 2, mode n and the product of the other modes both larger than one"""
    return len(case["shape"]) >= 2 and _In(case) >= 2 and _P(case) >= 2


PREDICATES = {
    "dense_path_regular": lambda case: _regular(case) and case["r"] >= _In(case) - 1,
    "dense_path": lambda case: case["r"] >= _In(case) - 1,
    "all_singleton": lambda case: all(s == 1 for s in case["shape"]),
    "iterative_path_regular": lambda case: _regular(case) and case["r"] < _In(case) - 1,
    "regular": _regular,
    "degenerate_unfolding": lambda case: not _regular(case),
    "order1": lambda case: len(case["shape"]) == 1,
}
