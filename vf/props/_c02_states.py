"""Derived object states and storage dtypes for the C02 holders (round 2, classes 1 and 2 of the brief).

A holder case denotes one array (``_c02_common.den_case``).  How the pyttb object holding that array comes into
being is the holder's *state*: the constructor (as in round 1), or a short history of public operations that ends
in an object denoting the same array but laid out as no constructor lays it out:

  tensor     grown by assignment (C-ordered buffer, numpy ints in ``shape``), result of permute / reshape /
             squeeze / slicing / arithmetic / tenmat.to_tensor / sptensor.to_tensor
  sptensor   explicitly stored zeros (the unvalidated constructor, ``scale`` by a factor with zeros, ``S*0 + ...``),
             numpy ints in ``shape``, grown by assignment, result of permute / tensor.to_sptensor / from_aggregator
  ktensor    after normalize(weight_factor=k | None | "all") (C-ordered factors, weights absorbed), arrange,
             redistribute, K1 + K2, permute, double negation
  ttensor    core in any of the dense / sparse states (handed over with and without copying), result of permute

Every history uses the public API only.  The *operations that make the history* are judged by other properties
(C03, C04, C07 ...): here a builder verifies (reading attributes only) that the object it made denotes the holder's
array and falls back to the plain constructor otherwise (``BUILD_NOTES`` records the fallback for the labels).

Nothing here is an oracle: the reference array is still computed from the case dict alone.
"""

from __future__ import annotations

import itertools
from typing import List

import numpy as np
from hypothesis import strategies as st

import pyttb as ttb

from .. import gen, ref

# what the last builds did: list of strings ("state-achieved:<how>" / "state-fallback:<how>"), reset by the caller
BUILD_NOTES: List[str] = []

INT_DTYPES = ("int64", "int64", "int32", "uint8")  # storage dtypes for integer-valued data (uint8: non-negative data)
SMALL_DTYPES = ("uint8",)


def note(how, ok):
    BUILD_NOTES.append(("state-achieved:" if ok else "state-fallback:") + how)


# --------------------------------------------------------------------------
# drawing
# --------------------------------------------------------------------------

DENSE_HOWS = ("ctor", "ctor", "grown", "grown", "permute", "reshape", "squeeze", "slice", "arith", "tenmat", "spfull")
SPARSE_HOWS = ("ctor", "ctor", "ctor", "zeros-ctor", "zeros-ctor", "zeros-scale", "zeros-scale", "zeros-times0", "npshape",
               "grown", "grown", "permute", "from-dense", "aggregator")
KRUSKAL_HOWS = ("ctor", "ctor", "normalize-k", "normalize-k", "normalize", "normalize-all", "arrange", "redistribute",
                "sum", "permute", "negneg")
TUCKER_HOWS = ("ctor", "ctor", "core-nocopy", "core-nocopy", "permute")


@st.composite
def dense_state(draw, shape):
    how = draw(st.sampled_from(DENSE_HOWS))
    N = len(shape)
    s = dict(how=how)
    if how in ("permute", "tenmat"):
        s["perm"] = list(draw(st.permutations(range(N))))
        s["k"] = draw(st.integers(0, N))
    elif how == "grown":
        cand = [m for m in range(N) if shape[m] >= 2]
        s["mode"] = draw(st.sampled_from(cand)) if cand else None
        s["form"] = draw(st.sampled_from(["subs", "slab"]))
    elif how == "squeeze":
        s["at"] = draw(st.integers(0, N))
    elif how == "arith":
        s["op"] = draw(st.sampled_from(["plus0", "times1", "negneg"]))
    return s


@st.composite
def sparse_state(draw, shape, nnz):
    how = draw(st.sampled_from(SPARSE_HOWS))
    N = len(shape)
    s = dict(how=how)
    if how.startswith("zeros"):
        # positions of explicitly stored zeros (those that hold a nonzero of the case are dropped by the builder) and
        # where in the stored list they go
        n = ref.prod(shape)
        k = draw(st.integers(1, max(1, min(4, n))))
        s["extra"] = draw(st.lists(st.integers(0, max(0, n - 1)), min_size=k, max_size=k, unique=True))
        s["at"] = draw(st.lists(st.integers(0, nnz + k), min_size=k, max_size=k))
    elif how == "permute":
        s["perm"] = list(draw(st.permutations(range(N))))
    elif how == "grown":
        cand = [m for m in range(N) if shape[m] >= 2]
        s["mode"] = draw(st.sampled_from(cand)) if cand else None
    if draw(st.integers(0, 3)) == 0:
        s["npshape"] = True
    return s


@st.composite
def kruskal_state(draw, shape, rank):
    how = draw(st.sampled_from(KRUSKAL_HOWS))
    N = len(shape)
    s = dict(how=how)
    if how in ("normalize-k", "redistribute"):
        s["mode"] = draw(st.integers(0, N - 1))
    if how == "arrange":
        s["perm"] = list(draw(st.permutations(range(rank))))
    if how == "sum":
        s["cut"] = draw(st.integers(1, rank - 1)) if rank >= 2 else None
    if how == "permute":
        s["perm"] = list(draw(st.permutations(range(N))))
    return s


@st.composite
def tucker_state(draw, h):
    how = draw(st.sampled_from(TUCKER_HOWS))
    s = dict(how=how)
    if how == "permute":
        s["perm"] = list(draw(st.permutations(range(len(h["shape"])))))
    if h["sparse_core"]:
        s["core"] = draw(sparse_state(h["cshape"], sum(1 for v in h["core"] if v != 0)))
    else:
        s["core"] = draw(dense_state(h["cshape"]))
    return s


def draw_dtype(draw, h):
    """Storage dtype for integer-valued data (float64 otherwise).  uint8 needs non-negative data: the caller maps the
    drawn values with abs() (``apply_unsigned``)."""
    if h.get("vkind") != "int":
        return None
    return draw(st.sampled_from((None, None) + INT_DTYPES))


# --------------------------------------------------------------------------
# dense tensors
# --------------------------------------------------------------------------


def _ok_tensor(T, A):
    try:
        return (isinstance(T, ttb.tensor) and isinstance(T.data, np.ndarray)
                and tuple(int(x) for x in T.shape) == A.shape and T.data.shape == A.shape
                and np.array_equal(np.asarray(T.data, dtype=float), np.asarray(A, dtype=float)))
    except Exception:  # noqa: BLE001
        return False


def _ctor_tensor(A):
    return ttb.tensor(A.copy(order="F"), tuple(A.shape))


def _all_subs(shape):
    return np.array(list(itertools.product(*[range(n) for n in shape])), dtype=int).reshape(-1, len(shape))


def _derive_dense(A, s):
    how, shape, N = s["how"], A.shape, A.ndim
    if how == "grown":
        m = s.get("mode")
        if m is None or A.size == 0:
            return None
        small = np.take(A, range(shape[m] - 1), axis=m)
        T = ttb.tensor(small.copy(order="F"), small.shape)
        if s.get("form") == "slab" and N >= 2:
            key = tuple(slice(None) if d != m else shape[m] - 1 for d in range(N))
            slab = np.take(A, shape[m] - 1, axis=m)
            T[key] = slab.copy(order="F")
        else:
            subs = np.array([x for x in itertools.product(*[range(n) for n in shape]) if x[m] == shape[m] - 1], dtype=int)
            T[subs] = np.array([A[tuple(x)] for x in subs], dtype=A.dtype)
        return T
    if how == "permute":
        p = s["perm"]
        T0 = ttb.tensor(np.transpose(A, p).copy(order="F"), tuple(shape[i] for i in p))
        return T0.permute(np.argsort(p))
    if how == "reshape":
        if N == 0:
            return None
        return ttb.tensor(A.reshape(-1, order="F").copy(), (A.size,)).reshape(tuple(shape))
    if how == "squeeze":
        if any(n == 1 for n in shape) or N == 0:
            return None
        at = s["at"]
        big = list(shape[:at]) + [1] + list(shape[at:])
        return ttb.tensor(A.reshape(big, order="F").copy(order="F"), tuple(big)).squeeze()
    if how == "slice":
        if N < 2:
            return None
        big = np.full(tuple(n + 1 for n in shape), 7, dtype=A.dtype)
        big[tuple(slice(0, n) for n in shape)] = A
        return ttb.tensor(big.copy(order="F"), big.shape)[tuple(slice(0, n) for n in shape)]
    if how == "arith":
        T = _ctor_tensor(A)
        if s["op"] == "plus0":
            return T + 0
        if s["op"] == "times1":
            return T * 1
        if A.dtype.kind == "u":
            return None
        return -(-T)
    if how == "tenmat":
        p, k = s["perm"], s["k"]
        r, c = p[:k], p[k:]
        M = ref.matricize(A, r, c)
        return ttb.tenmat(np.asfortranarray(M), np.array(r, dtype=int), np.array(c, dtype=int), tuple(shape)).to_tensor()
    if how == "spfull":
        idx = [tuple(x) for x in _all_subs(shape) if A[tuple(x)] != 0]
        if not idx:
            return None
        S = ttb.sptensor(np.array(idx[::-1], dtype=int).reshape(len(idx), N),
                         np.array([A[x] for x in idx[::-1]], dtype=A.dtype).reshape(-1, 1), tuple(shape))
        return S.to_tensor()
    return None


def build_dense(A, s):
    """tensor denoting A (dtype as A's) in state ``s``."""
    how = (s or {}).get("how", "ctor")
    if how != "ctor":
        try:
            T = _derive_dense(A, s)
        except Exception:  # noqa: BLE001
            T = None
        ok = T is not None and _ok_tensor(T, A)
        note("tensor-" + how, ok)
        if ok:
            return T
    return _ctor_tensor(A)


# --------------------------------------------------------------------------
# sparse tensors
# --------------------------------------------------------------------------


def _ok_sptensor(S, A):
    try:
        if not isinstance(S, ttb.sptensor) or ref.sptensor_problems(S, allow_explicit_zero=True):
            return False
        if tuple(int(x) for x in S.shape) != A.shape:
            return False
        return bool(np.array_equal(ref.den_sptensor(S), np.asarray(A, dtype=float)))
    except Exception:  # noqa: BLE001
        return False


def _ctor_sptensor(subs, vals, shape, dtype, npshape=False):
    shp = tuple(np.int64(n) for n in shape) if npshape else tuple(int(n) for n in shape)
    if len(subs) == 0:
        return ttb.sptensor(shape=shp)
    return ttb.sptensor(np.array(subs, dtype=int).reshape(len(subs), len(shape)),
                        np.array(vals, dtype=dtype).reshape(-1, 1), shp)


def _with_extras(subs, vals, shape, s, fill):
    """stored list with the extra positions of the state inserted (value ``fill``); positions already stored are
    skipped.  Returns (subs, vals, number inserted)."""
    have = {tuple(x) for x in subs}
    allsubs = ref.all_subs_F(shape)
    subs, vals = [list(x) for x in subs], list(vals)
    k = 0
    for lin, at in zip(s["extra"], s["at"]):
        if not allsubs:
            break
        # the drawn position, or the next free one after it
        p = next((tuple(allsubs[(lin + j) % len(allsubs)]) for j in range(len(allsubs))
                  if tuple(allsubs[(lin + j) % len(allsubs)]) not in have), None)
        if p is None:
            break
        have.add(p)
        at = min(at, len(subs))
        subs.insert(at, list(p))
        vals.insert(at, fill)
        k += 1
    return subs, vals, k


def _derive_sparse(subs, vals, shape, dtype, s, A):
    how, N = s["how"], len(shape)
    npshape = bool(s.get("npshape"))
    if how == "npshape":
        return _ctor_sptensor(subs, vals, shape, dtype, npshape=True)
    if how == "zeros-ctor":
        s2, v2, k = _with_extras(subs, vals, shape, s, 0)
        return _ctor_sptensor(s2, v2, shape, dtype, npshape) if k else None
    if how == "zeros-times0":
        # (junk at the extra positions) * 0  +  the tensor: sparse + sparse keeps the union of the stored patterns
        s2, v2, k = _with_extras([], [], shape, s, 3)
        if not k:
            return None
        Z = _ctor_sptensor(s2, v2, shape, dtype, npshape) * 0
        if not len(subs):
            return Z
        return _plus_keep(Z, _ctor_sptensor(subs, vals, shape, dtype))
    if how == "zeros-scale":
        # slices of one mode without nonzeros are masked out by scale(): junk stored there becomes stored zeros
        for m in range(N):
            empty = [i for i in range(shape[m]) if not np.any(np.take(A, i, axis=m))]
            if not empty:
                continue
            allsubs = [x for x in ref.all_subs_F(shape) if x[m] in empty]
            pick = [allsubs[lin % len(allsubs)] for lin in s["extra"]]
            pick = list(dict.fromkeys(tuple(x) for x in pick))
            s2 = [list(x) for x in subs]
            v2 = list(vals)
            for at, p in zip(s["at"], pick):
                at = min(at, len(s2))
                s2.insert(at, list(p))
                v2.insert(at, 5)
            f = np.array([0.0 if i in empty else 1.0 for i in range(shape[m])])
            return _ctor_sptensor(s2, v2, shape, dtype, npshape).scale(f, m)
        return None
    if how == "grown":
        m = s.get("mode")
        if m is None:
            return None
        last = [(x, v) for x, v in zip(subs, vals) if x[m] == shape[m] - 1]
        rest = [(x, v) for x, v in zip(subs, vals) if x[m] != shape[m] - 1]
        if not last:
            return None
        small = [n - 1 if d == m else n for d, n in enumerate(shape)]
        S = _ctor_sptensor([x for x, _ in rest], [v for _, v in rest], small, dtype)
        S[np.array([x for x, _ in last], dtype=int).reshape(len(last), N)] = np.array([v for _, v in last], dtype=dtype).reshape(-1, 1)
        return S
    if how == "permute":
        p = s["perm"]
        S0 = _ctor_sptensor([[x[i] for i in p] for x in subs], vals, [shape[i] for i in p], dtype, npshape)
        return S0.permute(np.argsort(p))
    if how == "from-dense":
        return ttb.tensor(np.asarray(A, dtype=dtype).copy(order="F"), tuple(shape)).to_sptensor()
    if how == "aggregator":
        if not len(subs):
            return None
        return ttb.sptensor.from_aggregator(np.array(subs, dtype=int).reshape(len(subs), N),
                                            np.array(vals, dtype=dtype).reshape(-1, 1), tuple(shape))
    return None


def _plus_keep(Z, S):
    R = Z + S
    return R if isinstance(R, ttb.sptensor) else None


def build_sparse(subs, vals, shape, dtype, s, A):
    how = (s or {}).get("how", "ctor")
    if how != "ctor":
        try:
            S = _derive_sparse(subs, vals, shape, dtype, s, A)
        except Exception:  # noqa: BLE001
            S = None
        ok = S is not None and _ok_sptensor(S, A)
        if ok and how.startswith("zeros"):
            ok = bool(S.vals.size and (S.vals == 0).any())
        note("sptensor-" + how, ok)
        if ok:
            return S
    return _ctor_sptensor(subs, vals, shape, dtype, bool((s or {}).get("npshape")))


# --------------------------------------------------------------------------
# Kruskal tensors
# --------------------------------------------------------------------------

KRUSKAL_EXACT_HOWS = ("ctor", "arrange", "sum", "permute", "negneg")


def kruskal_state_exact(s):
    """does the history keep integer-valued parameters integer-valued (so that results are compared exactly)?"""
    return (s or {}).get("how", "ctor") in KRUSKAL_EXACT_HOWS


def _derive_kruskal(w, fm, s):
    how = s["how"]
    K = ttb.ktensor([m.copy() for m in fm], w.copy())
    if how == "normalize-k":
        return K.normalize(weight_factor=s["mode"])
    if how == "normalize":
        return K.normalize()
    if how == "normalize-all":
        return K.normalize(weight_factor="all")
    if how == "arrange":
        K.arrange(permutation=np.array(s["perm"], dtype=int))
        return K
    if how == "redistribute":
        K.redistribute(s["mode"])
        return K
    if how == "sum":
        c = s.get("cut")
        if c is None:
            return None
        return ttb.ktensor([m[:, :c].copy() for m in fm], w[:c].copy()) + ttb.ktensor([m[:, c:].copy() for m in fm], w[c:].copy())
    if how == "permute":
        p = s["perm"]
        return ttb.ktensor([fm[i].copy() for i in p], w.copy()).permute(np.argsort(p))
    if how == "negneg":
        return -(-K)
    return None


def build_kruskal(w, fm, s):
    how = (s or {}).get("how", "ctor")
    if how != "ctor":
        try:
            K = _derive_kruskal(w, fm, s)
        except Exception:  # noqa: BLE001
            K = None
        ok = False
        if isinstance(K, ttb.ktensor):
            try:
                want = ref.den_kruskal(w, fm)
                got = ref.den_ktensor(K)
                tol = 64 * (len(fm) + 2) * ref.EPS * ref.abs_kruskal(w, fm) + 1e-290
                ok = got.shape == want.shape and bool(np.all(np.abs(got - want) <= tol))
                if ok and kruskal_state_exact(s):
                    ok = bool(np.array_equal(got, want))
            except Exception:  # noqa: BLE001
                ok = False
        note("ktensor-" + how, ok)
        if ok:
            return K
    return ttb.ktensor([m.copy() for m in fm], w.copy())


# --------------------------------------------------------------------------
# labels of the object actually built
# --------------------------------------------------------------------------


def object_labels(X, prefix="") -> List[str]:
    out = []
    if isinstance(X, ttb.tensor):
        d = np.asarray(X.data)
        if d.ndim >= 2 and d.size > 1 and not d.flags["F_CONTIGUOUS"]:
            out.append(prefix + "obj-dense-not-F-contiguous")
        if any(isinstance(n, np.integer) for n in X.shape):
            out.append(prefix + "obj-dense-numpy-int-shape")
        if d.dtype != np.float64:
            out.append(prefix + "obj-dense-dtype-" + str(d.dtype))
    elif isinstance(X, ttb.sptensor):
        if X.vals.size and (X.vals == 0).any():
            out.append(prefix + "obj-sparse-explicit-zeros")
        if any(isinstance(n, np.integer) for n in X.shape):
            out.append(prefix + "obj-sparse-numpy-int-shape")
        if X.vals.size and X.vals.dtype != np.float64:
            out.append(prefix + "obj-sparse-dtype-" + str(X.vals.dtype))
    elif isinstance(X, ttb.ktensor):
        if any(f.ndim == 2 and f.size > 1 and min(f.shape) > 1 and not f.flags["F_CONTIGUOUS"] for f in X.factor_matrices):
            out.append(prefix + "obj-kruskal-factor-not-F-contiguous")
    elif isinstance(X, ttb.ttensor):
        out += object_labels(X.core, prefix + "core:")
        if any(f.dtype != np.float64 for f in X.factor_matrices):
            out.append(prefix + "obj-tucker-int-factors")
    elif isinstance(X, ttb.sumtensor):
        for p in X.parts:
            out += object_labels(p, prefix + "part:")
    return sorted(set(out))
