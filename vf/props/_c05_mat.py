"""C05 cells for pyttb.tenmat and pyttb.sptenmat."""

from __future__ import annotations

import numpy as np
import scipy.sparse as sp
from hypothesis import strategies as st

import pyttb as ttb

from .. import gen, ref
from . import _c05_reg as R
from . import _c05_tensor as CT
from ._c05_reg import op

# ==========================================================================
# tenmat
# ==========================================================================


@st.composite
def tm_case(draw, tier, min_order=1, max_order=3):
    c = draw(gen.dense_case(tier, min_order=min_order, max_order=max_order, max_cells=36))
    r, cc = draw(gen.ordered_partition(len(c["shape"])))
    c["rdims"], c["cdims"] = r, cc
    return c


def tm_data(c):
    A = gen.arr_F(c["shape"], c["data"])
    return np.asfortranarray(ref.matricize(A, c["rdims"], c["cdims"]))


def TM(c):
    """tenmat of the case: from the constructor, or (round 2: results of one operation fed into the next) obtained by
    matricising a tensor that is itself in a derived state, when that gives the same object state"""
    D = tm_data(c)
    rd, cd = np.array(c["rdims"], dtype=int), np.array(c["cdims"], dtype=int)
    how = (c.get("_st") or {}).get("how", "ctor")
    if how != "ctor" or c.get("_dt"):
        try:
            X = R.CS.build_tensor(c).to_tenmat(rd.copy(), cd.copy())
            ok = (isinstance(X, ttb.tenmat) and np.array_equal(np.asarray(X.data, dtype=float), D)
                  and list(X.rindices) == list(rd) and list(X.cindices) == list(cd) and tuple(X.tshape) == tuple(c["shape"]))
        except Exception:  # noqa: BLE001
            ok = False
        R.CS.ST.note("tenmat-from-tensor-" + how, ok)
        if ok:
            return X
    return ttb.tenmat(D, rd, cd, tuple(c["shape"]))


def tm_labels(ctx, c):
    ctx.label("rows-empty" if not c["rdims"] else ("cols-empty" if not c["cdims"] else "both-sides"))


@st.composite
def g_tmctor(draw, tier):
    c = draw(tm_case(tier))
    c["layout"] = draw(st.sampled_from(["F", "C", "1d"])) if not c["rdims"] else draw(st.sampled_from(["F", "C"]))
    c["given"] = draw(st.sampled_from(["both", "rdims", "cdims"]))
    c["tshape_arg"] = draw(st.sampled_from(["tuple", "array"]))
    c["copy_kw"] = draw(st.booleans())
    c["_present"] = R.d_present(draw, values=["data"], indices=["rdims", "cdims", "tshape"])
    return c


@op("tenmat/ctor-copy", g_tmctor, quick=60)
def _(ctx, c):
    D = tm_data(c)
    if c["layout"] == "C":
        D = np.ascontiguousarray(D)
    elif c["layout"] == "1d":
        D = D.reshape(-1, order="F").copy()
    D = R.presented(ctx, c, "data", D)
    ops = {"data": D}
    kw = {}
    if c["given"] in ("both", "rdims"):
        kw["rdims"] = R.presented(ctx, c, "rdims", np.array(c["rdims"], dtype=int))
        ops["rdims"] = kw["rdims"]
    if c["given"] in ("both", "cdims"):
        kw["cdims"] = R.presented(ctx, c, "cdims", np.array(c["cdims"], dtype=int))
        ops["cdims"] = kw["cdims"]
    # with only one side given the other side is taken in increasing order
    if c["given"] == "rdims" and c["cdims"] != sorted(c["cdims"]):
        return None
    if c["given"] == "cdims" and c["rdims"] != sorted(c["rdims"]):
        return None
    ts = tuple(c["shape"]) if c["tshape_arg"] == "tuple" else R.presented(ctx, c, "tshape", np.array(c["shape"]))
    if c["tshape_arg"] == "array":
        ops["tshape"] = ts
    if c["copy_kw"]:
        kw["copy"] = True
    tm_labels(ctx, c)
    ctx.label("layout-" + c["layout"], "given-" + c["given"])
    return ops, lambda: ttb.tenmat(D, tshape=ts, **kw)


_TMUNARY = {
    "copy": lambda X: X.copy(),
    "deepcopy": lambda X: R.deepcopy(X),
    "to_tensor": lambda X: X.to_tensor(),
    "to_tensor-copy-true": lambda X: X.to_tensor(copy=True),
    "ctranspose": lambda X: X.ctranspose(),
    "double": lambda X: X.double(),
    "norm": lambda X: X.norm(),
    "pos": lambda X: +X,
    "neg": lambda X: -X,
    "scalar-props": lambda X: (X.ndims, X.shape, X.order, X.tshape),
    "repr": lambda X: (repr(X), str(X)),
}


def _reg_tmunary(name, f):
    @op("tenmat/" + name, lambda tier: tm_case(tier), quick=60 if name.startswith("to_tensor") else 40)
    def _(ctx, c, f=f):
        X = TM(c)
        tm_labels(ctx, c)
        order = c["rdims"] + c["cdims"]
        ctx.label("natural-order" if order == sorted(order) else "permuted-order", f"order{len(c['shape'])}")
        return {"self": X}, lambda: f(X)


for _n, _f in _TMUNARY.items():
    _reg_tmunary(_n, _f)


@st.composite
def g_tmbin(draw, tier):
    c = draw(tm_case(tier))
    c["okind"] = draw(st.sampled_from(["scalar", "tenmat", "same-object"]))
    if c["okind"] == "scalar":
        c["other"] = draw(st.sampled_from([0, 2, -1.5]))
    elif c["okind"] == "tenmat":
        c["other"] = R.d_dense_like(draw, c["shape"], c["vkind"])
    return c


def tm_other(ctx, c, X):
    ctx.label("other-" + c["okind"])
    if c["okind"] == "scalar":
        return c["other"]
    if c["okind"] == "same-object":
        return X
    o = dict(c["other"])
    o["rdims"], o["cdims"] = c["rdims"], c["cdims"]
    return TM(o)


def _reg_tmbinary(name, f):
    @op("tenmat/" + name, g_tmbin)
    def _(ctx, c, f=f):
        X = TM(c)
        tm_labels(ctx, c)
        Y = tm_other(ctx, c, X)
        return {"self": X, "other": Y}, lambda: f(X, Y)


_reg_tmbinary("add", lambda X, Y: X + Y)
_reg_tmbinary("radd", lambda X, Y: X.__radd__(Y))
_reg_tmbinary("sub", lambda X, Y: X - Y)
_reg_tmbinary("rsub", lambda X, Y: X.__rsub__(Y))
_reg_tmbinary("isequal", lambda X, Y: X.isequal(Y) if not isinstance(Y, (int, float)) else X.isequal(X.copy()))


@st.composite
def g_tmmul(draw, tier):
    c = draw(tm_case(tier))
    c["okind"] = draw(st.sampled_from(["scalar", "rscalar", "tenmat", "tenmat", "transpose-of-self"]))
    if c["okind"] in ("scalar", "rscalar"):
        c["other"] = draw(st.sampled_from([0, 2, -1.5]))
    elif c["okind"] == "tenmat":
        # other's row modes have the sizes of self's column modes
        rs = [c["shape"][m] for m in c["cdims"]]
        extra = draw(gen.shapes(tier, min_order=0 if rs else 1, max_order=2, max_cells=6)) if draw(st.booleans()) or not rs else []
        oshape = rs + extra
        o = R.d_dense_like(draw, oshape, c["vkind"])
        o["rdims"] = list(range(len(rs)))
        o["cdims"] = list(range(len(rs), len(oshape)))
        c["other"] = o
    return c


@op("tenmat/mul", g_tmmul, quick=60)
def _(ctx, c):
    X = TM(c)
    tm_labels(ctx, c)
    ctx.label("other-" + c["okind"])
    k = c["okind"]
    if k == "scalar":
        return {"self": X}, lambda: X * c["other"]
    if k == "rscalar":
        return {"self": X}, lambda: c["other"] * X
    if k == "transpose-of-self":
        Y = ttb.tenmat(np.asfortranarray(X.data.T.copy()), np.array(c["cdims"], dtype=int), np.array(c["rdims"], dtype=int),
                       tuple(c["shape"]))
    else:
        if not c["other"]["shape"]:
            return None
        Y = TM(c["other"])
    return {"self": X, "other": Y}, lambda: X * Y


@st.composite
def g_key2(draw, nr, nc):
    def ent(n):
        t = draw(st.sampled_from(["int", "slice", "full", "list", "arr", "slice", "full", "empty", "step"]))
        if t == "empty":
            a = draw(st.integers(0, n))
            return dict(t="slice", v=draw(st.sampled_from([[None, 0, None], [a, a, None], [n, None, None]])))
        if t == "step":
            return dict(t="slice", v=draw(st.sampled_from([[None, None, 2], [None, None, -1], [1, None, 2]])))
        if t == "int":
            return dict(t="int", v=draw(st.integers(-n, n - 1)))
        if t == "full":
            return dict(t="slice", v=[None, None, None])
        if t == "slice":
            a = draw(st.integers(0, n - 1))
            return dict(t="slice", v=[a, draw(st.integers(a + 1, n)), None])
        k = draw(st.integers(1, min(n, 3)))
        return dict(t=t, v=draw(st.lists(st.integers(0, n - 1), min_size=k, max_size=k, unique=True)))

    a, b = ent(nr), ent(nc)
    if a["t"] in ("list", "arr") and b["t"] in ("list", "arr"):
        b = dict(t="slice", v=[None, None, None])
    return dict(kind="region", v=[a, b])


def key2_label(k):
    ts = [e["t"] if not (e["t"] == "slice" and e["v"] == [None, None, None]) else "full" for e in k["v"]]
    if all(t in ("int",) for t in ts):
        return "key-scalar"
    if any(t in ("list", "arr") for t in ts):
        return "key-fancy"
    return "key-basic-slice"


@st.composite
def g_tmget(draw, tier):
    c = draw(tm_case(tier))
    nr = ref.prod(c["shape"][m] for m in c["rdims"])
    nc = ref.prod(c["shape"][m] for m in c["cdims"])
    c["key"] = draw(g_key2(nr, nc))
    return c


R.pred("tenmat_key_is_basic_slice")(lambda c: key2_label(c["key"]) == "key-basic-slice")


@op("tenmat/getitem", g_tmget, quick=80, thorough=2000)
def _(ctx, c):
    X = TM(c)
    key, _ = CT.build_key(c["key"])
    ctx.label(key2_label(c["key"]))
    return {"self": X, "key": key}, lambda: X[key]


@st.composite
def g_tmset(draw, tier):
    c = draw(g_tmget(tier))
    nr = ref.prod(c["shape"][m] for m in c["rdims"])
    nc = ref.prod(c["shape"][m] for m in c["cdims"])
    key, _ = CT.build_key(c["key"])
    vs = list(np.empty((nr, nc))[key].shape)
    c["vshape"] = vs
    c["vform"] = draw(st.sampled_from(["scalar", "array"])) if vs else "scalar"
    c["value"] = draw(st.sampled_from([0.0, 5.0, -2.5])) if c["vform"] == "scalar" else R.d_vals(draw, ref.prod(vs), c["vkind"])
    return c


@op("tenmat/setitem", g_tmset, quick=60, inplace="self")
def _(ctx, c):
    X = TM(c)
    key, _ = CT.build_key(c["key"])
    ctx.label(key2_label(c["key"]), "value-" + c["vform"])
    v = c["value"] if c["vform"] == "scalar" else R.CS.aux_present(c, np.array(c["value"], dtype=float).reshape(c["vshape"]))
    return {"self": X, "key": key, "value": v}, lambda: X.__setitem__(key, v)


# ==========================================================================
# sptenmat
# ==========================================================================


@st.composite
def stm_case(draw, tier, min_order=1, max_order=3, patterns=("none", "one", "some", "some", "all"), both_sides=False):
    c = draw(gen.sparse_case(tier, min_order=min_order, max_order=max_order, max_cells=36, patterns=patterns))
    r, cc = draw(gen.ordered_partition(len(c["shape"])))
    if both_sides and (not r or not cc) and draw(st.integers(0, 9)):
        # sptenmat.to_sptensor / full raise for an empty side or no nonzeros (C01 territory): keep those classes rare
        m = draw(st.permutations(range(len(c["shape"]))))
        k = draw(st.integers(1, len(m) - 1))
        r, cc = list(m[:k]), list(m[k:])
    c["rdims"], c["cdims"] = r, cc
    return c


def stm_subs(c):
    sh = c["shape"]
    rs = [sh[m] for m in c["rdims"]]
    cs = [sh[m] for m in c["cdims"]]
    rows = [[ref.lin_index([s[m] for m in c["rdims"]], rs), ref.lin_index([s[m] for m in c["cdims"]], cs)] for s in c["subs"]]
    return np.array(rows, dtype=int).reshape(len(rows), 2)


def STM(c):
    how = (c.get("_st") or {}).get("how", "ctor")
    if c["subs"] and c["rdims"] and c["cdims"] and (how != "ctor" or c.get("_dt")):
        rd, cd = np.array(c["rdims"], dtype=int), np.array(c["cdims"], dtype=int)
        try:
            X = R.CS.build_sptensor(c).to_sptenmat(rd.copy(), cd.copy())
            ok = (isinstance(X, ttb.sptenmat) and list(X.rdims) == list(rd) and list(X.cdims) == list(cd)
                  and tuple(X.tshape) == tuple(c["shape"]) and np.array_equal(ref.den(X), gen.dense_of_sparse_case(c)))
        except Exception:  # noqa: BLE001
            ok = False
        R.CS.ST.note("sptenmat-from-sptensor-" + how, ok)
        if ok:
            return X
    if not c["subs"]:
        return ttb.sptenmat(rdims=np.array(c["rdims"], dtype=int), cdims=np.array(c["cdims"], dtype=int), tshape=tuple(c["shape"]))
    return ttb.sptenmat(stm_subs(c), np.array(c["vals"], dtype=float).reshape(-1, 1), np.array(c["rdims"], dtype=int),
                        np.array(c["cdims"], dtype=int), tuple(c["shape"]))


def stm_labels(ctx, c):
    ctx.label("pattern-" + c["pattern"], "rows-empty" if not c["rdims"] else ("cols-empty" if not c["cdims"] else "both-sides"))


@st.composite
def g_stmctor(draw, tier):
    c = draw(stm_case(tier, patterns=("one", "some", "all")))
    k = len(c["subs"])
    c["dup"] = draw(st.lists(st.integers(0, max(0, k - 1)), min_size=0, max_size=2)) if k else []
    c["dupvals"] = R.d_vals(draw, len(c["dup"]), c["vkind"])
    c["copy_kw"] = draw(st.booleans())
    c["_present"] = R.d_present(draw, values=["vals"], indices=["subs", "rdims", "cdims"])
    return c


@op("sptenmat/ctor-copy", g_stmctor)
def _(ctx, c):
    subs = stm_subs(c)
    vals = np.array(c["vals"], dtype=float).reshape(-1, 1)
    if c["dup"]:
        subs = np.vstack([subs] + [subs[i:i + 1] for i in c["dup"]])
        vals = np.vstack([vals, np.array(c["dupvals"], dtype=float).reshape(-1, 1)])
    rd, cd = np.array(c["rdims"], dtype=int), np.array(c["cdims"], dtype=int)
    subs, vals = R.presented(ctx, c, "subs", subs), R.presented(ctx, c, "vals", vals)
    rd, cd = R.presented(ctx, c, "rdims", rd), R.presented(ctx, c, "cdims", cd)
    stm_labels(ctx, c)
    ctx.label("duplicates" if c["dup"] else "distinct")
    kw = {"copy": True} if c["copy_kw"] else {}
    ts = tuple(c["shape"])
    return {"subs": subs, "vals": vals, "rdims": rd, "cdims": cd}, lambda: ttb.sptenmat(subs, vals, rd, cd, ts, **kw)


@st.composite
def g_from_array(draw, tier):
    c = draw(stm_case(tier))
    c["akind"] = draw(st.sampled_from(["ndarray", "coo", "csr"]))
    return c


@op("sptenmat/from_array", g_from_array)
def _(ctx, c):
    A = gen.dense_of_sparse_case(c)
    M = np.asfortranarray(ref.matricize(A, c["rdims"], c["cdims"]))
    arr = M if c["akind"] == "ndarray" else (sp.coo_matrix(M) if c["akind"] == "coo" else sp.csr_matrix(M))
    rd, cd = np.array(c["rdims"], dtype=int), np.array(c["cdims"], dtype=int)
    stm_labels(ctx, c)
    ctx.label("array-" + c["akind"])
    ts = tuple(c["shape"])
    return {"array": arr, "rdims": rd, "cdims": cd}, lambda: ttb.sptenmat.from_array(arr, rd, cd, ts)


_STMUNARY = {
    "copy": lambda X: X.copy(),
    "deepcopy": lambda X: R.deepcopy(X),
    "to_sptensor": lambda X: X.to_sptensor(),
    "double": lambda X: X.double(),
    "full": lambda X: X.full(),
    "norm": lambda X: X.norm(),
    "pos": lambda X: +X,
    "neg": lambda X: -X,
    "scalar-props": lambda X: (X.nnz, X.shape, X.order, X.tshape),
    "repr": lambda X: (repr(X), str(X)),
}


def _reg_stmunary(name, f):
    special = name in ("to_sptensor", "full")

    @op("sptenmat/" + name, lambda tier: stm_case(tier, min_order=2, patterns=("one", "some", "all", "all"), both_sides=True)
        if special else stm_case(tier))
    def _(ctx, c, f=f):
        X = STM(c)
        stm_labels(ctx, c)
        return {"self": X}, lambda: f(X)


for _n, _f in _STMUNARY.items():
    _reg_stmunary(_n, _f)


@st.composite
def g_stmeq(draw, tier):
    c = draw(stm_case(tier))
    c["okind"] = draw(st.sampled_from(["sptenmat", "same-object", "copy"]))
    if c["okind"] == "sptenmat":
        c["other"] = R.d_sparse_like(draw, c["shape"], c["vkind"])
    return c


@op("sptenmat/isequal", g_stmeq)
def _(ctx, c):
    X = STM(c)
    stm_labels(ctx, c)
    if c["okind"] == "sptenmat":
        o = dict(c["other"])
        o["rdims"], o["cdims"] = c["rdims"], c["cdims"]
        Y = STM(o)
    elif c["okind"] == "copy":
        Y = STM(c)
    else:
        Y = X
    ctx.label("other-" + c["okind"])
    return {"self": X, "other": Y}, lambda: X.isequal(Y)


@st.composite
def g_stmset(draw, tier):
    c = draw(stm_case(tier))
    nr = ref.prod(c["shape"][m] for m in c["rdims"])
    nc = ref.prod(c["shape"][m] for m in c["cdims"])

    def ent(n):
        t = draw(st.sampled_from(["int", "slice", "full", "list", "arr", "int", "slice", "full", "empty"]))
        if t == "empty":
            a = draw(st.integers(0, n))  # (round 3, class 10) an empty range: the assignment is a no-op
            return dict(t="slice", v=[a, a, None]), 0
        if t == "int":
            return dict(t="int", v=draw(st.integers(0, n - 1))), 1
        if t == "full":
            return dict(t="slice", v=[None, None, None]), n
        if t == "slice":
            a = draw(st.integers(0, n - 1))
            b = draw(st.integers(a + 1, n))
            return dict(t="slice", v=[a, b, None]), b - a
        k = draw(st.integers(1, min(n, 3)))
        return dict(t=t, v=draw(st.lists(st.integers(0, n - 1), min_size=k, max_size=k, unique=True))), k

    (a, ka), (b, kb) = ent(nr), ent(nc)
    c["key"] = dict(kind="region", v=[a, b])
    c["vform"] = draw(st.sampled_from(["scalar", "column"])) if ka * kb else "scalar"
    c["value"] = draw(st.sampled_from([3.0, -2.5, 7])) if c["vform"] == "scalar" else R.d_vals(draw, ka * kb, c["vkind"], nonzero=True)
    return c


@op("sptenmat/setitem", g_stmset, quick=60, inplace="self")
def _(ctx, c):
    X = STM(c)
    stm_labels(ctx, c)
    key, _ = CT.build_key(c["key"])
    v = c["value"] if c["vform"] == "scalar" else R.CS.aux_present(c, np.array(c["value"], dtype=float).reshape(-1, 1))
    ctx.label("value-" + c["vform"])
    return {"self": X, "key": key, "value": v}, lambda: X.__setitem__(key, v)
