"""Shared pieces of the C02 cells: holders of every representation (JSON-able case <-> pyttb object <->
reference array), mode designations, NumPy reference kernels and the comparison policy of DESIGN 2.6.

Nothing in the reference part calls a pyttb method: the reference array of a holder is computed from the
*case dict* (not even from the attributes of the built object)."""

from __future__ import annotations

import itertools
from typing import Any, Dict, List, Optional, Sequence, Tuple

import numpy as np
from hypothesis import strategies as st

import pyttb as ttb

from .. import gen, ref
from . import _c02_states as ST

SCALAR_TYPES = (int, float, np.integer, np.floating)
LETTERS = "abcdefghij"


def tup(shape) -> Tuple[int, ...]:
    return tuple(int(s) for s in shape)


# --------------------------------------------------------------------------
# holders: strategies (given a shape), builders, reference arrays
# --------------------------------------------------------------------------

PATTERNS = ("none", "one", "few", "few", "some", "some", "all", "all", "all", "all")
SPARSE_PATTERNS = ("none", "one", "few", "few", "few", "some", "some", "some", "all", "all")
VEC_PATTERNS = ("all", "all", "all", "all", "all", "some", "some", "some", "one", "none")


def pattern_values(draw, n, pattern, vkind):
    """gen._pattern_values plus the class "few": between 2 and n // 3 nonzeros."""
    if pattern != "few" or n == 0:
        return gen._pattern_values(draw, n, "one" if pattern == "few" else pattern, vkind)
    lo = min(2, n)
    k = draw(st.integers(lo, max(lo, n // 3)))
    pos = draw(st.lists(st.integers(0, n - 1), min_size=k, max_size=k, unique=True))
    vals = draw(st.lists(gen.values(vkind, nonzero=True), min_size=k, max_size=k))
    out = [0.0] * n
    for q, v in zip(pos, vals):
        out[q] = v
    return out


@st.composite
def orders(draw, lo, hi):
    """Tensor order with the middle orders favoured (1-way tensors are the degenerate corner, not the bulk)."""
    weights = {1: 1, 2: 2, 3: 3, 4: 2, 5: 1}
    pool = [n for n in range(lo, hi + 1) for _ in range(weights.get(n, 1))]
    return draw(st.sampled_from(pool))


@st.composite
def dense_holder(draw, shape, vkind, patterns=PATTERNS):
    n = ref.prod(shape)
    pattern = draw(st.sampled_from(list(patterns)))
    out = dict(holder="tensor", shape=list(shape), vkind=vkind, pattern=pattern,
               data=pattern_values(draw, n, pattern, vkind))
    # integer-valued data stored with an integer dtype (as in the docstring examples); uint8 holds non-negative data
    dt = ST.draw_dtype(draw, out)
    if dt is not None:
        out["dtype"] = dt
        if dt == "uint8":
            out["data"] = [abs(v) for v in out["data"]]
    out["state"] = draw(ST.dense_state(list(shape)))  # how the object comes into being (round 2, class 1)
    return out


@st.composite
def sparse_holder(draw, shape, vkind, patterns=SPARSE_PATTERNS):
    n = ref.prod(shape)
    pattern = draw(st.sampled_from(list(patterns)))
    flat = pattern_values(draw, n, pattern, vkind)
    entries = [(list(s), v) for s, v in zip(ref.all_subs_F(shape), flat) if v != 0.0]
    order = draw(st.sampled_from(["sorted", "reverse", "random"]))
    if order == "reverse":
        entries = entries[::-1]
    elif order == "random" and len(entries) > 1:
        p = draw(st.permutations(range(len(entries))))
        entries = [entries[i] for i in p]
    out = dict(holder="sptensor", shape=list(shape), vkind=vkind, pattern=pattern, order=order,
               subs=[e[0] for e in entries], vals=[e[1] for e in entries])
    dt = ST.draw_dtype(draw, out)
    if dt is not None:
        out["dtype"] = dt
        if dt == "uint8":
            out["vals"] = [abs(v) for v in out["vals"]]
    out["state"] = draw(ST.sparse_state(list(shape), len(entries)))
    return out


@st.composite
def kruskal_holder(draw, shape, vkind, max_rank=3):
    c = draw(gen.ktensor_case(kinds=(vkind,), shape=list(shape), max_rank=max_rank))
    c["holder"] = "ktensor"
    c["state"] = draw(ST.kruskal_state(list(shape), c["rank"]))
    return c


@st.composite
def tucker_holder(draw, shape, vkind, sparse_core=None, max_core=3):
    cshape = [draw(st.integers(1, max_core)) for _ in shape]
    n = ref.prod(cshape)
    pattern = draw(st.sampled_from(["one", "few", "some", "all", "all", "all"]))
    core = pattern_values(draw, n, pattern, vkind)
    factors = [
        draw(st.lists(st.lists(gen.values(vkind), min_size=c, max_size=c), min_size=s, max_size=s))
        for s, c in zip(shape, cshape)
    ]
    sc = draw(st.booleans()) if sparse_core is None else sparse_core
    out = dict(holder="ttensor", shape=list(shape), cshape=cshape, core=core, factors=factors, vkind=vkind,
               sparse_core=bool(sc), core_pattern=pattern)
    if vkind == "int":
        # integer dtypes for the core and for the factor matrices (mixed with float64 ones)
        out["cdtype"] = draw(st.sampled_from([None, None, "int64", "int32"]))
        out["fdtypes"] = [draw(st.sampled_from([None, None, "int64", "int32"])) for _ in shape]
    out["state"] = draw(ST.tucker_state(out))
    return out


@st.composite
def sum_holder(draw, shape, vkind, part_kinds=("tensor", "sptensor", "ktensor", "ttensor")):
    k = draw(st.integers(1, 3))
    parts = [draw(holder_with_shape(shape, vkind, draw(st.sampled_from(list(part_kinds))))) for _ in range(k)]
    return dict(holder="sumtensor", shape=list(shape), vkind=vkind, parts=parts)


def has_small_dtype(h) -> bool:
    """does the holder store data in a narrow integer dtype (then the other operand is not given one: products of two
    narrow-integer arrays wrap around by NumPy's own rules, which is not pyttb's doing)"""
    if h["holder"] == "sumtensor":
        return any(has_small_dtype(p) for p in h["parts"])
    return h.get("dtype") in ST.SMALL_DTYPES or h.get("cdtype") in ST.SMALL_DTYPES


def other_vkind(draw, vkind):
    """value kind of the second operand: mostly the first operand's, sometimes the other one (mixed operands)"""
    return vkind if draw(st.integers(0, 3)) else ("float" if vkind == "int" else "int")


def operand_dtype(draw, vkind, avoid_small=False):
    """storage spec "<dtype>[@F|@strided]" (or None = float64, C-ordered as NumPy makes it) of a vector / matrix /
    factor operand holding values of kind ``vkind``.  "@strided" = a view with a step into a bigger buffer (a column
    of a matrix handed over as a vector, every other row of a table)."""
    dt = None
    if vkind == "int":
        dt = draw(st.sampled_from([None, None, "int64", "int32"] + ([] if avoid_small else ["uint8"])))
    lay = draw(st.sampled_from(["", "", "", "@F", "@strided"]))
    return None if dt is None and not lay else (dt or "float64") + lay


def operand_values(draw, n, pattern, vkind, avoid_small=False):
    """(flat values, storage spec or None): values with the zero pattern, made non-negative when stored unsigned"""
    vals = gen._pattern_values(draw, n, pattern, vkind)
    dt = operand_dtype(draw, vkind, avoid_small)
    if dt is not None and dt.startswith("uint8"):
        vals = [abs(v) for v in vals]
    return vals, dt


def cast(a, dt):
    """ndarray with the values of ``a`` stored as the spec says"""
    name, _, lay = (dt or "float64").partition("@")
    a = np.asarray(a, dtype=float).astype(np.dtype(name))
    if lay == "F":
        return np.asfortranarray(a)
    if lay == "strided" and a.ndim >= 1:
        big = np.full(tuple(2 * n for n in a.shape), 9, dtype=a.dtype)
        view = big[tuple(slice(0, 2 * n, 2) for n in a.shape)]
        view[...] = a
        return view
    return a


def holder_with_shape(shape, vkind, kind, **kw):
    if kind == "tensor":
        return dense_holder(shape, vkind, **kw)
    if kind == "sptensor":
        return sparse_holder(shape, vkind, **kw)
    if kind == "ktensor":
        return kruskal_holder(shape, vkind, **kw)
    if kind == "ttensor":
        return tucker_holder(shape, vkind, **kw)
    if kind == "ttensor-dense":
        return tucker_holder(shape, vkind, sparse_core=False, **kw)
    if kind == "ttensor-sparse":
        return tucker_holder(shape, vkind, sparse_core=True, **kw)
    if kind == "sumtensor":
        return sum_holder(shape, vkind, **kw)
    raise ValueError(kind)


def structured_limits(tier):
    """(max order, max size, max cells) for holders whose reference is an einsum over parameters."""
    return (4, 4, 48) if tier == "quick" else (5, 5, 200)


@st.composite
def holder(draw, tier, kind, min_order=1, max_order=None, shape=None, vkind=None, **kw):
    """A holder of class ``kind`` over a generated (or given) shape."""
    if shape is None:
        mo, ms, mc = gen.tier_limits(tier) if kind in ("tensor", "sptensor") else structured_limits(tier)
        N = draw(orders(min_order, min(max_order or mo, mo)))
        shape = draw(gen.shapes(tier, min_order=N, max_order=N, max_size=ms, max_cells=mc))
    if vkind is None:
        vkind = draw(st.sampled_from(["int", "float"]))
    return draw(holder_with_shape(shape, vkind, kind, **kw))


def build(h):
    """pyttb object of a holder case, in the state and with the storage dtype the case asks for."""
    k = h["holder"]
    if h.get("hpres") and k in ("tensor", "sptensor", "ktensor", "ttensor"):
        return build_presented(h)
    if k == "tensor":
        A = gen.arr_F(h["shape"], h["data"]).astype(np.dtype(h.get("dtype") or "float64"))
        return ST.build_dense(A, h.get("state"))
    if k == "sptensor":
        return ST.build_sparse(h["subs"], h["vals"], h["shape"], np.dtype(h.get("dtype") or "float64"), h.get("state"),
                               gen.dense_of_sparse_case(h))
    if k == "ktensor":
        w, fm = _kruskal_arrays(h)
        return ST.build_kruskal(w, fm, h.get("state"))
    if k == "ttensor":
        return _build_tucker(h)
    if k == "sumtensor":
        return ttb.sumtensor([build(p) for p in h["parts"]])
    raise ValueError(k)


def _build_tucker(h):
    s = h.get("state") or {}
    how = s.get("how", "ctor")
    core, fm = _tucker_arrays(h)
    cdt = np.dtype(h.get("cdtype") or "float64")
    fm = [m.astype(np.dtype(d or "float64")) for m, d in zip(fm, h.get("fdtypes") or [None] * len(fm))]

    def make(core, fm, cshape):
        if h.get("sparse_core"):
            sc = gen.sparse_case_from_dense(core)
            c = ST.build_sparse(sc["subs"], sc["vals"], cshape, cdt, s.get("core"), core)
        else:
            c = ST.build_dense(core.astype(cdt), s.get("core"))
        # copy=False hands the core object over as it is (a copying construction re-lays it out)
        return ttb.ttensor(c, [m.copy() for m in fm], copy=how != "core-nocopy")

    if how == "permute":
        p = s["perm"]
        try:
            T = make(np.transpose(core, p), [fm[i] for i in p], [h["cshape"][i] for i in p]).permute(np.argsort(p))
            ok = (isinstance(T, ttb.ttensor) and tup(T.shape) == tup(h["shape"])
                  and np.array_equal(ref.den(T), ref.den_tucker(core, fm)))
        except Exception:  # noqa: BLE001
            ok = False
        ST.note("ttensor-permute", ok)
        if ok:
            return T
    return make(core, fm, h["cshape"])


def _tucker_arrays(h):
    core = gen.arr_F(h["cshape"], h["core"])
    fm = [np.array(f, dtype=float).reshape(s, c) for f, s, c in zip(h["factors"], h["shape"], h["cshape"])]
    return core, fm


def _kruskal_arrays(h):
    fm = [np.array(f, dtype=float).reshape(n, h["rank"]) for f, n in zip(h["factors"], h["shape"])]
    return np.array(h["weights"], dtype=float), fm


def den_case(h, absolute=False) -> np.ndarray:
    """The array the holder denotes, from the case dict alone.  ``absolute``: the same sum with every
    parameter replaced by its absolute value (the B of the rounding bound)."""
    k = h["holder"]
    f = np.abs if absolute else (lambda x: x)
    memo = h.get("_Aabs" if absolute else "_A")
    if memo is not None:
        # (round 3) holders expanded inside a body from a compact description (large cases) carry the array they
        # denote, computed once with NumPy by the expander; such a dict is never a stored case
        return memo
    if k == "tensor":
        return f(gen.arr_F(h["shape"], h["data"]))
    if k == "sptensor":
        return f(gen.dense_of_sparse_case(h))
    if k == "ktensor":
        w, fm = _kruskal_arrays(h)
        return ref.den_kruskal(f(w), [f(m) for m in fm])
    if k == "ttensor":
        core, fm = _tucker_arrays(h)
        return ref.den_tucker(f(core), [f(m) for m in fm])
    if k == "sumtensor":
        return sum(den_case(p, absolute) for p in h["parts"])
    raise ValueError(k)


def terms(h) -> int:
    """Number of parameter products summed per entry of the denoted array."""
    k = h["holder"]
    if k in ("tensor", "sptensor"):
        return 1
    if k == "ktensor":
        # a normalising history re-scales every parameter (two more roundings each)
        return h["rank"] * (len(h["shape"]) + 1) * (1 if ST.kruskal_state_exact(h.get("state")) else 3)
    if k == "ttensor":
        return ref.prod(h["cshape"]) * (len(h["shape"]) + 1)
    return sum(terms(p) for p in h["parts"])


def components(h) -> int:
    """number of parameter products a structured holder sums per entry (rank / cells of the core; 1 for dense, sparse)"""
    k = h["holder"]
    if k == "ktensor":
        return h["rank"]
    if k == "ttensor":
        return ref.prod(h["cshape"])
    if k == "sumtensor":
        return sum(components(p) for p in h["parts"])
    return 1


def tight_count(*hs) -> int:
    """Rounding-error count for norm (one holder) / innerprod (two) that follows the algorithms a tensor library may
    reasonably use instead of multiplying all conceivable counts: Gram matrices or cross-Gram matrices of the factors
    (sum of the mode sizes terms each), their products over the modes, a sum over all pairs of components
    (prod of ``components``), or expanding one operand (``terms`` products per entry) and summing over all cells.  Every
    one of these is bounded, relative to the same sum on absolute values, by the sum of those counts (histories that
    normalise a Kruskal operand re-scale every parameter: three roundings each, already in ``terms``)."""
    shape = hs[0]["shape"]
    pairs = 1
    for h in hs:
        pairs *= components(h)
    return pairs + ref.prod(shape) + 3 * sum(terms(h) for h in hs) + sum(shape) + 16


def intvalued(*hs) -> bool:
    """integer-valued parameters all the way (then results are compared exactly): integer-valued case data, and a
    history that keeps them so (normalising a Kruskal tensor does not)."""
    for h in hs:
        if h["vkind"] != "int":
            return False
        if h["holder"] == "ktensor" and not ST.kruskal_state_exact(h.get("state")):
            return False
        if h["holder"] == "sumtensor" and not intvalued(*h["parts"]):
            return False
    return True


def state_label(h) -> List[str]:
    s = h.get("state") or {}
    out = ["state-" + h["holder"] + "-" + s.get("how", "ctor")]
    if h["holder"] == "ttensor" and s.get("core"):
        out.append("state-core-" + s["core"].get("how", "ctor"))
    if s.get("npshape"):
        out.append("state-numpy-int-shape")
    return out


def object_labels(*objs) -> List[str]:
    """labels of the objects actually built (layout, shape entry types, stored zeros, dtypes) and of the histories
    that were achieved or fell back to the constructor since the last call"""
    out = []
    for X in objs:
        out += ST.object_labels(X)
    out += sorted(set(ST.BUILD_NOTES))
    del ST.BUILD_NOTES[:]
    return out


def holder_labels(h) -> List[str]:
    k = h["holder"]
    out = [k] + state_label(h) + hpres_labels(h)
    if k == "sptensor":
        out += ["nnz0" if not h["subs"] else ("nnz1" if len(h["subs"]) == 1 else "nnz>1"), "stored-" + h["order"]]
    if k == "tensor":
        out.append("pattern-" + h["pattern"])
    if k in ("tensor", "sptensor"):
        out.append("dtype-" + h.get("dtype", "float64"))
    if k == "ttensor":
        out.append("sparse-core" if h["sparse_core"] else "dense-core")
        out.append("core-dtype-" + (h.get("cdtype") or "float64"))
        if any(h.get("fdtypes") or []):
            out.append("factors-int-dtype")
    if k == "ktensor":
        out.append("unit-weights" if all(w == 1.0 for w in h["weights"]) else "non-unit-weights")
    if k == "sumtensor":
        out.append("parts:" + "+".join(sorted(p["holder"] for p in h["parts"])))
    return out


# --------------------------------------------------------------------------
# fixed (deterministic) holders for the enumerated cells
# --------------------------------------------------------------------------


def _det_values(n, salt, zeros=True):
    """n small integer values, not constant, with some zeros."""
    out = []
    for i in range(n):
        v = ((i * 7 + salt * 3) % 11) - 4
        if not zeros and v == 0:
            v = 5
        out.append(float(v))
    return out


def fixed_holder(kind, shape, salt=0):
    """Deterministic integer-valued holder of class ``kind`` (for enumerations)."""
    shape = list(shape)
    n = ref.prod(shape)
    if kind == "tensor":
        return dict(holder="tensor", shape=shape, vkind="int", pattern="some", data=_det_values(n, salt))
    if kind in ("sptensor", "sptensor-thin", "sptensor-one", "sptensor-empty"):
        flat = _det_values(n, salt)
        if kind == "sptensor-thin":
            flat = [v if i % 5 == 1 else 0.0 for i, v in enumerate(flat)]
        elif kind == "sptensor-one":
            keep = (n * 2) // 3
            flat = [(v if v != 0 else 3.0) if i == keep else 0.0 for i, v in enumerate(flat)]
        elif kind == "sptensor-empty":
            flat = [0.0] * n
        entries = [(list(s), v) for s, v in zip(ref.all_subs_F(shape), flat) if v != 0.0][::-1]
        return dict(holder="sptensor", shape=shape, vkind="int", pattern="some", order="reverse",
                    subs=[e[0] for e in entries], vals=[e[1] for e in entries])
    if kind == "ktensor":
        r = 2
        factors = [[[float(((i * 3 + j * 5 + k + salt) % 7) - 3) for j in range(r)] for i in range(s)]
                   for k, s in enumerate(shape)]
        return dict(holder="ktensor", shape=shape, vkind="int", rank=r, weights=[2.0, -3.0], factors=factors)
    if kind in ("ttensor-dense", "ttensor-sparse"):
        cshape = [1 + (k + salt) % 2 for k in range(len(shape))]
        core = _det_values(ref.prod(cshape), salt + 1, zeros=False)
        if kind == "ttensor-sparse" and len(core) > 1:
            core[0] = 0.0
        factors = [[[float(((i * 5 + j * 3 + k + salt) % 7) - 3) for j in range(c)] for i in range(s)]
                   for k, (s, c) in enumerate(zip(shape, cshape))]
        return dict(holder="ttensor", shape=shape, vkind="int", cshape=cshape, core=core, factors=factors,
                    sparse_core=kind == "ttensor-sparse", core_pattern="all")
    if kind == "sumtensor":
        return dict(holder="sumtensor", shape=shape, vkind="int",
                    parts=[fixed_holder("tensor", shape, salt + 1), fixed_holder("sptensor-thin", shape, salt + 2),
                           fixed_holder("ktensor", shape, salt + 3)])
    raise ValueError(kind)


def fixed_state(h, i):
    """The fixed holder ``h`` in the i-th of a fixed cycle of derived states and storage dtypes (enumerated cells)."""
    h = dict(h)
    k, shape, N = h["holder"], h["shape"], len(h["shape"])
    rot = [(j + i) % N for j in range(N)]
    if k == "tensor":
        cyc = [dict(how="ctor"), dict(how="grown", mode=max(range(N), key=lambda m: (shape[m] >= 2, -m)) if any(
            n >= 2 for n in shape) else None, form="subs"), dict(how="permute", perm=rot, k=0),
            dict(how="grown", mode=next((m for m in range(N) if shape[m] >= 2), None), form="slab"),
            dict(how="tenmat", perm=rot, k=i % (N + 1)), dict(how="slice"), dict(how="arith", op="plus0")]
        h["state"] = cyc[i % len(cyc)]
        if (i // len(cyc)) % 2:
            h["dtype"] = "int64"
    elif k == "sptensor":
        n = ref.prod(shape)
        extra = [(3 * i + 1) % max(n, 1), (5 * i + 2) % max(n, 1), (7 * i) % max(n, 1)]
        extra = list(dict.fromkeys(extra))
        at = [0, len(h["subs"]), 1][:len(extra)]
        cyc = [dict(how="ctor"), dict(how="zeros-ctor", extra=extra, at=at), dict(how="npshape"),
               dict(how="zeros-scale", extra=extra, at=at), dict(how="permute", perm=rot),
               dict(how="zeros-times0", extra=extra, at=at, npshape=True),
               dict(how="grown", mode=next((m for m in range(N) if shape[m] >= 2), None))]
        h["state"] = cyc[i % len(cyc)]
        if (i // len(cyc)) % 2:
            h["dtype"] = "int64"
    elif k == "ktensor":
        r = h["rank"]
        cyc = [dict(how="ctor"), dict(how="normalize-k", mode=i % N), dict(how="arrange", perm=list(range(r))[::-1]),
               dict(how="sum", cut=1 if r >= 2 else None), dict(how="normalize"), dict(how="redistribute", mode=i % N)]
        h["state"] = cyc[i % len(cyc)]
    elif k == "ttensor":
        core = fixed_state(dict(holder="sptensor" if h["sparse_core"] else "tensor", shape=h["cshape"],
                                subs=[0] * sum(1 for v in h["core"] if v != 0)), i)
        cyc = ["ctor", "core-nocopy", "permute", "core-nocopy"]
        h["state"] = dict(how=cyc[i % len(cyc)], core=core["state"], perm=rot)
        if (i // len(cyc)) % 2:
            h["cdtype"] = "int64"
            h["fdtypes"] = ["int64" if (m + i) % 2 else None for m in range(N)]
    elif k == "sumtensor":
        h["parts"] = [fixed_state(p, i + j) for j, p in enumerate(h["parts"])]
    return h


def fixed_vector(n, salt):
    return [float(((i * 5 + salt * 2) % 7) - 2) for i in range(n)]


def fixed_matrix(rows, cols, salt):
    return [[float(((i * 3 + j * 5 + salt) % 7) - 3) for j in range(cols)] for i in range(rows)]


# --------------------------------------------------------------------------
# mode designations (ttv / ttm)
# --------------------------------------------------------------------------

# form: how the selected modes and the multiplicands are presented to the call
#   int        dims = one Python int, multiplicand passed bare (not in a list)
#   npint      dims = one numpy integer, multiplicand passed bare
#   int-list   dims = one Python int, multiplicand list of length 1
#   dims       dims = listed modes (any order), one multiplicand per listed mode, in the listed order
#   dims-N     dims = listed modes (any order), one multiplicand per tensor mode (indexed by mode)
#   excl       exclude_dims = complement (any order), one multiplicand per selected mode, ascending
#   excl-N     exclude_dims = complement, one multiplicand per tensor mode
#   all        neither dims nor exclude_dims, one multiplicand per tensor mode
FORMS = ("int", "npint", "int-list", "dims", "dims-N", "excl", "excl-N", "all")


@st.composite
def designation(draw, N, allow_bare=True):
    """dict(form, sel = selected modes in *listed* order, container, excl = listed excluded modes)."""
    forms = ["dims", "dims", "dims-N", "excl", "excl-N", "all", "int-list"]
    if allow_bare:
        forms += ["int", "npint"]
    form = draw(st.sampled_from(forms))
    perm = list(draw(st.permutations(range(N))))
    container = draw(st.sampled_from(["list", "array", "tuple"]))
    if form in ("int", "npint", "int-list"):
        return dict(form=form, sel=[perm[0]], excl=None, container="scalar")
    if form == "all":
        return dict(form=form, sel=list(range(N)), excl=None, container="none")
    if form in ("dims", "dims-N"):
        if form == "dims-N" and N > 1:
            k = draw(st.integers(1, N - 1))  # |dims| == N would make "one per listed mode" the applicable rule
        else:
            k = draw(st.integers(1, N))
        return dict(form=form, sel=perm[:k], excl=None, container=container)
    # exclude forms: at least one selected mode; the excluded set may be empty only through form "all"
    if N == 1:
        return dict(form="all", sel=[0], excl=None, container="none")
    k = draw(st.integers(1, N - 1))  # number of excluded modes
    excl = perm[:k]
    sel = sorted(set(range(N)) - set(excl))
    if len(excl) == 1 and draw(st.booleans()):
        container = "scalar"
    return dict(form=form, sel=sel, excl=excl, container=container)


def all_designations(N, bare=True):
    """Every designation of every non-empty mode subset (finite; used by the enumerated cells)."""
    out = []
    modes = list(range(N))
    for k in range(1, N + 1):
        for sel in itertools.permutations(modes, k):
            out.append(dict(form="dims", sel=list(sel), excl=None, container="array"))
            if k < N:
                out.append(dict(form="dims-N", sel=list(sel), excl=None, container="list"))
    for d in modes:
        out.append(dict(form="int-list", sel=[d], excl=None, container="scalar"))
        if bare:
            out.append(dict(form="int", sel=[d], excl=None, container="scalar"))
            out.append(dict(form="npint", sel=[d], excl=None, container="scalar"))
    for k in range(1, N):
        for excl in itertools.permutations(modes, k):
            sel = sorted(set(modes) - set(excl))
            out.append(dict(form="excl", sel=sel, excl=list(excl), container="array"))
            out.append(dict(form="excl-N", sel=sel, excl=list(excl), container="list"))
        if k == 1:
            for d in modes:
                out.append(dict(form="excl", sel=sorted(set(modes) - {d}), excl=[d], container="scalar"))
    out.append(dict(form="all", sel=modes, excl=None, container="none"))
    return out


def _contain(xs, container):
    if container == "array":
        return np.array(xs, dtype=int)
    if container == "tuple":
        return tuple(int(x) for x in xs)
    if container == "scalar":
        return int(xs[0])
    return [int(x) for x in xs]


def call_args(des, N, operands: Dict[int, Any], junk):
    """(multiplicand argument, kwargs) realising designation ``des``; ``operands`` maps mode -> ndarray,
    ``junk(mode)`` makes the unused entry of a length-N list."""
    form, sel = des["form"], des["sel"]
    if form == "int":
        return operands[sel[0]], dict(dims=int(sel[0]))
    if form == "npint":
        return operands[sel[0]], dict(dims=np.int64(sel[0]))
    if form == "int-list":
        return [operands[sel[0]]], dict(dims=int(sel[0]))
    full = [operands[m] if m in operands else junk(m) for m in range(N)]
    if form == "all":
        return full, {}
    if form == "dims":
        return [operands[m] for m in sel], dict(dims=_contain(sel, des["container"]))
    if form == "dims-N":
        return full, dict(dims=_contain(sel, des["container"]))
    if form == "excl":
        return [operands[m] for m in sorted(sel)], dict(exclude_dims=_contain(des["excl"], des["container"]))
    if form == "excl-N":
        return full, dict(exclude_dims=_contain(des["excl"], des["container"]))
    raise ValueError(form)


def designation_labels(des, N) -> List[str]:
    sel = des["sel"]
    out = ["form-" + des["form"], f"nsel{len(sel)}of{N}"]
    if des["form"] in ("dims", "dims-N") and len(sel) > 1:
        out.append("dims-sorted" if sel == sorted(sel) else "dims-unsorted")
    if des["excl"] is not None and len(des["excl"]) > 1:
        out.append("excl-sorted" if des["excl"] == sorted(des["excl"]) else "excl-unsorted")
    return out


def designation_nontrivial(des, shape) -> bool:
    """>= 2 distinct sizes and the selected modes are not an ascending prefix 0..k-1 listed in order."""
    sel = des["sel"]
    prefix = des["form"] in ("dims", "dims-N", "all", "int", "npint", "int-list") and sel == list(range(len(sel)))
    return len(set(shape)) >= 2 and not prefix


# --------------------------------------------------------------------------
# reference kernels (plain NumPy on the denoted array)
# --------------------------------------------------------------------------


def ref_ttv(A: np.ndarray, vecs: Dict[int, np.ndarray]) -> np.ndarray:
    """sum over the selected modes of A[i0..] * prod v_m[i_m]; remaining modes ascending (0-d if none)."""
    out = np.asarray(A, dtype=float)
    for m in sorted(vecs, reverse=True):
        out = np.tensordot(out, np.asarray(vecs[m], dtype=float), axes=([m], [0]))
    return out


def ref_ttm(A: np.ndarray, mats: Dict[int, np.ndarray]) -> np.ndarray:
    """mode-m product with mats[m] of shape (J, I_m) for every selected mode; order of modes kept."""
    out = np.asarray(A, dtype=float)
    for m, M in mats.items():
        out = np.moveaxis(np.tensordot(np.asarray(M, dtype=float), out, axes=([1], [m])), 0, m)
    return out


def ref_mttkrp(A: np.ndarray, U: Sequence[np.ndarray], n: int, weights=None) -> np.ndarray:
    """V[i_n, r] = w_r * sum_{i_k, k != n} A[i] * prod_{k != n} U_k[i_k, r]."""
    N = A.ndim
    ops, spec = [np.asarray(A, dtype=float)], [LETTERS[:N]]
    for k in range(N):
        if k != n:
            ops.append(np.asarray(U[k], dtype=float))
            spec.append(LETTERS[k] + "z")
    V = np.einsum(",".join(spec) + "->" + LETTERS[n] + "z", *ops)
    if weights is not None:
        V = V * np.asarray(weights, dtype=float)[None, :]
    return V


def result_array(ctx, R, clause, allow=("tensor", "sptensor", "ktensor", "ttensor", "sumtensor", "ndarray", "scalar")):
    """Dense array denoted by whatever a kernel handed back (checked for being a legitimate value first)."""
    if isinstance(R, bool) or isinstance(R, SCALAR_TYPES):
        ctx.require("scalar" in allow, clause + "-type", type(R).__name__)
        return np.array(float(R))
    if isinstance(R, np.ndarray):
        ctx.require("ndarray" in allow, clause + "-type", "ndarray")
        ctx.require(R.dtype.kind in "fiub", clause + "-dtype", str(R.dtype))
        return np.array(R, dtype=float)
    for name, cls in (("tensor", ttb.tensor), ("sptensor", ttb.sptensor), ("ktensor", ttb.ktensor),
                      ("ttensor", ttb.ttensor), ("sumtensor", ttb.sumtensor)):
        if isinstance(R, cls):
            ctx.require(name in allow, clause + "-type", name)
            if name == "sptensor":
                probs = ref.sptensor_problems(R, allow_explicit_zero=True)
                ctx.require(not probs, clause + "-wellformed", probs)
            if name == "tensor":
                ctx.require(isinstance(R.data, np.ndarray) and tup(R.shape) == R.data.shape, clause + "-wellformed",
                            f"shape {R.shape} data {getattr(R.data, 'shape', None)}")
            if name == "sumtensor":
                for p in R.parts:
                    if isinstance(p, ttb.sptensor):
                        probs = ref.sptensor_problems(p, allow_explicit_zero=True)
                        ctx.require(not probs, clause + "-wellformed", probs)
            return ref.den(R)
    ctx.require(False, clause + "-type", type(R).__name__)


def result_kind(R) -> str:
    if isinstance(R, SCALAR_TYPES):
        return "result-scalar"
    if isinstance(R, ttb.sptensor):
        return "result-empty-sparse" if R.subs.size == 0 else "result-sparse"
    if isinstance(R, ttb.tensor):
        return "result-dense"
    return "result-" + type(R).__name__


def fill_label(expect: np.ndarray) -> str:
    if expect.ndim == 0:
        return "fill-scalar"
    nz, n = int(np.count_nonzero(expect)), expect.size
    if nz == 0:
        return "fill=0"
    return "fill<50%" if 2 * nz < n else ("fill=50%" if 2 * nz == n else "fill>50%")


def compare(ctx, got: np.ndarray, expect: np.ndarray, bound: np.ndarray, nterms: int, exact: bool, clause: str,
            extra: str = "") -> bool:
    """DESIGN 2.6: integer-valued data -> exact (all partial sums are integers below 2**50); general floats ->
    |got - expect| <= 64 * nterms * eps * bound, bound = the same sum on absolute values."""
    got, expect = np.asarray(got, dtype=float), np.asarray(expect, dtype=float)
    if not ctx.check(got.shape == expect.shape, clause + "-shape", f"{got.shape} vs {expect.shape} {extra}"):
        return False
    bmax = float(np.max(bound)) if np.size(bound) else 0.0
    if exact and bmax < 2.0**50:
        ok = ref.same_exact(got, expect)
    else:
        ok = ref.same_bound(got, expect, np.broadcast_to(bound, expect.shape), nterms)
    return ctx.check(ok, clause, ref.diff_info(got, expect) + " " + extra)


# --------------------------------------------------------------------------
# (round 4, class 11) how the caller presents valid arguments
# --------------------------------------------------------------------------
# case["pres"] = dict(dims=<how mode numbers / mode lists are typed>, mult=[<how the k-th array operand is stored>],
#                     container="list"|"tuple", env=None|"debug-logging")
# The bodies hand what they are about to pass through ``present_dims`` / ``present_array`` / ``present_seq``; a case
# without "pres" (every case of the earlier rounds) is passed on untouched.  Values are never changed by a
# presentation: the strategies of _c02_present round the values of an operand shown as float32 to float32 *in the
# case*, so that the cast is lossless and the reference (computed from the case in float64) is the reference of what
# is passed.  What changes is the bound: with a single-precision operand the kernels may legitimately work in single
# precision (``pres_nterms``: the rounding unit is 2**29 times the double one), and nothing is compared exactly.

DIM_DTYPES = ("int32", "uint8", "uint16", "uint64", "int64", "int16", "uint32")
DIM_FORMS = DIM_DTYPES + ("tuple", "nplist-int32", "nplist-uint8", "nplist-int64", "pylist")
MULT_FORMS = ("plain", "readonly", "float32", "negstride", "F", "readonly-F", "float32-strided", "widestride")


def present_dims(case, d):
    """the mode number / list of mode numbers ``d`` typed as the presentation says (None stays None)"""
    how = (case.get("pres") or {}).get("dims")
    if how is None or d is None:
        return d
    scalar = isinstance(d, (int, np.integer))
    if how in DIM_DTYPES:
        return np.dtype(how).type(d) if scalar else np.array([int(x) for x in d], dtype=np.dtype(how))
    if scalar:
        return int(d) if how in ("tuple", "pylist") else np.dtype(how.split("-")[1]).type(d)
    if how == "tuple":
        return tuple(int(x) for x in d)
    if how == "pylist":
        return [int(x) for x in d]
    t = np.dtype(how.split("-")[1]).type
    return [t(x) for x in d]


def present_array(case, a, k=0):
    """the array operand ``a`` (k-th of the call) stored as the presentation says; sparse matrices, tensors and other
    non-ndarray operands are passed on as they are"""
    forms = (case.get("pres") or {}).get("mult")
    if not forms or not isinstance(a, np.ndarray):
        return a
    how = forms[k % len(forms)]
    if how == "plain":
        return a
    if how.startswith("float32"):
        a = a.astype(np.float32)
        how = how[8:] or "plain"
    if how in ("F", "readonly-F"):
        a = np.asfortranarray(a)
    if how == "negstride" and a.ndim >= 1 and a.size:
        rev = np.ascontiguousarray(a[(slice(None, None, -1),) * a.ndim])
        a = rev[(slice(None, None, -1),) * a.ndim]  # same values, every stride negative
    if how in ("strided", "widestride") and a.ndim >= 1:
        big = np.full(tuple(3 * n for n in a.shape), 5, dtype=a.dtype)
        view = big[tuple(slice(1, 3 * n, 3) for n in a.shape)]
        view[...] = a
        a = view
    if how.startswith("readonly"):
        a = a.copy(order="K")
        a.setflags(write=False)
    return a


def present_seq(case, xs):
    """a list of array operands: every entry through present_array, the container as the presentation says"""
    p = case.get("pres") or {}
    if not p or not isinstance(xs, (list, tuple)):
        return present_array(case, xs)
    out = [present_array(case, x, k) for k, x in enumerate(xs)]
    return tuple(out) if p.get("container") == "tuple" else out


def positional(case, kw, names):
    """(round 4) optional arguments passed positionally in their documented order ``names`` when the presentation says
    so: (args, kwargs) to splat after the first argument"""
    if not (case.get("pres") or {}).get("positional"):
        return (), kw
    last = max((i for i, n in enumerate(names) if n in kw), default=-1)
    return tuple(kw.get(n) for n in names[:last + 1]), {k: v for k, v in kw.items() if k not in names}


def present_call(case, arg, kw):
    """(multiplicand argument, keyword arguments) of a ttv / ttm call in the case's presentation"""
    if not case.get("pres"):
        return arg, kw
    return present_seq(case, arg), {k: (present_dims(case, v) if k in ("dims", "exclude_dims") else v) for k, v in kw.items()}


def pres_single(case) -> bool:
    return any(f.startswith("float32") for f in ((case.get("pres") or {}).get("mult") or [])) or bool(
        (case.get("pres") or {}).get("data32"))


def pres_nterms(case, nterms):
    """rounding-error count in units of the double-precision eps: 2**29 times more when an operand is single"""
    return nterms * 2**29 if pres_single(case) else nterms


def pres_exact(case, exact) -> bool:
    return bool(exact) and not pres_single(case)


def pres_labels(case) -> List[str]:
    p = case.get("pres")
    if not p:
        return []
    return ["pres-dims-" + str(p.get("dims")), "pres-container-" + str(p.get("container")), "pres-env-" + str(p.get("env")),
            "pres-positional" if p.get("positional") else "pres-keywords", *(["pres-U-nocopy"] if p.get("U_nocopy") else []),
            *sorted({"pres-mult-" + f for f in (p.get("mult") or ["plain"])})]


# ---- the receiver / second tensor as other callers build it (holder["hpres"]) ---------------------------------------------
SHAPE_FORMS = ("uint8", "tuple-int32", "int32", "uint64", "tuple-uint8", "list", "uint16", "tuple-uint64", "int64", None)
SUBS_DTYPES = ("uint8", "int32", "uint64", "uint16", "int32", "uint32", "int16", "int64")


def typed_shape(shape, how):
    if how is None:
        return tuple(int(n) for n in shape)
    if how == "list":
        return [int(n) for n in shape]
    if how.startswith("tuple-"):
        t = np.dtype(how[6:]).type
        return tuple(t(n) for n in shape)
    return np.array([int(n) for n in shape], dtype=np.dtype(how))


@st.composite
def holder_presentation(draw, kind):
    """dict(f32 = data in single precision, subs = dtype of the subscript array, shape = how the shape is typed,
    readonly = the buffers handed over are read-only and taken without a copy)"""
    hp = dict(f32=draw(st.sampled_from([False, False, True])), shape=draw(st.sampled_from(SHAPE_FORMS)), readonly=draw(st.sampled_from([True, False])))
    if kind == "sptensor":
        hp["subs"] = draw(st.sampled_from(SUBS_DTYPES))
    return hp


def build_presented(h):
    """a dense / sparse holder built straight from the caller's arrays in the presentation ``h["hpres"]`` (no derived
    state, no integer storage dtype: those are the business of the round-2 cells)"""
    hp = h["hpres"]
    if h["holder"] in ("ktensor", "ttensor"):
        return _build_presented_structured(h)
    shape = typed_shape(h["shape"], hp.get("shape"))
    vdt = np.float32 if hp.get("f32") else np.float64
    if h["holder"] == "tensor":
        A = np.asfortranarray(gen.arr_F(h["shape"], h["data"]).astype(vdt))
        if hp.get("readonly"):
            A.setflags(write=False)
            return ttb.tensor(A, shape, copy=False)
        return ttb.tensor(A, shape)
    n = len(h["subs"])
    if n == 0:
        return ttb.sptensor(shape=shape)
    subs = np.array(h["subs"], dtype=np.dtype(hp.get("subs") or "int64")).reshape(n, len(h["shape"]))
    vals = np.array(h["vals"], dtype=vdt).reshape(-1, 1)
    if hp.get("readonly"):
        subs.setflags(write=False)
        vals.setflags(write=False)
        return ttb.sptensor(subs, vals, shape, copy=False)
    return ttb.sptensor(subs, vals, shape)


def _readonly_F(a):
    a = np.asfortranarray(np.array(a, dtype=float))
    a.setflags(write=False)
    return a


def _build_presented_structured(h):
    """Kruskal / Tucker holder whose parameter arrays are the caller's own read-only F-ordered arrays, taken without a
    copy (``copy=False``), the factor list as a list or a tuple"""
    hp = h["hpres"]
    if h["holder"] == "ktensor":
        w, fm = _kruskal_arrays(h)
        fm = [_readonly_F(m) for m in fm]
        return ttb.ktensor(fm if hp.get("container") != "tuple" else tuple(fm), _readonly_F(w), copy=False)
    core, fm = _tucker_arrays(h)
    fm = [_readonly_F(m) for m in fm]
    if h.get("sparse_core"):
        sc = gen.sparse_case_from_dense(core)
        c = build_presented(dict(holder="sptensor", shape=h["cshape"], subs=sc["subs"], vals=sc["vals"], hpres=hp["core"]))
    else:
        c = build_presented(dict(holder="tensor", shape=h["cshape"], data=[float(x) for x in core.ravel(order="F")],
                                 hpres=hp["core"]))
    return ttb.ttensor(c, fm if hp.get("container") != "tuple" else tuple(fm), copy=False)


def present_holder(draw, h):
    """the holder dict ``h`` (dense, sparse, or a sum with such parts) given a drawn presentation; returns True when data
    went to single precision (values rounded in the dict)"""
    if h["holder"] == "sumtensor":
        return any([present_holder(draw, p) for p in h["parts"]])
    if h["holder"] in ("ktensor", "ttensor"):
        for k in ("state", "cdtype", "fdtypes"):
            h.pop(k, None)
        h["hpres"] = dict(readonly=True, container=draw(st.sampled_from(["list", "tuple"])))
        if h["holder"] == "ttensor":
            core = draw(holder_presentation("sptensor" if h.get("sparse_core") else "tensor"))
            core["f32"] = False
            core["readonly"] = True
            h["hpres"]["core"] = core
        return False
    if h["holder"] not in ("tensor", "sptensor"):
        return False
    hp = draw(holder_presentation(h["holder"]))
    h.pop("state", None)
    h.pop("dtype", None)
    h["hpres"] = hp
    if hp["f32"]:
        key = "data" if h["holder"] == "tensor" else "vals"
        h[key] = [float(np.float32(v)) for v in h[key]]
    return bool(hp["f32"])


def hpres_labels(h) -> List[str]:
    if h["holder"] == "sumtensor":
        return sorted({x for p in h["parts"] for x in hpres_labels(p)})
    hp = h.get("hpres")
    if not hp:
        return []
    if h["holder"] in ("ktensor", "ttensor"):
        return ["hpres-" + h["holder"], "hpres-readonly-nocopy", "hpres-factors-" + str(hp.get("container"))]
    return ["hpres-" + h["holder"], "hpres-f32" if hp.get("f32") else "hpres-f64", "hpres-shape-" + str(hp.get("shape")),
            "hpres-readonly-nocopy" if hp.get("readonly") else "hpres-copied"] + (
                ["hpres-subs-" + hp["subs"]] if hp.get("subs") and h.get("subs") else [])
