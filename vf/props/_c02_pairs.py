"""C02 cells with two tensor operands: ttt, innerprod, scale, mask."""

from __future__ import annotations

import numpy as np
from hypothesis import strategies as st

import pyttb as ttb

from .. import gen, ref
from ..core import cell
from . import _c02_common as cm

# --------------------------------------------------------------------------
# ttt (tensor x tensor)
# --------------------------------------------------------------------------


@st.composite
def _ttt_strategy(draw, tier):
    vk = draw(st.sampled_from(["int", "float"]))
    cap = 32 if tier == "quick" else 100
    s1 = draw(gen.shapes(tier, min_order=1, max_order=3 if tier == "quick" else 4, max_cells=cap))
    N1 = len(s1)
    mode = draw(st.sampled_from(["outer", "same", "pair", "pair", "full"]))
    if mode == "outer":
        s2 = draw(gen.shapes(tier, min_order=1, max_order=2, max_cells=max(1, 128 // ref.prod(s1))))
        sd, od = None, None
    elif mode == "full":
        sd = list(draw(st.permutations(range(N1))))
        od = list(draw(st.permutations(range(N1))))
        s2 = [0] * N1
        for a, b in zip(sd, od):
            s2[b] = s1[a]
    else:
        k = draw(st.integers(1, N1))
        sd = list(draw(st.permutations(range(N1))))[:k]
        nfree = draw(st.integers(0, 2))
        free = [draw(st.integers(1, 3)) for _ in range(nfree)]
        N2 = k + nfree
        if mode == "same":
            # the contracted modes sit at the same positions in both operands
            N2 = max(sd) + 1 + nfree
            s2 = [None] * N2
            for a in sd:
                s2[a] = s1[a]
            it = iter(free + [draw(st.integers(1, 3)) for _ in range(N2)])
            s2 = [x if x is not None else next(it) for x in s2]
            od = None
        else:
            od = list(draw(st.permutations(range(N2))))[:k]
            s2 = [None] * N2
            for a, b in zip(sd, od):
                s2[b] = s1[a]
            it = iter(free)
            s2 = [x if x is not None else next(it) for x in s2]
    X = draw(cm.dense_holder(s1, vk))
    Y = draw(cm.dense_holder(s2, cm.other_vkind(draw, vk)))
    if X.get("dtype") in cm.ST.SMALL_DTYPES and Y.get("dtype") in cm.ST.SMALL_DTYPES:
        del Y["dtype"]  # two narrow-integer operands: their product wraps around by NumPy's own rules
    scalar_form = bool(sd is not None and len(sd) == 1 and draw(st.booleans()))
    return dict(X=X, Y=Y, selfdims=sd, otherdims=od, mode=mode, scalar_form=scalar_form)


def _ttt_args(case):
    sd, od = case["selfdims"], case["otherdims"]
    if sd is None:
        return {}
    if case.get("pres"):
        # (round 4) mode numbers as another caller would type them; documented forms: an int or an ndarray
        # (lists / tuples are not among them and are not requested)
        how = case["pres"].get("dims")
        arr = how if how in cm.DIM_DTYPES else "int64"
        if case.get("scalar_form"):
            kw = dict(selfdims=cm.present_dims(case, int(sd[0])))
            if od is not None:
                kw["otherdims"] = cm.present_dims(case, int(od[0]))
            return kw
        kw = dict(selfdims=np.array(sd, dtype=np.dtype(arr)))
        if od is not None:
            kw["otherdims"] = np.array(od, dtype=np.dtype(arr))
        return kw
    if case.get("scalar_form"):
        kw = dict(selfdims=int(sd[0]))
        if od is not None:
            kw["otherdims"] = int(od[0])
        return kw
    kw = dict(selfdims=np.array(sd, dtype=int))
    if od is not None:
        kw["otherdims"] = np.array(od, dtype=int)
    return kw


@cell("C02/ttt/tensor", strategy=_ttt_strategy, quick=600, thorough=12000, shards=(2, 8))
def ttt_tensor(ctx, case):
    hx, hy = case["X"], case["Y"]
    X, Y = cm.build(hx), cm.build(hy)
    A, B = cm.den_case(hx), cm.den_case(hy)
    sd = case["selfdims"] or []
    od = case["otherdims"] if case["otherdims"] is not None else sd
    expect = np.tensordot(A, B, axes=(list(sd), list(od)))
    bound = np.tensordot(np.abs(A), np.abs(B), axes=(list(sd), list(od)))
    ctx.label("ttt-" + case["mode"], f"contract{len(sd)}", "scalar-dims" if case.get("scalar_form") else "array-dims",
              "expect-scalar" if expect.ndim == 0 else "expect-tensor",
              "dims-unsorted" if list(sd) != sorted(sd) or list(od) != sorted(od) else "dims-sorted",
              "dims-differ" if list(sd) != list(od) else "dims-same", *cm.state_label(hx),
              *["right:" + x for x in cm.state_label(hy)], *cm.object_labels(X, Y),
              "dtypes-" + hx.get("dtype", "float64") + "/" + hy.get("dtype", "float64"),
              "values-mixed-kinds" if hx["vkind"] != hy["vkind"] else "values-same-kind", *cm.pres_labels(case))
    ctx.nt = (len(set(hx["shape"]) | set(hy["shape"])) >= 2 and len(sd) >= 1 and
              (list(sd) != list(od) or list(sd) != sorted(sd)) and bool(np.any(expect != 0)))
    pos, kw = cm.positional(case, _ttt_args(case), ("selfdims", "otherdims"))
    with ctx.sut("tensor.ttt"):
        R = X.ttt(Y, *pos, **kw)
    ctx.label(cm.result_kind(R))
    got = cm.result_array(ctx, R, "ttt-result", allow=("tensor", "scalar"))
    if expect.ndim == 0:
        ctx.check(isinstance(R, cm.SCALAR_TYPES), "ttt-full-contraction-gives-scalar", type(R).__name__)
    nterms = cm.pres_nterms(case, ref.prod(hx["shape"][a] for a in sd) + 1)
    cm.compare(ctx, got, expect, bound, nterms, cm.pres_exact(case, cm.intvalued(hx, hy)), "ttt-value",
               f"selfdims={case['selfdims']} otherdims={case['otherdims']}")


def _enum_ttt(tier):
    import itertools

    pairs = [((2, 3), (3, 2)), ((2, 3, 2), (3, 2, 4)), ((3,), (2, 3)), ((2, 2), (2, 2)), ((2, 1, 3), (1, 3))]
    if tier == "thorough":
        pairs += [((2, 3, 4), (4, 3, 2)), ((2, 3, 2, 3), (3, 2)), ((1, 1), (1,)), ((2, 2, 2), (2, 2, 2))]
    for s1, s2 in pairs:
        X0 = cm.fixed_holder("tensor", s1, salt=1)
        Y0 = cm.fixed_holder("tensor", s2, salt=2)
        X, Y = X0, Y0
        if ref.prod(s1) * ref.prod(s2) <= 256:
            yield dict(X=X, Y=Y, selfdims=None, otherdims=None, mode="outer", scalar_form=False)
        i = 0
        for k in range(1, min(len(s1), len(s2)) + 1):
            for sd in itertools.permutations(range(len(s1)), k):
                for od in itertools.permutations(range(len(s2)), k):
                    if all(s1[a] == s2[b] for a, b in zip(sd, od)):
                        i += 1
                        X, Y = cm.fixed_state(X0, i), cm.fixed_state(Y0, i // 2 + 3)
                        mode = "full" if k == len(s1) == len(s2) else "pair"
                        yield dict(X=X, Y=Y, selfdims=list(sd), otherdims=list(od), mode=mode, scalar_form=False)
                        if k == 1:
                            yield dict(X=X, Y=Y, selfdims=list(sd), otherdims=list(od), mode=mode, scalar_form=True)
                        if list(sd) == list(od):
                            yield dict(X=X, Y=Y, selfdims=list(sd), otherdims=None, mode="same", scalar_form=False)


@cell("C02/ttt/enumerated", enum=_enum_ttt, shards=(2, 8))
def ttt_enumerated(ctx, case):
    """every ordered choice of matching (selfdims, otherdims) for fixed pairs of non-cubical tensors"""
    ttt_tensor(ctx, case)


# --------------------------------------------------------------------------
# innerprod: every supported ordered pair of classes
# --------------------------------------------------------------------------

INNER_RIGHT = {
    "tensor": ("tensor", "sptensor", "ktensor", "ttensor"),
    "sptensor": ("tensor", "sptensor", "ktensor", "ttensor"),
    "ktensor": ("tensor", "sptensor", "ktensor", "ttensor"),
    "ttensor": ("tensor", "sptensor", "ktensor", "ttensor"),
    "sumtensor": ("tensor", "sptensor", "ktensor", "ttensor"),
}


def _inner_strategy(left):
    @st.composite
    def s(draw, tier):
        vk = draw(st.sampled_from(["int", "float"]))
        mo, ms, mc = cm.structured_limits(tier)
        shape = draw(gen.shapes(tier, min_order=1, max_order=mo, max_size=ms, max_cells=mc))
        right = draw(st.sampled_from(INNER_RIGHT[left]))
        X = draw(cm.holder_with_shape(shape, vk, left))
        Y = draw(cm.holder_with_shape(shape, cm.other_vkind(draw, vk), right))
        if cm.has_small_dtype(X) and cm.has_small_dtype(Y):
            _drop_small(Y)
        return dict(X=X, Y=Y)

    return s


def _drop_small(h):
    """no narrow-integer storage on the right when the left has it (their products wrap around by NumPy's rules)"""
    if h["holder"] == "sumtensor":
        for p in h["parts"]:
            _drop_small(p)
    for k in ("dtype", "cdtype"):
        if h.get(k) in cm.ST.SMALL_DTYPES:
            del h[k]


def innerprod_body(ctx, case):
    hx, hy = case["X"], case["Y"]
    X, Y = cm.build(hx), cm.build(hy)
    A, B = cm.den_case(hx), cm.den_case(hy)
    expect = np.array(float(np.sum(A * B)))
    bound = np.array(float(np.sum(cm.den_case(hx, True) * cm.den_case(hy, True))))
    ctx.label("right-" + hy["holder"], *cm.holder_labels(hx), *["right:" + x for x in cm.holder_labels(hy)[1:]],
              "expect-zero" if float(expect) == 0 else "expect-nonzero", *cm.object_labels(X, Y),
              *["right:" + x for x in cm.state_label(hy)],
              "values-mixed-kinds" if hx["vkind"] != hy["vkind"] else "values-same-kind")
    ctx.nt = len(set(hx["shape"])) >= 2 and float(expect) != 0
    with ctx.sut(f"{hx['holder']}.innerprod({hy['holder']})"):
        r = X.innerprod(Y)
    ctx.require(isinstance(r, cm.SCALAR_TYPES) and not isinstance(r, bool), "innerprod-returns-scalar",
                type(r).__name__)
    nterms = cm.terms(hx) * cm.terms(hy) * ref.prod(hx["shape"]) + 1
    if case.get("tight"):
        nterms = cm.tight_count(hx, hy)  # (round 3) see _c02_common.tight_count
    cm.compare(ctx, np.array(float(r)), expect, bound, cm.pres_nterms(case, nterms),
               cm.pres_exact(case, cm.intvalued(hx, hy)), "innerprod-value")


for _k, (_q, _t) in {"tensor": (1000, 10000), "sptensor": (1000, 10000), "ktensor": (800, 8000),
                     "ttensor": (800, 8000), "sumtensor": (600, 5000)}.items():
    cell(f"C02/innerprod/{_k}", strategy=_inner_strategy(_k), quick=_q, thorough=_t, shards=(2, 8))(innerprod_body)


def _enum_inner(tier):
    shapes = [(3,), (2, 3), (3, 2, 4), (2, 1, 3)]
    if tier == "thorough":
        shapes += [(1,), (1, 1), (2, 3, 2, 4)]
    kinds = ("tensor", "sptensor", "sptensor-thin", "sptensor-one", "sptensor-empty", "ktensor", "ttensor-dense",
             "ttensor-sparse", "sumtensor")
    i = 0
    for sh in shapes:
        for lk in kinds:
            for rk in kinds:
                if rk == "sumtensor":
                    continue
                i += 1
                yield dict(X=cm.fixed_state(cm.fixed_holder(lk, sh, salt=1), i),
                           Y=cm.fixed_state(cm.fixed_holder(rk, sh, salt=4), i // 3))


@cell("C02/innerprod/enumerated", enum=_enum_inner, shards=(4, 8))
def innerprod_enumerated(ctx, case):
    """every ordered pair of holder classes (sumtensor on the left only) on fixed shapes"""
    innerprod_body(ctx, case)


# --------------------------------------------------------------------------
# scale
# --------------------------------------------------------------------------


@st.composite
def _dims_any(draw, N, min_size=1, max_size=None):
    k = draw(st.integers(min_size, max_size or N))
    return list(draw(st.permutations(range(N))))[:k]


def _scale_strategy(kind):
    @st.composite
    def s(draw, tier):
        h = draw(cm.holder(tier, kind))
        shape = h["shape"]
        N = len(shape)
        fkinds = ["ndarray", "tensor"] if kind == "tensor" else ["ndarray", "tensor", "sptensor"]
        fkind = draw(st.sampled_from(fkinds))
        # a plain ndarray factor scales one mode of a sparse tensor; a dense tensor accepts an N-d ndarray too
        if fkind == "ndarray" and kind == "sptensor":
            dims = draw(_dims_any(N, 1, 1))
        else:
            dims = draw(_dims_any(N))
        fshape = [shape[d] for d in sorted(dims)]  # factor modes follow the selected modes in ascending order
        pat = draw(st.sampled_from(["all", "all", "some", "one", "none"]))
        fvk = cm.other_vkind(draw, h["vkind"])
        fdata, fdt = cm.operand_values(draw, ref.prod(fshape), pat, fvk, cm.has_small_dtype(h))
        forder = draw(st.sampled_from(["sorted", "reverse"]))
        dform = draw(st.sampled_from(["list", "array"] + (["int"] if len(dims) == 1 else [])))
        fstate = None
        if fkind == "tensor":
            fstate = draw(cm.ST.dense_state(fshape))
        elif fkind == "sptensor":
            fstate = draw(cm.ST.sparse_state(fshape, sum(1 for v in fdata if v != 0)))
        return dict(X=h, dims=dims, dform=dform, fkind=fkind, fshape=fshape, fdata=fdata, forder=forder, fpattern=pat,
                    fdtype=fdt, fvkind=fvk, fstate=fstate)

    return s


def _build_factor(case):
    F = gen.arr_F(case["fshape"], case["fdata"])
    fk = case["fkind"]
    dt = np.dtype((case.get("fdtype") or "float64").split("@")[0])
    if fk == "ndarray":
        return cm.cast(F, case.get("fdtype")), F
    if case.get("fhpres"):  # (round 4) the factor tensor as another caller builds it
        if fk == "tensor":
            return cm.build_presented(dict(holder="tensor", shape=case["fshape"], data=case["fdata"], hpres=case["fhpres"])), F
        sc = gen.sparse_case_from_dense(F)
        return cm.build_presented(dict(holder="sptensor", shape=case["fshape"], subs=sc["subs"], vals=sc["vals"],
                                       hpres=case["fhpres"])), F
    if fk == "tensor":
        return cm.ST.build_dense(F.astype(dt), case.get("fstate")), F
    sc = gen.sparse_case_from_dense(F)
    if case.get("forder") == "reverse":
        sc["subs"], sc["vals"] = sc["subs"][::-1], sc["vals"][::-1]
    return cm.ST.build_sparse(sc["subs"], sc["vals"], case["fshape"], dt, case.get("fstate"), F), F


def scale_body(ctx, case):
    h = case["X"]
    kind = h["holder"]
    shape = h["shape"]
    N = len(shape)
    dims = case["dims"]
    X = cm.build(h)
    A = cm.den_case(h)
    factor, F = _build_factor(case)
    sd = sorted(dims)
    # expect[i] = A[i] * F[i_d for d in ascending selected modes]
    bshape = [shape[d] if d in sd else 1 for d in range(N)]
    Fb = F.reshape(bshape)  # F's modes are already in ascending mode order, so a plain reshape broadcasts them
    expect = A * Fb
    bound = np.abs(A) * np.abs(Fb)
    darg = int(dims[0]) if case["dform"] == "int" else (np.array(dims, dtype=int) if case["dform"] == "array" else
                                                        [int(d) for d in dims])
    ctx.label(*cm.holder_labels(h), "factor-" + case["fkind"], f"ndims{len(dims)}of{N}", "dims-" + case["dform"],
              "dims-unsorted" if dims != sd else "dims-sorted", "factor-pattern-" + case["fpattern"],
              "factor-dtype-" + (case.get("fdtype") or "float64"), "factor-state-" + (case.get("fstate") or {}).get("how", "ctor"),
              *cm.object_labels(X, factor),
              "values-mixed-kinds" if case.get("fvkind", h["vkind"]) != h["vkind"] else "values-same-kind")
    ctx.nt = len(set(shape)) >= 2 and dims != list(range(len(dims))) and len(set(case["fdata"])) > 1 and bool(
        np.any(expect != 0))
    if case.get("pres"):  # (round 4)
        darg = cm.present_dims(case, int(dims[0]) if case["dform"] == "int" else [int(d) for d in dims])
        factor = cm.present_array(case, factor)
        ctx.label(*cm.pres_labels(case))
    with ctx.sut(f"{kind}.scale({case['fkind']})"):
        R = X.scale(factor, darg)
    ctx.label(cm.result_kind(R))
    got = cm.result_array(ctx, R, "scale-result", allow=(kind,))
    cm.compare(ctx, got, expect, bound, cm.pres_nterms(case, 2),
               cm.pres_exact(case, cm.intvalued(h) and case.get("fvkind", "int") == "int"), "scale-value", f"dims={dims}")


cell("C02/scale/tensor", strategy=_scale_strategy("tensor"), quick=500, thorough=10000, shards=(2, 8))(scale_body)
cell("C02/scale/sptensor", strategy=_scale_strategy("sptensor"), quick=600, thorough=12000, shards=(2, 8))(scale_body)


def _enum_scale(tier):
    import itertools

    shapes = [(3,), (2, 3), (3, 2, 4), (2, 1, 3)]
    if tier == "thorough":
        shapes += [(1, 1), (4, 3, 2), (2, 3, 2, 4)]
    for sh in shapes:
        N = len(sh)
        for hk in ("tensor", "sptensor", "sptensor-thin", "sptensor-one", "sptensor-empty"):
            h0 = cm.fixed_holder(hk, sh, salt=N + 5)
            i = 0
            for k in range(1, N + 1):
                for dims in itertools.permutations(range(N), k):
                    fshape = [sh[d] for d in sorted(dims)]
                    fdata = cm._det_values(ref.prod(fshape), k + 1)
                    for fkind in (("ndarray", "tensor") if hk == "tensor" else ("ndarray", "tensor", "sptensor")):
                        if fkind == "ndarray" and hk != "tensor" and k > 1:
                            continue
                        i += 1
                        h = cm.fixed_state(h0, i)
                        yield dict(X=h, dims=list(dims), fdtype=(None, "int64", "int32")[i % 3], dform="int" if k == 1 and dims[0] % 2 else "list", fkind=fkind,
                                   fshape=fshape, fdata=fdata, forder="reverse", fpattern="some")


@cell("C02/scale/enumerated", enum=_enum_scale, shards=(2, 8))
def scale_enumerated(ctx, case):
    """every ordered mode subset x every factor class on fixed shapes, dense and sparse holders including the
    one-nonzero and no-nonzero ones"""
    scale_body(ctx, case)


# --------------------------------------------------------------------------
# mask
# --------------------------------------------------------------------------

MASK_W = {"tensor": ("tensor",), "sptensor": ("sptensor",), "ktensor": ("tensor", "sptensor")}


def _mask_strategy(kind):
    @st.composite
    def s(draw, tier):
        h = draw(cm.holder(tier, kind))
        shape = h["shape"]
        wkind = draw(st.sampled_from(MASK_W[kind]))
        # W may be smaller than the data tensor in any mode ("cannot be bigger")
        if draw(st.integers(0, 3)) == 0:
            wshape = [draw(st.integers(1, n)) for n in shape]
        else:
            wshape = list(shape)
        n = ref.prod(wshape)
        pat = draw(st.sampled_from(["all", "some", "some", "one", "none"]))
        flat = gen._pattern_values(draw, n, pat, "int")
        flat = [1.0 if v != 0 else 0.0 for v in flat]
        entries = [list(sub) for sub, v in zip(ref.all_subs_F(wshape), flat) if v != 0]
        order = "sorted"
        if wkind == "sptensor":
            order = draw(st.sampled_from(["sorted", "reverse", "random"]))
            if order == "reverse":
                entries = entries[::-1]
            elif order == "random" and len(entries) > 1:
                entries = [entries[i] for i in draw(st.permutations(range(len(entries))))]
        wdt = draw(st.sampled_from([None, None, "int64", "uint8", "bool"]))  # a mask is naturally integer / boolean
        if wkind == "sptensor":
            wstate = draw(cm.ST.sparse_state(wshape, len(entries)))
            if wstate["how"].startswith("zeros"):
                wstate = dict(how="ctor")  # a stored zero of W is not a one of W: what it selects is not defined
        else:
            wstate = draw(cm.ST.dense_state(wshape))
        return dict(X=h, wkind=wkind, wshape=wshape, wsubs=entries, worder=order, wpattern=pat, wdtype=wdt, wstate=wstate)

    return s


def mask_body(ctx, case):
    h = case["X"]
    kind = h["holder"]
    X = cm.build(h)
    A, Aabs = cm.den_case(h), cm.den_case(h, absolute=True)
    wshape, wsubs = case["wshape"], case["wsubs"]
    wdt = np.dtype(case.get("wdtype") or "float64")
    Wd = np.zeros(tuple(wshape))
    for s in wsubs:
        Wd[tuple(s)] = 1.0
    if case.get("whpres"):  # (round 4) the mask as another caller builds it (stored order of a sparse W kept)
        if case["wkind"] == "tensor":
            W = cm.build_presented(dict(holder="tensor", shape=wshape, data=[float(x) for x in Wd.ravel(order="F")],
                                        hpres=case["whpres"]))
        else:
            W = cm.build_presented(dict(holder="sptensor", shape=wshape, subs=wsubs, vals=[1.0] * len(wsubs),
                                        hpres=case["whpres"]))
        ctx.label("W-hpres")
    elif case["wkind"] == "tensor":
        W = cm.ST.build_dense(Wd.astype(wdt), case.get("wstate"))
    else:
        wst = case.get("wstate")
        if wst and wst.get("how") not in ("ctor", "npshape"):
            wst = dict(how="npshape") if wst.get("npshape") else None  # other histories re-order the stored ones of W
        W = cm.ST.build_sparse(wsubs, [1.0] * len(wsubs), wshape, wdt, wst, Wd)
    # values of the data at the ones of W, in the order W enumerates them (F order for a dense W, stored order
    # for a sparse W)
    expect = np.array([A[tuple(s)] for s in wsubs], dtype=float)
    bound = np.array([Aabs[tuple(s)] for s in wsubs], dtype=float)
    nzhit = int(np.count_nonzero(expect))
    ctx.label(*cm.holder_labels(h), "W-" + case["wkind"], "W-stored-" + case["worder"], "W-pattern-" + case["wpattern"],
              "W-smaller" if list(wshape) != list(h["shape"]) else "W-same-shape",
              "hits-none" if nzhit == 0 else ("hits-all" if nzhit == len(wsubs) else "hits-some"),
              "W-dtype-" + (case.get("wdtype") or "float64"), *cm.object_labels(X, W))
    ctx.nt = len(wsubs) >= 2 and 0 < nzhit and len(set(expect.tolist())) > 1
    with ctx.sut(f"{kind}.mask({case['wkind']})"):
        R = X.mask(W)
    ctx.require(isinstance(R, np.ndarray), "mask-returns-ndarray", type(R).__name__)
    ctx.require(R.dtype.kind in "fiub", "mask-dtype", str(R.dtype))
    got = np.asarray(R, dtype=float)
    ctx.require(got.size == expect.size, "mask-one-value-per-one-of-W", f"{got.shape} for {len(wsubs)} ones")
    cm.compare(ctx, got.reshape(-1), expect, bound, cm.pres_nterms(case, cm.terms(h)), cm.pres_exact(case, cm.intvalued(h)),
               "mask-value",
               f"wsubs={wsubs[:6]}")


cell("C02/mask/tensor", strategy=_mask_strategy("tensor"), quick=400, thorough=8000, shards=(2, 8))(mask_body)
cell("C02/mask/sptensor", strategy=_mask_strategy("sptensor"), quick=600, thorough=12000, shards=(2, 8))(mask_body)
cell("C02/mask/ktensor", strategy=_mask_strategy("ktensor"), quick=400, thorough=8000, shards=(2, 8))(mask_body)


def _enum_mask(tier):
    shapes = [(3,), (2, 3), (3, 2, 2)]
    if tier == "thorough":
        shapes += [(1,), (1, 1), (2, 3, 2, 2)]
    for sh in shapes:
        n = ref.prod(sh)
        allsubs = [list(x) for x in ref.all_subs_F(sh)]
        wsets = {
            "all": allsubs,
            "none": [],
            "first": allsubs[:1],
            "last": allsubs[-1:],
            "even": allsubs[0::2],
            "odd": allsubs[1::2],
        }
        small = [max(1, x - 1) for x in sh]
        wsets_small = [list(x) for x in ref.all_subs_F(small)]
        for hk in ("tensor", "sptensor", "sptensor-thin", "sptensor-one", "sptensor-empty", "ktensor"):
            h0 = cm.fixed_holder(hk, sh, salt=len(sh) + 4)
            h = h0
            wkinds = MASK_W["sptensor" if hk.startswith("sptensor") else hk]
            i = 0
            for wk in wkinds:
                for name, ws in wsets.items():
                    for order in (("sorted", "reverse") if wk == "sptensor" and len(ws) > 1 else ("sorted",)):
                        i += 1
                        h = cm.fixed_state(h0, i)
                        yield dict(X=h, wdtype=(None, "int64", "bool")[i % 3], wkind=wk, wshape=list(sh), wsubs=ws[::-1] if order == "reverse" else ws,
                                   worder=order, wpattern=name)
                yield dict(X=h, wkind=wk, wshape=small, wsubs=wsets_small, worder="sorted", wpattern="all")


@cell("C02/mask/enumerated", enum=_enum_mask, shards=(2, 8))
def mask_enumerated(ctx, case):
    """fixed holders (dense, sparse with many / one / no nonzeros, Kruskal) x masks all / none / first / last /
    alternating / smaller-than-data, sparse masks stored forwards and backwards"""
    mask_body(ctx, case)
