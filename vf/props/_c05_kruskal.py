"""C05 cells for pyttb.ktensor, pyttb.ttensor and pyttb.sumtensor."""

from __future__ import annotations

import numpy as np
from hypothesis import strategies as st

import pyttb as ttb

from .. import gen, ref
from . import _c05_reg as R
from . import _c05_tensor as CT
from ._c05_reg import op

K = R.CS.build_ktensor
TT = R.CS.build_ttensor
SUM = R.build_sumtensor


@st.composite
def kt(draw, tier, min_order=1, max_order=None, weights=None, cubic=False, max_rank=3, min_size=1):
    w = weights or draw(st.sampled_from(["any", "any", "unit", "positive"]))
    if cubic:
        n = draw(st.integers(min_order, max_order or 3))
        s = draw(st.integers(1, 3))
        shape = [s] * n
    else:
        shape = draw(gen.shapes(tier, min_order=min_order, max_order=max_order or 4, max_cells=48, min_size=min_size))
    c = draw(gen.ktensor_case(tier, shape=shape, weights=w, max_rank=max_rank))
    c["wkind"] = w
    return c


def k_labels(ctx, c):
    ctx.label("weights-" + c.get("wkind", "?"), f"rank{c['rank']}")


# ==========================================================================
# ktensor
# ==========================================================================


@st.composite
def g_kctor(draw, tier):
    c = draw(kt(tier))
    c["layout"] = draw(st.sampled_from(["C", "F"]))
    c["weights_arg"] = draw(st.booleans())
    c["copy_kw"] = draw(st.booleans())
    c["seq"] = draw(st.sampled_from(["list", "tuple"]))
    c["_present"] = R.d_present(draw, values=["weights"])
    c["fpresent"] = [draw(st.sampled_from(R.CS.KFACTOR_FORMS + ("neg-strided",))) for _ in c["shape"]]
    return c


@op("ktensor/ctor-copy", g_kctor)
def _(ctx, c):
    fm = [np.array(f, dtype=float).reshape(n, c["rank"]) for f, n in zip(c["factors"], c["shape"])]
    if c["layout"] == "F":
        fm = [np.asfortranarray(f) for f in fm]
    fm = [R.CS.present(f, p) for f, p in zip(fm, c["fpresent"])]
    ctx.label(*["factor-presented-" + p for p in c["fpresent"] if p])
    if c["seq"] == "tuple":
        fm = tuple(fm)
    w = R.presented(ctx, c, "weights", np.array(c["weights"], dtype=float))
    ops = {"factor_matrices": fm}
    kw = {"copy": True} if c["copy_kw"] else {}
    ctx.label("layout-" + c["layout"], "with-weights" if c["weights_arg"] else "no-weights")
    if c["weights_arg"]:
        ops["weights"] = w
        return ops, lambda: ttb.ktensor(fm, w, **kw)
    return ops, lambda: ttb.ktensor(fm, **kw)


@st.composite
def g_from_vector(draw, tier):
    c = draw(kt(tier))
    c["contains_weights"] = draw(st.booleans())
    # with weights only a 1-D vector is accepted (the weight slice of a column keeps its second axis)
    c["form"] = "1d" if c["contains_weights"] else draw(st.sampled_from(["1d", "column", "row"]))
    return c


@op("ktensor/from_vector", g_from_vector)
def _(ctx, c):
    fm = [np.array(f, dtype=float).reshape(n, c["rank"]) for f, n in zip(c["factors"], c["shape"])]
    parts = ([np.array(c["weights"], dtype=float)] if c["contains_weights"] else []) + [f.ravel(order="F") for f in fm]
    v = np.concatenate(parts)
    if c["form"] == "column":
        v = v.reshape(-1, 1)
    elif c["form"] == "row":
        v = v.reshape(1, -1)
    ctx.label("data-" + c["form"])
    shape = tuple(c["shape"])
    return {"data": v}, lambda: ttb.ktensor.from_vector(v, shape, c["contains_weights"])


_KUNARY = {
    "copy": lambda X: X.copy(),
    "deepcopy": lambda X: R.deepcopy(X),
    "double": lambda X: X.double(),
    "full": lambda X: X.full(),
    "to_tensor": lambda X: X.to_tensor(),
    "norm": lambda X: X.norm(),
    "pos": lambda X: +X,
    "neg": lambda X: -X,
    "scalar-props": lambda X: (X.ncomponents, X.ndims, X.shape, X.order),
    "repr": lambda X: (repr(X), str(X)),
    "issymmetric": lambda X: X.issymmetric(),
    "issymmetric-diffs": lambda X: X.issymmetric(return_diffs=True),
    "tovec": lambda X: X.tovec(),
    "tovec-noweights": lambda X: X.tovec(include_weights=False),
}


def _reg_kunary(name, f):
    @op("ktensor/" + name, lambda tier: kt(tier, min_order=2 if name in ("full", "double", "to_tensor") else 1))
    def _(ctx, c, f=f):
        X = K(c)
        k_labels(ctx, c)
        return {"self": X}, lambda: f(X)


for _n, _f in _KUNARY.items():
    _reg_kunary(_n, _f)


@op("ktensor/symmetrize", lambda tier: kt(tier, cubic=True))
def _(ctx, c):
    X = K(c)
    k_labels(ctx, c)
    return {"self": X}, lambda: X.symmetrize()


@st.composite
def g_tolist(draw, tier):
    c = draw(kt(tier))
    c["mode"] = draw(st.one_of(st.none(), st.integers(0, len(c["shape"]) - 1)))
    return c


R.pred("tolist_mode_given")(lambda c: c.get("mode") is not None)
R.pred("tolist_unit_weights_no_mode")(lambda c: c.get("mode") is None and all(w == 1.0 for w in c["weights"]))
R.pred("tolist_mode_or_unit")(lambda c: c.get("mode") is not None or all(w == 1.0 for w in c["weights"]))


@op("ktensor/tolist", g_tolist, quick=80, thorough=2000)
def _(ctx, c):
    X = K(c)
    k_labels(ctx, c)
    ctx.label("mode-none" if c["mode"] is None else "mode-given")
    if c["mode"] is None:
        return {"self": X}, lambda: X.tolist()
    return {"self": X}, lambda: X.tolist(c["mode"])


@st.composite
def g_extract(draw, tier):
    c = draw(kt(tier))
    r = c["rank"]
    form = draw(st.sampled_from(["none", "int", "list", "tuple", "array"]))
    c["form"] = form
    if form == "int":
        c["idx"] = [draw(st.integers(0, r - 1))]
    elif form != "none":
        c["idx"] = list(range(r)) if draw(st.booleans()) else list(draw(gen.mode_subset(r, 1, r)))
    return c


@op("ktensor/extract", g_extract, quick=60)
def _(ctx, c):
    X = K(c)
    k_labels(ctx, c)
    ctx.label("idx-" + c["form"])
    if c["form"] == "none":
        return {"self": X}, lambda: X.extract()
    idx = R.as_form(c["idx"], c["form"])
    ctx.label("all-components-in-order" if c["idx"] == list(range(c["rank"])) else "subset-or-reordered")
    return {"self": X, "idx": idx}, lambda: X.extract(idx)


def g_kother(kinds, min_order=1, max_order=3):
    @st.composite
    def g(draw, tier):
        c = draw(kt(tier, min_order=min_order, max_order=max_order))
        c["okind"] = draw(st.sampled_from(list(kinds)))
        if c["okind"] == "scalar":
            c["other"] = draw(st.sampled_from([0, 2, -1.5]))
        elif c["okind"] != "same-object":
            c["other"] = R.d_other(draw, c["okind"], c["shape"], c["vkind"])
        return c

    return g


def _reg_kbinary(name, f, kinds, quick=40, min_order=1):
    @op("ktensor/" + name, g_kother(kinds, min_order=min_order), quick=quick)
    def _(ctx, c, f=f):
        X = K(c)
        k_labels(ctx, c)
        Y = CT.with_other(ctx, c, X)
        return {"self": X, "other": Y}, lambda: f(X, Y)


_reg_kbinary("innerprod", lambda X, Y: X.innerprod(Y), ["tensor", "sptensor", "ktensor", "ttensor", "same-object"])
_reg_kbinary("isequal", lambda X, Y: X.isequal(Y), ["ktensor", "same-object", "tensor"])
_reg_kbinary("add", lambda X, Y: X + Y, ["ktensor", "same-object", "sumtensor"], quick=60)
_reg_kbinary("sub", lambda X, Y: X - Y, ["ktensor", "same-object"])
_reg_kbinary("mul", lambda X, Y: X * Y, ["scalar", "tensor", "sptensor"], quick=60, min_order=2)
_reg_kbinary("rmul", lambda X, Y: Y * X, ["scalar"])


@st.composite
def g_kmask(draw, tier):
    c = draw(kt(tier, max_order=3))
    c["wkind_"] = draw(st.sampled_from(["tensor", "sptensor"]))
    n = ref.prod(c["shape"])
    c["w"] = draw(st.lists(st.sampled_from([0.0, 1.0]), min_size=n, max_size=n))
    return c


@op("ktensor/mask", g_kmask)
def _(ctx, c):
    X = K(c)
    A = gen.arr_F(c["shape"], c["w"])
    W = ttb.tensor(A.copy(order="F"), tuple(c["shape"])) if c["wkind_"] == "tensor" else \
        gen.build_sptensor(gen.sparse_case_from_dense(A))
    ctx.label("W-" + c["wkind_"])
    return {"self": X, "W": W}, lambda: X.mask(W)


@st.composite
def g_kmttkrp(draw, tier):
    c = draw(kt(tier, min_order=2))
    r = draw(st.integers(1, 3))
    c["r"] = r
    c["n"] = draw(st.integers(0, len(c["shape"]) - 1))
    c["ukind"] = draw(st.sampled_from(["list", "ktensor", "ktensor-weights", "same-object"]))
    c["U"] = R.d_mats(draw, c["shape"], [r] * len(c["shape"]), c["vkind"])
    c["w"] = R.d_vals(draw, r, c["vkind"])
    return c


@op("ktensor/mttkrp", g_kmttkrp)
def _(ctx, c):
    X = K(c)
    U = X if c["ukind"] == "same-object" else CT.build_U(c)
    ctx.label("U-" + c["ukind"])
    return {"self": X, "U": U}, lambda: X.mttkrp(U, c["n"])


@st.composite
def g_knvecs(draw, tier):
    c = draw(kt(tier, min_order=2))
    n = draw(st.integers(0, len(c["shape"]) - 1))
    c["n"] = n
    c["r"] = draw(st.integers(1, c["shape"][n]))
    c["flipsign"] = draw(st.booleans())
    c["np_seed"] = draw(R.SEED)
    return c


@op("ktensor/nvecs", g_knvecs, quick=30)
def _(ctx, c):
    X = K(c)
    return {"self": X}, lambda: X.nvecs(c["n"], c["r"], flipsign=c["flipsign"])


@st.composite
def g_kpermute(draw, tier):
    c = draw(kt(tier))
    n = len(c["shape"])
    c["perm"] = list(range(n)) if draw(st.integers(0, 2)) == 0 else list(draw(st.permutations(range(n))))
    c["form"] = draw(st.sampled_from(["array", "array", "list", "tuple"]))
    return c


@op("ktensor/permute", g_kpermute, quick=60)
def _(ctx, c):
    X = K(c)
    CT.perm_labels(ctx, c)
    o = R.as_form(c["perm"], c["form"])
    return {"self": X, "order": o}, lambda: X.permute(o)


@st.composite
def g_score(draw, tier):
    c = draw(kt(tier, max_order=3))
    rb = draw(st.integers(1, c["rank"]))
    c["other"] = R.d_kt_like(draw, c["shape"], c["vkind"], rank=rb)
    c["same"] = draw(st.integers(0, 3)) == 0
    c["weight_penalty"] = draw(st.booleans())
    c["threshold"] = draw(st.sampled_from([None, 0.5]))
    return c


@op("ktensor/score", g_score)
def _(ctx, c):
    X = K(c)
    Y = X if c["same"] else K(c["other"])
    ctx.label("other-same-object" if c["same"] else "other-ktensor")
    return {"self": X, "other": Y}, lambda: X.score(Y, weight_penalty=c["weight_penalty"], threshold=c["threshold"])


@st.composite
def g_kto_tenmat(draw, tier):
    c = draw(kt(tier, min_order=2, max_order=3))
    c["p"] = draw(CT.g_partition(len(c["shape"])))
    return c


@op("ktensor/to_tenmat", g_kto_tenmat)
def _(ctx, c):
    X = K(c)
    ops = {"self": X}
    kw = CT.partition_args(c["p"], ops)
    return ops, lambda: X.to_tenmat(**kw)


@st.composite
def g_kttv(draw, tier):
    # size-1 modes make ktensor.ttv reject its own multiplicand (squeeze() of a length-1 vector): not C05's subject
    c = draw(kt(tier, min_size=2 if draw(st.integers(0, 5)) else 1))
    n = len(c["shape"])
    c["single"] = draw(st.booleans())
    if c["single"]:
        c["d"] = dict(how="dims", dims=[draw(st.integers(0, n - 1))], form=draw(st.sampled_from(["int", "array"])))
    else:
        c["d"] = R.d_dims(draw, n, allow_none=True)
    c["full"] = draw(st.booleans())
    c["vecs"] = R.d_vecs(draw, c["shape"], c["vkind"])
    return c


R.pred("ttv_leaves_a_mode")(lambda c: len(R.dims_used(c["d"], len(c["shape"]))) < len(c["shape"]))


@op("ktensor/ttv", g_kttv, quick=80, thorough=2000)
def _(ctx, c):
    X = K(c)
    ops, V, kw = CT.ttv_args(ctx, c, c["shape"])
    ops["self"] = X
    return ops, lambda: X.ttv(V, **kw)


# ---- documented in-place operations --------------------------------------


@st.composite
def g_arrange(draw, tier):
    c = draw(kt(tier))
    how = draw(st.sampled_from(["plain", "weight_factor", "perm-array", "perm-list"]))
    c["how"] = how
    if how == "weight_factor":
        c["wf"] = draw(st.integers(0, len(c["shape"]) - 1))
    elif how.startswith("perm"):
        c["perm"] = list(draw(st.permutations(range(c["rank"]))))
    return c


@op("ktensor/arrange", g_arrange, inplace="self")
def _(ctx, c):
    X = K(c)
    ctx.label("arrange-" + c["how"])
    if c["how"] == "plain":
        return {"self": X}, lambda: X.arrange()
    if c["how"] == "weight_factor":
        return {"self": X}, lambda: X.arrange(weight_factor=c["wf"])
    p = np.array(c["perm"], dtype=int) if c["how"] == "perm-array" else [int(v) for v in c["perm"]]
    return {"self": X, "permutation": p}, lambda: X.arrange(permutation=p)


@st.composite
def g_normalize(draw, tier):
    c = draw(kt(tier))
    n = len(c["shape"])
    c["wf"] = draw(st.sampled_from([None, "all"] + list(range(n))))
    c["sort"] = draw(st.booleans())
    c["normtype"] = draw(st.sampled_from([1, 2, np.inf if False else 2]))
    c["mode"] = draw(st.one_of(st.none(), st.integers(0, n - 1)))
    return c


@op("ktensor/normalize", g_normalize, inplace="self")
def _(ctx, c):
    X = K(c)
    return {"self": X}, lambda: X.normalize(weight_factor=c["wf"], sort=c["sort"], normtype=c["normtype"], mode=c["mode"])


@st.composite
def g_fixsigns(draw, tier):
    c = draw(kt(tier, min_order=1))
    c["with_other"] = draw(st.booleans())
    if c["with_other"]:
        c["other"] = R.d_kt_like(draw, c["shape"], c["vkind"], rank=c["rank"])
    return c


R.pred("fixsigns_with_other")(lambda c: bool(c.get("with_other")))


@op("ktensor/fixsigns", g_fixsigns, quick=60, inplace="self")
def _(ctx, c):
    X = K(c)
    if not c["with_other"]:
        ctx.label("no-other")
        return {"self": X}, lambda: X.fixsigns()
    Y = K(c["other"])
    ctx.label("with-other")
    return {"self": X, "other": Y}, lambda: X.fixsigns(Y)


@st.composite
def g_redistribute(draw, tier):
    c = draw(kt(tier))
    c["mode"] = draw(st.integers(0, len(c["shape"]) - 1))
    return c


@op("ktensor/redistribute", g_redistribute, inplace="self")
def _(ctx, c):
    X = K(c)
    return {"self": X}, lambda: X.redistribute(c["mode"])


@st.composite
def g_update(draw, tier):
    c = draw(kt(tier))
    n = len(c["shape"])
    modes = sorted(draw(gen.mode_subset(n + 1, 1, n + 1)))
    modes = [m - 1 for m in modes]  # -1 = weights
    c["modes"] = modes
    ln = sum(c["rank"] if m == -1 else c["shape"][m] * c["rank"] for m in modes)
    c["data"] = R.d_vals(draw, ln, c["vkind"])
    c["form"] = draw(st.sampled_from(["array", "list"] + (["int"] if len(modes) == 1 else [])))
    return c


@op("ktensor/update", g_update, quick=60, inplace="self")
def _(ctx, c):
    X = K(c)
    data = R.CS.aux(c, np.array(c["data"], dtype=float))
    modes = R.as_form(c["modes"], c["form"])
    ctx.label("single-mode" if len(c["modes"]) == 1 else "many-modes", "with-weights" if -1 in c["modes"] else "no-weights")
    return {"self": X, "modes": modes, "data": data}, lambda: X.update(modes, data)


@st.composite
def g_viz(draw, tier):
    c = draw(kt(tier, min_order=2, max_order=3, weights="positive"))
    if c["rank"] < 2:
        # plt.subplots returns a 1-D axes array for a single row; the method indexes axs[j, k]
        c = draw(gen.ktensor_case(tier, shape=c["shape"], weights="positive", max_rank=3).filter(lambda k: k["rank"] >= 2))
        c["wkind"] = "positive"
    c["normalize"] = draw(st.booleans())
    c["rel_weights"] = draw(st.booleans())
    return c


R.pred("viz_changes_model")(lambda c: bool(c.get("normalize")) or bool(c.get("rel_weights")))


@op("ktensor/viz", g_viz, quick=6, thorough=60, shards=(1, 2))
def _(ctx, c):
    import matplotlib

    matplotlib.use("Agg")
    import matplotlib.pyplot as plt

    X = K(c)
    ctx.label("normalize" if c["normalize"] else "no-normalize", "rel-weights" if c["rel_weights"] else "abs-weights")

    def call():
        try:
            fig, _ = X.viz(show_figure=False, normalize=c["normalize"], rel_weights=c["rel_weights"])
            plt.close(fig)
        finally:
            plt.close("all")
        return None

    return {"self": X}, call


# ==========================================================================
# ttensor
# ==========================================================================


def ttc(tier, **kw):
    kw.setdefault("min_order", 1)
    return gen.ttensor_case(tier, **kw)


def t_labels(ctx, c):
    ctx.label("sparse-core" if c["sparse_core"] else "dense-core")


@st.composite
def g_tctor(draw, tier):
    c = draw(ttc(tier))
    c["layout"] = draw(st.sampled_from(["C", "F"]))
    c["copy_kw"] = draw(st.booleans())
    c["seq"] = draw(st.sampled_from(["list", "tuple"]))
    return c


@op("ttensor/ctor-copy", g_tctor)
def _(ctx, c):
    T0 = TT(c)
    core = T0.core
    fm = [np.array(f, dtype=float).reshape(s, k) for f, s, k in zip(c["factors"], c["shape"], c["cshape"])]
    if c["layout"] == "F":
        fm = [np.asfortranarray(f) for f in fm]
    # (round 4, class 11) the caller's factor matrices in the presentation the case asks for: scipy COO matrices,
    # strided / read-only / single-precision arrays ... - the constructor copies, whatever it is handed
    fm = [R.CS.present(f, p) for f, p in zip(fm, c.get("_fp") or [None] * len(fm))]
    ctx.label(*sorted({"factor-presented-" + R.CS.present_label(f) for f in fm}))
    if c["seq"] == "tuple":
        fm = tuple(fm)
    t_labels(ctx, c)
    kw = {"copy": True} if c["copy_kw"] else {}
    return {"core": core, "factors": fm}, lambda: ttb.ttensor(core, fm, **kw)


_TUNARY = {
    "copy": lambda X: X.copy(),
    "deepcopy": lambda X: R.deepcopy(X),
    "full": lambda X: X.full(),
    "to_tensor": lambda X: X.to_tensor(),
    "double": lambda X: X.double(),
    "pos": lambda X: +X,
    "neg": lambda X: -X,
    "norm": lambda X: X.norm(),
    "scalar-props": lambda X: (X.ndims, X.shape, X.order),
    "repr": lambda X: (repr(X), str(X)),
    "reconstruct-full": lambda X: X.reconstruct(),
}


def _reg_tunary(name, f):
    @op("ttensor/" + name, lambda tier: ttc(tier, min_order=2 if name in ("full", "to_tensor", "double", "norm", "reconstruct-full") else 1))
    def _(ctx, c, f=f):
        X = TT(c)
        t_labels(ctx, c)
        return {"self": X}, lambda: f(X)


for _n, _f in _TUNARY.items():
    _reg_tunary(_n, _f)


def g_tother(kinds, min_order=1):
    @st.composite
    def g(draw, tier):
        c = draw(ttc(tier, min_order=min_order))
        c["okind"] = draw(st.sampled_from(list(kinds)))
        if c["okind"] == "scalar":
            c["other"] = draw(st.sampled_from([0, 2, -1.5]))
        elif c["okind"] != "same-object":
            c["other"] = R.d_other(draw, c["okind"], c["shape"], c["vkind"])
        return c

    return g


def _reg_tbinary(name, f, kinds, min_order=1):
    @op("ttensor/" + name, g_tother(kinds, min_order=min_order))
    def _(ctx, c, f=f):
        X = TT(c)
        t_labels(ctx, c)
        Y = CT.with_other(ctx, c, X)
        return {"self": X, "other": Y}, lambda: f(X, Y)


_reg_tbinary("innerprod", lambda X, Y: X.innerprod(Y), ["tensor", "sptensor", "ktensor", "ttensor", "same-object"], min_order=2)
_reg_tbinary("isequal", lambda X, Y: X.isequal(Y), ["ttensor", "same-object", "tensor"])
_reg_tbinary("mul", lambda X, Y: X * Y, ["scalar"])
_reg_tbinary("rmul", lambda X, Y: Y * X, ["scalar"])


@st.composite
def g_tttv(draw, tier):
    c = draw(ttc(tier, min_order=2))
    n = len(c["shape"])
    c["single"] = draw(st.booleans())
    if c["single"]:
        c["d"] = dict(how="dims", dims=[draw(st.integers(0, n - 1))], form=draw(st.sampled_from(["int", "array"])))
    else:
        c["d"] = R.d_dims(draw, n, allow_none=True)
    c["full"] = draw(st.booleans())
    c["vecs"] = R.d_vecs(draw, c["shape"], c["vkind"])
    return c


@op("ttensor/ttv", g_tttv, quick=60)
def _(ctx, c):
    X = TT(c)
    t_labels(ctx, c)
    ops, V, kw = CT.ttv_args(ctx, c, c["shape"])
    ops["self"] = X
    return ops, lambda: X.ttv(V, **kw)


@st.composite
def g_tmttkrp(draw, tier):
    c = draw(ttc(tier, min_order=2))
    r = draw(st.integers(1, 3))
    c["r"] = r
    c["n"] = draw(st.integers(0, len(c["shape"]) - 1))
    c["ukind"] = draw(st.sampled_from(["list", "ktensor", "ktensor-weights"]))
    c["U"] = R.d_mats(draw, c["shape"], [r] * len(c["shape"]), c["vkind"])
    c["w"] = R.d_vals(draw, r, c["vkind"])
    return c


@op("ttensor/mttkrp", g_tmttkrp)
def _(ctx, c):
    X = TT(c)
    t_labels(ctx, c)
    U = CT.build_U(c)
    ctx.label("U-" + c["ukind"])
    return {"self": X, "U": U}, lambda: X.mttkrp(U, c["n"])


@st.composite
def g_tpermute(draw, tier):
    c = draw(ttc(tier))
    n = len(c["shape"])
    c["perm"] = list(range(n)) if draw(st.integers(0, 2)) == 0 else list(draw(st.permutations(range(n))))
    c["form"] = draw(st.sampled_from(["array", "array", "list", "tuple"]))
    return c


@op("ttensor/permute", g_tpermute, quick=60)
def _(ctx, c):
    X = TT(c)
    t_labels(ctx, c)
    CT.perm_labels(ctx, c)
    o = R.as_form(c["perm"], c["form"])
    return {"self": X, "order": o}, lambda: X.permute(o)


@st.composite
def g_tttm(draw, tier):
    c = draw(ttc(tier))
    from ._c05_sptensor import _ttm_params

    c.update(draw(_ttm_params(c["shape"], c["vkind"])))
    return c


@op("ttensor/ttm", g_tttm, quick=60)
def _(ctx, c):
    X = TT(c)
    t_labels(ctx, c)
    ops, M, kw = CT.ttm_args(ctx, c, c["shape"])
    ops["self"] = X
    return ops, lambda: X.ttm(M, **kw)


@st.composite
def g_reconstruct(draw, tier):
    c = draw(ttc(tier, min_order=2))
    n = len(c["shape"])
    modes = sorted(draw(gen.mode_subset(n, 1, n)))
    c["modes"] = modes
    c["modes_form"] = draw(st.sampled_from(["array", "list", "none"])) if len(modes) == n else draw(st.sampled_from(["array", "list"]))
    samples = []
    for m in modes:
        s = c["shape"][m]
        kind = draw(st.sampled_from(["index-array", "matrix", "all-rows"]))
        if kind == "index-array":
            k = draw(st.integers(1, 3))
            samples.append(dict(kind=kind, v=draw(st.lists(st.integers(0, s - 1), min_size=k, max_size=k))))
        elif kind == "all-rows":
            samples.append(dict(kind=kind, v=list(range(s))))
        else:
            k = draw(st.integers(1, 2))
            samples.append(dict(kind=kind, v=R.d_mats(draw, [k], [s], c["vkind"])[0], k=k))
    c["samples"] = samples
    return c


@op("ttensor/reconstruct", g_reconstruct)
def _(ctx, c):
    X = TT(c)
    t_labels(ctx, c)
    samples = []
    for sm, m in zip(c["samples"], c["modes"]):
        ctx.label("sample-" + sm["kind"])
        if sm["kind"] == "matrix":
            samples.append(R.mat(sm["v"], sm["k"], c["shape"][m], c))
        else:
            samples.append(np.array(sm["v"], dtype=int))
    ops = {"self": X, "samples": samples}
    if c["modes_form"] == "none":
        return ops, lambda: X.reconstruct(samples)
    modes = R.as_form(c["modes"], c["modes_form"])
    ops["modes"] = modes
    return ops, lambda: X.reconstruct(samples, modes)


@st.composite
def g_tnvecs(draw, tier):
    c = draw(ttc(tier, min_order=2))
    n = draw(st.integers(0, len(c["shape"]) - 1))
    c["n"] = n
    c["r"] = draw(st.integers(1, c["shape"][n]))
    c["flipsign"] = draw(st.booleans())
    c["np_seed"] = draw(R.SEED)
    return c


@op("ttensor/nvecs", g_tnvecs, quick=30)
def _(ctx, c):
    X = TT(c)
    t_labels(ctx, c)
    return {"self": X}, lambda: X.nvecs(c["n"], c["r"], flipsign=c["flipsign"])


# ==========================================================================
# sumtensor
# ==========================================================================


def s_labels(ctx, c):
    ctx.label(f"parts{len(c['parts'])}", *sorted({"part-" + p["kind"] for p in c["parts"]}))


@st.composite
def g_sctor(draw, tier):
    c = draw(R.sum_case(tier))
    c["seq"] = draw(st.sampled_from(["list", "list", "tuple"]))
    c["copy_kw"] = draw(st.booleans())
    return c


@op("sumtensor/ctor-copy", g_sctor)
def _(ctx, c):
    parts = [R.other_of(p["kind"], p["c"]) for p in c["parts"]]
    if c["seq"] == "tuple":
        parts = tuple(parts)
    s_labels(ctx, c)
    ctx.label("parts-in-" + c["seq"])
    kw = {"copy": True} if c["copy_kw"] else {}
    return {"tensors": parts}, lambda: ttb.sumtensor(parts, **kw)


_SUNARY = {
    "copy": lambda X: X.copy(),
    "deepcopy": lambda X: R.deepcopy(X),
    "pos": lambda X: +X,
    "neg": lambda X: -X,
    "full": lambda X: X.full(),
    "to_tensor": lambda X: X.to_tensor(),
    "double": lambda X: X.double(),
    "norm": lambda X: X.norm(),
    "scalar-props": lambda X: (X.ndims, X.shape, X.order),
    "repr": lambda X: (repr(X), str(X)),
}


def _reg_sunary(name, f):
    @op("sumtensor/" + name, lambda tier: R.sum_case(tier, min_order=2 if name in ("full", "to_tensor", "double") else 1))
    def _(ctx, c, f=f):
        X = SUM(c)
        s_labels(ctx, c)
        return {"self": X}, lambda: f(X)


for _n, _f in _SUNARY.items():
    _reg_sunary(_n, _f)


@st.composite
def g_sadd(draw, tier):
    c = draw(R.sum_case(tier))
    c["okind"] = draw(st.sampled_from(["tensor", "sptensor", "ktensor", "ttensor", "list"]))
    if c["okind"] == "list":
        c["other"] = R.d_sum_like(draw, c["shape"], "int", 1, 2)
    else:
        c["other"] = R.d_other(draw, c["okind"], c["shape"], "int")
    c["right"] = draw(st.booleans())
    return c


@op("sumtensor/add", g_sadd, quick=80, thorough=2000)
def _(ctx, c):
    X = SUM(c)
    s_labels(ctx, c)
    if c["okind"] == "list":
        Y = [R.other_of(p["kind"], p["c"]) for p in c["other"]["parts"]]
    else:
        Y = R.other_of(c["okind"], c["other"])
    ctx.label("other-" + c["okind"], "radd" if c["right"] else "add")
    if c["right"]:
        return {"self": X, "other": Y}, lambda: Y + X
    return {"self": X, "other": Y}, lambda: X + Y


@st.composite
def g_sinner(draw, tier):
    c = draw(R.sum_case(tier, min_order=2))
    c["okind"] = draw(st.sampled_from(["tensor", "sptensor", "ktensor", "ttensor"]))
    c["other"] = R.d_other(draw, c["okind"], c["shape"], "int")
    return c


@op("sumtensor/innerprod", g_sinner)
def _(ctx, c):
    X = SUM(c)
    s_labels(ctx, c)
    Y = R.other_of(c["okind"], c["other"])
    ctx.label("other-" + c["okind"])
    return {"self": X, "other": Y}, lambda: X.innerprod(Y)


@st.composite
def g_smttkrp(draw, tier):
    c = draw(R.sum_case(tier, min_order=2))
    r = draw(st.integers(1, 3))
    c["r"] = r
    c["n"] = draw(st.integers(0, len(c["shape"]) - 1))
    c["ukind"] = draw(st.sampled_from(["list", "ktensor", "ktensor-weights"]))
    c["U"] = R.d_mats(draw, c["shape"], [r] * len(c["shape"]), "int")
    c["w"] = R.d_vals(draw, r, "int")
    return c


@op("sumtensor/mttkrp", g_smttkrp)
def _(ctx, c):
    X = SUM(c)
    s_labels(ctx, c)
    U = CT.build_U(c)
    ctx.label("U-" + c["ukind"])
    return {"self": X, "U": U}, lambda: X.mttkrp(U, c["n"])


@st.composite
def g_sttv(draw, tier):
    c = draw(R.sum_case(tier, min_order=2, min_size=2 if draw(st.integers(0, 5)) else 1))
    n = len(c["shape"])
    c["single"] = draw(st.booleans())
    if c["single"]:
        c["d"] = dict(how="dims", dims=[draw(st.integers(0, n - 1))], form=draw(st.sampled_from(["int", "array"])))
    else:
        c["d"] = R.d_dims(draw, n, allow_none=True)
    c["full"] = draw(st.booleans())
    c["vecs"] = R.d_vecs(draw, c["shape"], "int")
    return c


R.pred("sum_has_ktensor_part_and_ttv_leaves_a_mode")(
    lambda c: any(p["kind"] == "ktensor" for p in c["parts"]) and len(R.dims_used(c["d"], len(c["shape"]))) < len(c["shape"])
)


@op("sumtensor/ttv", g_sttv, quick=80, thorough=2000)
def _(ctx, c):
    X = SUM(c)
    s_labels(ctx, c)
    ops, V, kw = CT.ttv_args(ctx, c, c["shape"])
    ops["self"] = X
    return ops, lambda: X.ttv(V, **kw)
