"""Helpers for C05 (no operand mutation, no aliasing).

Everything here works on *storage*: which ndarrays are reachable from an object,
their exact bytes, and whether two objects share memory.  Nothing in here calls a
pyttb method; only the public attributes that define each class's state are read.
"""

from __future__ import annotations

from typing import Any, Callable, Dict, List, Optional, Tuple

import numpy as np
import scipy.sparse as sp

import pyttb as ttb

# --------------------------------------------------------------------------
# reachability
# --------------------------------------------------------------------------

_ATTRS = {
    ttb.tensor: ("data",),
    ttb.sptensor: ("subs", "vals"),
    ttb.ktensor: ("weights", "factor_matrices"),
    ttb.ttensor: ("core", "factor_matrices"),
    ttb.sumtensor: ("parts",),
    ttb.tenmat: ("data", "rindices", "cindices"),
    ttb.sptenmat: ("subs", "vals", "rdims", "cdims"),
}
_SHAPE_ATTR = {
    ttb.tensor: "shape",
    ttb.sptensor: "shape",
    ttb.tenmat: "tshape",
    ttb.sptenmat: "tshape",
}
_SPARSE_ATTRS = ("data", "indices", "indptr", "row", "col", "offsets")


def reach(obj: Any, path: str = "", out: Optional[list] = None, meta: Optional[list] = None, _depth: int = 0):
    """(arrays, meta): arrays = [(path, ndarray)], meta = [(path, value)] for the non-array state
    (class names, list lengths, shape tuples, Python scalars)."""
    if out is None:
        out = []
    if meta is None:
        meta = []
    if _depth > 8:
        return out, meta
    if isinstance(obj, np.ndarray):
        out.append((path, obj))
        return out, meta
    for cls, attrs in _ATTRS.items():
        if type(obj) is cls:
            meta.append((path + "#type", cls.__name__))
            sa = _SHAPE_ATTR.get(cls)
            if sa is not None:
                try:
                    meta.append((path + "." + sa, tuple(int(v) for v in getattr(obj, sa))))
                except Exception:  # noqa: BLE001
                    meta.append((path + "." + sa, repr(getattr(obj, sa, None))))
            for a in attrs:
                reach(getattr(obj, a, None), f"{path}.{a}", out, meta, _depth + 1)
            return out, meta
    if sp.issparse(obj):
        meta.append((path + "#type", type(obj).__name__))
        meta.append((path + ".shape", tuple(int(v) for v in obj.shape)))
        seen = set()
        for a in _SPARSE_ATTRS:
            v = getattr(obj, a, None)
            if isinstance(v, np.ndarray) and id(v) not in seen:
                seen.add(id(v))
                out.append((f"{path}.{a}", v))
        return out, meta
    if isinstance(obj, (list, tuple)):
        meta.append((path + "#len", (type(obj).__name__, len(obj))))
        for i, v in enumerate(obj):
            reach(v, f"{path}[{i}]", out, meta, _depth + 1)
        return out, meta
    if isinstance(obj, dict):
        meta.append((path + "#keys", tuple(sorted(str(k) for k in obj))))
        for k in sorted(obj, key=str):
            reach(obj[k], f"{path}[{k!r}]", out, meta, _depth + 1)
        return out, meta
    if isinstance(obj, (bool, int, float, complex, str, np.generic)) or obj is None:
        if isinstance(obj, (float, np.floating)):
            meta.append((path, ("f", np.float64(obj).tobytes())))
        else:
            meta.append((path, (type(obj).__name__, repr(obj))))
        return out, meta
    # anything else (figures, enums, callables, slices ...): identity only
    meta.append((path + "#obj", type(obj).__name__))
    return out, meta


def arrays_of(obj: Any) -> List[Tuple[str, np.ndarray]]:
    return reach(obj)[0]


# --------------------------------------------------------------------------
# bit-exact snapshots
# --------------------------------------------------------------------------


def snap(obj: Any) -> Tuple[list, list]:
    """Bit-exact snapshot: for every reachable array (path, dtype, shape, bytes); plus the meta list."""
    arrs, meta = reach(obj)
    return [(p, str(a.dtype), tuple(a.shape), _bytes(a)) for p, a in arrs], list(meta)


def _bytes(a: np.ndarray) -> bytes:
    """the exact content of an array; an object array (what mttkrp returns for scipy.sparse factors) holds pointers, so
    its content is taken from the representation of its entries"""
    if a.dtype.kind == "O":
        return repr([repr(x) for x in a.ravel().tolist()]).encode()
    return a.tobytes()


def snap_values(obj: Any, drop_paths=()) -> Tuple[list, list]:
    """snapshot for comparing the *values* of two results: wall-clock measurements (any path mentioning 'time') are
    not values, and arrays listed in ``drop_paths`` are left out"""
    arrs, meta = snap(obj)
    keep = lambda p: "time" not in p.lower() and p not in drop_paths  # noqa: E731
    return [x for x in arrs if keep(x[0])], [m for m in meta if keep(m[0])]


def snap_diff(a, b) -> Optional[str]:
    """None if the two snapshots are identical, else a short description of the first difference."""
    aa, am = a
    ba, bm = b
    if [x[0] for x in aa] != [x[0] for x in ba]:
        return f"array paths differ: {[x[0] for x in aa]} vs {[x[0] for x in ba]}"
    for (p, dt, sh, by), (_, dt2, sh2, by2) in zip(aa, ba):
        if dt != dt2:
            return f"{p or '<array>'}: dtype {dt} -> {dt2}"
        if sh != sh2:
            return f"{p or '<array>'}: shape {sh} -> {sh2}"
        if by != by2:
            if dt == "object":
                return f"{p or '<array>'}: entries of an object array changed"
            x = np.frombuffer(by, dtype=np.dtype(dt))
            y = np.frombuffer(by2, dtype=np.dtype(dt))
            neq = np.flatnonzero((x.view(np.uint8).reshape(x.size, -1) != y.view(np.uint8).reshape(y.size, -1)).any(axis=1))
            k = int(neq[0]) if neq.size else 0
            return f"{p or '<array>'}: {neq.size} of {x.size} entries changed; first (C order) #{k}: {x[k]!r} -> {y[k]!r}"
    if am != bm:
        for u, v in zip(am, bm):
            if u != v:
                return f"state {u[0]}: {u[1]!r} -> {v[1]!r}"
        return f"state lists differ in length: {len(am)} vs {len(bm)}"
    return None


# --------------------------------------------------------------------------
# writes
# --------------------------------------------------------------------------

SENTINEL = 8.125e77


def trash(arr: np.ndarray) -> bool:
    """Overwrite every entry of ``arr`` in place with a value different from the current one."""
    if arr.size == 0 or not arr.flags.writeable:
        return False
    k = arr.dtype.kind
    if k == "b":
        np.logical_not(arr, out=arr)
    elif k in "iu":
        np.bitwise_xor(arr, arr.dtype.type(0x2A), out=arr)
    elif k == "f":
        hit = arr == arr.dtype.type(SENTINEL)
        arr[...] = SENTINEL
        if hit.any():
            arr[hit] = -SENTINEL
    elif k == "c":
        arr[...] = complex(SENTINEL, -SENTINEL)
    else:
        return False
    return True


def trash_all(obj: Any) -> int:
    n = 0
    seen = []
    for _, a in arrays_of(obj):
        if any(a is s for s in seen):
            continue
        seen.append(a)
        n += bool(trash(a))
    return n


def shared_pairs(result: Any, operand: Any) -> List[Tuple[str, str]]:
    out = []
    ra = [(p, a) for p, a in arrays_of(result) if a.size]
    oa = [(p, a) for p, a in arrays_of(operand) if a.size]
    for rp, r in ra:
        for op_, o in oa:
            try:
                if np.may_share_memory(r, o) and np.shares_memory(r, o):
                    out.append((rp or "<array>", op_ or "<array>"))
            except Exception:  # noqa: BLE001  (too hard to decide exactly -> bounds overlap counts)
                out.append((rp or "<array>", op_ or "<array>"))
    return out


# --------------------------------------------------------------------------
# documented in-place operations (round 3: histories that fork)
# --------------------------------------------------------------------------

def _new_value(cur):
    """a value different from ``cur`` of the same kind (bool stays bool, integers stay integers)"""
    if isinstance(cur, (bool, np.bool_)):
        return not bool(cur)
    try:
        c = float(cur)
    except Exception:  # noqa: BLE001
        c = 0.0
    if not np.isfinite(c) or abs(c) > 1e6:
        return 3.0
    return (int(c) + 7) if float(c).is_integer() else c + 7.25


def poke(obj) -> Optional[str]:
    """Change ``obj`` through an operation *documented* as in-place (an item assignment; for a Kruskal tensor a
    re-parameterisation) - never by touching an attribute.  Returns a label of what was done, or None if the object
    has no such operation, is empty, or the operation left its state as it was / raised."""
    before = snap(obj)
    tried = []
    try:
        if type(obj) is ttb.tensor and obj.data.size:
            sub, first = tuple(int(n) - 1 for n in obj.shape), tuple(0 for _ in obj.shape)

            def both():
                # the last and the first entry (a result that is a view of part of the data holds at least one of them
                # whenever it holds a corner)
                obj.__setitem__(sub, _new_value(obj.data[sub]))
                if first != sub:
                    obj.__setitem__(first, _new_value(obj.data[first]))

            tried.append(("setitem", both))
        elif type(obj) is ttb.sptensor and len(obj.shape) and all(int(n) >= 1 for n in obj.shape):
            sub = tuple(int(n) - 1 for n in obj.shape)
            cur = obj[sub] if obj.subs.size else 0.0
            tried.append(("setitem", lambda: obj.__setitem__(sub, float(_new_value(cur)) or 5.0)))
        elif type(obj) is ttb.ktensor and obj.weights.size and all(f.size for f in obj.factor_matrices):
            tried.append(("normalize", lambda: obj.normalize()))
            tried.append(("redistribute", lambda: obj.redistribute(0)))
            tried.append(("arrange", lambda: obj.arrange(permutation=np.arange(obj.ncomponents)[::-1].copy())))
        elif type(obj) is ttb.tenmat and obj.data.size:
            key = (obj.data.shape[0] - 1, obj.data.shape[1] - 1)
            tried.append(("setitem", lambda: obj.__setitem__(key, _new_value(obj.data[key]))))
    except Exception:  # noqa: BLE001
        return None
    for name, f in tried:
        try:
            f()
        except Exception:  # noqa: BLE001
            continue
        if snap_diff(before, snap(obj)) is not None:
            return name
    return None


def _pokeable_parts(obj, path=""):
    """(path, object) for every object reachable through lists / tuples that has a documented in-place operation"""
    if isinstance(obj, (ttb.tensor, ttb.sptensor, ttb.ktensor, ttb.tenmat)):
        return [(path, obj)]
    if isinstance(obj, (list, tuple)):
        out = []
        for i, v in enumerate(obj):
            out += _pokeable_parts(v, f"{path}[{i}]")
        return out
    return []


def fork_step(ctx, what: str, operands: Dict[str, Any], result: Any, inplace: Optional[str]) -> None:
    """Class 9 of round 3: the result and the operands of an operation are all alive; one of them is then changed
    through a *documented in-place operation* (item assignment; normalize / redistribute / arrange of a Kruskal tensor),
    the others are judged again.  Run only when the storage clauses found nothing (a reported alias would only be
    reported twice); operands that are one object, or views of one another, by construction of the case are not judged
    against each other."""
    names = [n for n in operands if n != inplace]

    def independent(a, b):
        return a is not b and not shared_pairs(a, b) and not shared_pairs(b, a)

    # (a) in-place operation on an operand: the result and the other operands stay as they are
    for n in names:
        for path, o in _pokeable_parts(operands[n]):
            rs = snap(result)
            others = {m: snap(operands[m]) for m in names if m != n and independent(operands[m], operands[n])}
            lab = poke(o)
            if lab is None:
                continue
            ctx.label("fork:operand-" + lab)
            d = snap_diff(rs, snap(result))
            ctx.check(d is None, f"result-changed-by-in-place-op-on:{n}", f"{what}: {n}{path}.{lab}() then result: {d}")
            for m, sm in others.items():
                d = snap_diff(sm, snap(operands[m]))
                ctx.check(d is None, f"operand-changed-by-in-place-op-on:{n}", f"{what}: {n}{path}.{lab}() then {m}: {d}")
    # (b) in-place operation on the result: the operands stay as they are
    for path, r in _pokeable_parts(result):
        os_ = {n: snap(operands[n]) for n in names}
        lab = poke(r)
        if lab is None:
            continue
        ctx.label("fork:result-" + lab)
        for n, sn in os_.items():
            d = snap_diff(sn, snap(operands[n]))
            ctx.check(d is None, f"operand-changed-by-in-place-op-on-result:{n}", f"{what}: result{path}.{lab}() then {n}: {d}")


# --------------------------------------------------------------------------
# the generic oracle
# --------------------------------------------------------------------------


def check_op(
    ctx,
    what: str,
    operands: Dict[str, Any],
    call: Callable[[], Any],
    inplace: Optional[str] = None,
    result_of: Optional[Callable[[Any], Any]] = None,
    echo: Optional[Dict[str, Callable[[Any], Any]]] = None,
    again: bool = False,
    deterministic: bool = True,
    rejected_nt: bool = False,
):
    """operands: name -> object, everything the caller hands to the operation (receiver included under
    the name 'self').  ``inplace``: name of the operand that the operation is documented to modify (it is then
    treated as the *result*: it may change, and must end up independent of the other operands).
    ``result_of``: maps the returned value to the part that is subject to the independence clauses.
    ``again`` (round 2, state across calls): the operation is called a second time on the same operands (only when
    the first call left them bit-identical and the operation is not an in-place one).  ``rejected_nt``: the cell
    generates ill-formed requests, so a case that raises is the non-trivial one.  The second result must not
    share memory with the first, must not change when the first is overwritten, and - for ``deterministic``
    operations - must be bit-identical to the first; the remaining clauses are then applied to the second result.
    """
    names = list(operands)
    n_op_arrays = sum(1 for n in names for _, a in arrays_of(operands[n]) if a.size)
    before = {n: snap(operands[n]) for n in names}
    try:
        ret = call()
    except Exception as e:  # noqa: BLE001
        # C05 says nothing about whether a value is returned (that is C02/C03/C04/C19 territory); the
        # class of inputs is labelled so that a generator that mostly raises is visible in the evidence
        ctx.label(f"raised:{type(e).__name__}")
        ctx.nt = bool(rejected_nt and n_op_arrays)
        ctx.notes["raised"] = repr(e)[:200]
        # (round 4, class 12) a rejected request leaves every operand - the receiver of an in-place operation
        # included - bit for bit as it was
        for n in names:
            d = snap_diff(before[n], snap(operands[n]))
            ctx.check(d is None, f"operand-changed-by-rejected-call:{n}", f"{what} raised {type(e).__name__}, yet {n}: {d}")
        # (round 4, class 11) an operand presented read-only: numpy refuses the write, which shows that one was attempted
        if isinstance(e, ValueError) and "read-only" in str(e) and any(
                not a.flags.writeable for n in names if n != inplace for _, a in arrays_of(operands[n]) if a.size):
            ctx.check(False, "writes-into-read-only-operand", f"{what}: {e!r}")
        return None
    ctx.label("returned")
    # (1) operands bit-identical
    for n in names:
        if n == inplace:
            continue
        d = snap_diff(before[n], snap(operands[n]))
        ctx.check(d is None, f"operand-mutated:{n}", f"{what}: {d}")
    result = operands[inplace] if inplace is not None else ret
    if result_of is not None and inplace is None:
        result = result_of(ret)
    mutated = any(k == "mismatch" and d.startswith("operand-mutated:") for k, d, _ in ctx.violations)
    if again and inplace is None and not mutated:
        ctx.label("second-call")
        try:
            ret2 = call()
        except Exception as e:  # noqa: BLE001
            ctx.check(False, "second-call-raises", f"{what}: first call returned, second call on the same operands raised {e!r}")
            ret2 = None
        else:
            result2 = result_of(ret2) if result_of is not None else ret2
            for n in names:
                d = snap_diff(before[n], snap(operands[n]))
                ctx.check(d is None, f"operand-mutated:{n}", f"{what} (second call): {d}")
            # arrays of a result that are (views of) operand arrays are the business of the clauses 'aliased:<operand>';
            # the clauses about the pair of results look at the rest
            via_operand = {rp for n in names for rp, _ in shared_pairs(result2, operands[n])} | {
                rp for n in names for rp, _ in shared_pairs(result, operands[n])}
            via_operand = {"" if p == "<array>" else p for p in via_operand}
            s1, s2 = snap_values(result, via_operand), snap_values(result2, via_operand)
            if deterministic:
                d = snap_diff(s1, s2)
                ctx.check(d is None, "second-call-differs", f"{what}: same operands, second result differs: {d}")
            pairs = [(a, b) for a, b in shared_pairs(result2, result) if ("" if a == "<array>" else a) not in via_operand]
            ctx.check(not pairs, "second-result-aliases-first",
                      f"{what}: second result{pairs[0][0]} shares memory with first result{pairs[0][1]}" if pairs else "")
            os1 = {n: snap(operands[n]) for n in names}
            if trash_all(result):
                d = snap_diff(s2, snap_values(result2, via_operand))
                ctx.check(d is None, "second-result-changed-by-write-to-first", f"{what}: {d}")
                for n in names:
                    d = snap_diff(os1[n], snap(operands[n]))
                    ctx.check(d is None, f"operand-changed-by-write-to-result:{n}", f"{what} (first result): {d}")
            ret, result = ret2, result2
    res_arrays = [(p, a) for p, a in arrays_of(result) if a.size]
    # non-trivial: the call returned and there was at least one non-empty operand array to protect (clause 1); the
    # independence clauses (2a-2c) additionally need an array in the result -- labelled, so the share is visible
    ctx.nt = bool(n_op_arrays)
    ctx.label("result-has-arrays" if res_arrays else "result-no-arrays")
    if not res_arrays:
        return ret
    others = [n for n in names if n != inplace]
    # (2a) static: no shared memory
    for n in others:
        pairs = shared_pairs(result, operands[n])
        ctx.check(not pairs, f"aliased:{n}", f"{what}: result{pairs[0][0]} shares memory with {n}{pairs[0][1]}" if pairs else "")
    # (2a') histories that fork (round 3): documented in-place operations instead of raw writes
    if not ctx.violations:
        fork_step(ctx, what, operands, result, inplace)
    # (2b) behavioural: write to each operand -> result unchanged
    rs = snap(result)
    for n in others:
        if not trash_all(operands[n]):
            continue
        rs2 = snap(result)
        d = snap_diff(rs, rs2)
        ctx.check(d is None, f"result-changed-by-write-to:{n}", f"{what}: {d}")
        rs = rs2
    # (2c) behavioural: write to the result -> operands unchanged
    os_ = {n: snap(operands[n]) for n in others}
    if trash_all(result):
        for n in others:
            d = snap_diff(os_[n], snap(operands[n]))
            ctx.check(d is None, f"operand-changed-by-write-to-result:{n}", f"{what}: {d}")
    return ret
