"""C04 — entry reads and writes behave like an F-ordered mutable array over any history.

Three objects are driven in lockstep by one generated history: a dense ``pyttb.tensor`` T, a sparse
``pyttb.sptensor`` S (built from subscripts in a generated stored order) and a NumPy model A with its own growth
code (``_c04_model``).  After every assignment: ``shape(T) == shape(S) == shape(A)``, ``den(T) == A``,
``den(S) == A`` (exact), S well-formed (integer in-range distinct subscripts, no stored zero).  Every read is
compared with A under rectangular (``np.ix_``) semantics.

Only documented key / right-hand-side forms are used (docstrings of tensor.__getitem__/__setitem__ and
sptensor.__getitem__/__setitem__):

============================  =========================================  =====================================
form                          tensor                                     sptensor
============================  =========================================  =====================================
full subscript ``X[i,j,k]``   read, write scalar                         read, write scalar
region (ints/slices/lists)    read; write scalar | ndarray | tensor      read; write scalar | sptensor
p x n subscript array         read; write scalar | vector of p           read; write scalar | p x 1 column
linear int/list/array/slice   read; write scalar | vector (no growth)    read only ("assignment using linear
                                                                         subscripting is not supported")
============================  =========================================  =====================================

A linear assignment of the history reaches S as the equivalent subscript-array assignment (the one place where
the two sequences differ in form).
"""

from __future__ import annotations

import copy
import itertools
from typing import Any, Dict, List, Optional, Sequence

import numpy as np
from hypothesis import strategies as st

import pyttb as ttb

from .. import gen, ref
from ..core import Abort, cell
from . import _c04_model as M

PROPERTY = "C04"
RULE = (
    "history cells: a start tensor (any order 1..4/5, zero pattern none/one/some/all, sparse storage in "
    "sorted/reverse/random order; one start in twelve is the empty order-0 tensor, whose first write creates all modes) and a list of concrete read/write operations generated while tracking the model "
    "shape so that every operation is valid for the state it meets; after every write shape/den/well-formedness of "
    "T and S are compared with the NumPy model, every read with np.ix_ semantics.  Single-operation cells: one "
    "read or one write per (class, key form) from a generated start state; enumerated cell: every region key over a "
    "per-mode alphabet of ints (incl. negative), slices (with/without bounds, stepped, reversed, negative bounds) and "
    "index lists on fixed small shapes, reads also over starts holding one / no stored nonzero.  Non-trivial: history = contains a write after a growth, or a write whose values mix zero and "
    "non-zero, or a write to an entry that S stores out of F order; single write = changes the model or grows it; "
    "single read = a tensor with >= 2 entries and (a full subscript or >= 2 addressed positions).  Classes in which pyttb is known to "
    "break the property (known_findings/C04.json) are recognised exactly from (operation, state) and carried as a "
    "[tag] in the clause name; in history cells with try_known=false they are excluded by construction (the "
    "affected object receives an equivalent documented form: subscript array / explicit slice bounds / one full "
    "subscript per entry / python list) and counted with labels 'excluded:<tag>'; with try_known=true the natural "
    "form is tried on a snapshot first ('exercised:<tag>') and the equivalent form is used after a failure, so "
    "the history continues behind the known defect.  Round 3: (several live objects) every object a read returns - "
    "tensor, sparse tensor or vector of values - is assigned to (first entry := 987654) before the source is judged "
    "again, in every cell; single-read and enumerated cells then assign to the source (first and last position read) "
    "and judge the kept result; every array / tensor / sparse-tensor right-hand side is changed in place after the "
    "assignment and the target judged again, and at the end of a history the kept right-hand sides must still hold "
    "what their owner left in them; the cell history/forked keeps up to three region-read results alive as tensors of "
    "their own (each with its own model, half of the kept reads through ints-and-slices-only keys) and addresses "
    "later reads and writes to the source or to any of them - after every write every other live object is judged "
    "against its own model.  (degenerate requests) writes through keys that address nothing: empty slices in every "
    "spelling, empty index lists, the 0 x n subscript array, empty linear lists / arrays / slices, with scalar, zero, "
    "empty-array and empty-tensor right-hand sides (never combined with growth) must leave shape and values alone; "
    "reads through empty subscript arrays / linear keys return empty vectors.  Only the classes of *open* findings "
    "are excluded from the clean / forked histories; repaired classes run in their natural form there too.  Round 4: "
    "(state after a rejected request) about one step in seven of every history, and the middle of every case of the cell "
    "history/rejected, is an ill-formed request - subscript array with the wrong number of values / values in the other "
    "orientation / a negative or (dense) out-of-range negative subscript / too few columns, region key with an array of "
    "the wrong shape (dense) or an index list that does not match the sparse right-hand side, ndarray / dense tensor "
    "assigned to a sparse region, negative integer below -extent, linear indices beyond the extent or with the wrong "
    "number of values, any linear assignment to a sparse tensor, an open slice for a mode that does not exist (sparse), "
    "reads with too many key entries / out-of-range rows / too many columns - generated on purpose also where the "
    "request would have grown the tensor; the call must raise, the holder must afterwards be well-formed, have the "
    "model's shape and values and the same stored subs / vals / data as before, the key and value objects handed in "
    "must be unchanged, every other live object of a forked history is judged again, and the valid steps that follow "
    "are judged against the model as if the request had not happened.  (presentation of valid arguments) in every "
    "history and single-operation cell one key in three is presented with subscript / linear-index / index arrays and "
    "numpy integer scalars in int32 / uint8 / uint16 / uint64 / intp, one array key in four and one value array in "
    "three as a read-only and / or non-contiguous view; in integer-valued histories value arrays are float32 half of "
    "the time and integer scalars numpy int64 / int32 / uint8 / float32 scalars one time in four; the oracle is the "
    "same model (the same request must give the same answer).  (process environment) one history in four runs with "
    "the root logger at DEBUG."
)
ASSUMPTIONS = [
    "data movement only: every comparison is exact (NaN-aware equality, -0.0 == 0.0)",
    "index lists hold distinct non-negative indices; subscript arrays hold distinct non-negative rows; a slice "
    "without stop is never used for a mode that does not exist yet (sptensor documents this as rejected)",
    "slice forms (round 2; the docstrings only say 'ranges' and show unit-step slices, so the accepted forms were "
    "established on the unchanged tree against NumPy): reads (region and linear, dense and sparse) accept every python "
    "slice - steps, negative steps, negative bounds, bounds beyond the extent (clipped) - with NumPy's meaning; writes "
    "of a scalar / zero (both classes) and of arrays / tensors (dense), and dense linear-slice writes, accept all of "
    "them within the present extent; a region write grows only through a positive step whose stop lies beyond the "
    "extent, and both classes then grow to `stop` (generated with stop = last addressed index + 1 so that the grown "
    "extent is unambiguous); negative bounds count from the present extent and never grow; sparse region writes of "
    "an sptensor through a non-plain slice are accepted silently but misplace the values (known finding C04-S8).  "
    "In *reads* every slice / index list of a region key addresses at least one index: an empty region is rejected by "
    "sptensor reads (ValueError from the constructor: a zero extent is not a valid sparse shape) while dense reads "
    "return an empty tensor, so the two classes cannot be compared there; in *writes* empty regions are generated "
    "(round 3) and must be no-ops as in NumPy - established on the unchanged tree: both classes do nothing for every "
    "empty slice and (dense) for empty ndarray / tensor right-hand sides; both raise for an empty index list, the "
    "0 x n subscript array and (dense) the empty python list of linear indices (known findings C04-E1..E3); a sparse "
    "region write whose right-hand side would be an array reaches S as scalar zero (no sparse tensor of zero extent "
    "exists); an empty request together with an element that grows another mode is not generated (whether 'nothing "
    "assigned beyond the extent' should grow is not fixed by the statement)",
    "objects handed out by reads and right-hand sides handed in are the caller's: on the unchanged tree no read "
    "result (tensor, sptensor, value vector) and no stored state shares memory with the source / the right-hand "
    "side, so assigning to one must never show in the other",
    "derived start states (round 2): dense starts are constructed (float64, or int64 for integer-valued data) or "
    "grown by assignment (gen.build_tensor prov='grown': C-ordered buffer, numpy.int64 shape entries); sparse starts "
    "come from the constructor (float64 or int64 values), optionally with explicitly stored zeros (the state S*0 or "
    "the unvalidated constructor leave behind) or passed through permute by the identity (numpy.int64 shape entries). "
    " An explicitly stored zero that was there at the start may stay until its position is assigned (after that, "
    "and everywhere else, a stored zero is a violation: 'assigning zero removes a sparse entry'); reads of regions "
    "holding such zeros may return them as stored zeros",
    "integer dtypes: only integer-valued data and right-hand sides meet an int64 holder (NumPy truncates a "
    "fractional value assigned into an integer array: that is dtype semantics, not an indexing matter); vector / "
    "array right-hand sides are int64 arrays one time in three, whatever the dtype of the target",
    "negative integers count from the end of the present extent and never grow the tensor; linear indices never "
    "grow the tensor (documented)",
    "a mode indexed by an index list of length one may be kept (size 1) or dropped in the result of a read; the "
    "values are compared in F order either way (the property fixes values, not this degenerate shape)",
    "sparse tensors are not assigned through linear indices (documented as unsupported): S receives the equivalent "
    "subscript array",
    "the right-hand side of a region assignment has the shape of the kept modes (integer-indexed modes dropped), "
    "as in the docstring examples of both classes",
    "integer subscripts are python ints, in about one key out of six numpy.int64; scalar right-hand sides are python "
    "float / python int / numpy.float64 (no numpy integer scalars: sptensor documents 'scalar' and tests int/float)",
    "rejected requests (round 4): only forms that the holder documents as invalid or rejects on every input on the "
    "unchanged tree are demanded to raise (established by observation; per holder, see bad_applies): e.g. a (1, p) row "
    "of values or a length-one vector for p subscripts is accepted by the dense tensor (NumPy broadcasting) and is not "
    "demanded to fail, in-range negative subscripts in a dense subscript array are accepted, a sparse tensor of the "
    "wrong extent assigned through slices is accepted, out-of-range reads of a sparse tensor return 0; where the "
    "unchanged tree raises but leaves the holder changed (dense growth before the NumPy assignment, sparse order "
    "growth before the value checks, sparse region growth before the value type is looked at) or does not raise at "
    "all although the dense tensor and the sparse subscript-array form do (negative integer below -extent in a sparse "
    "region assignment) the class carries a tag and an open known finding (C04-R1..R4)",
    "float32 value arrays only meet integer-valued histories (an empty sparse tensor adopts the dtype of the first "
    "value column; later float64 values assigned into a float32 holder are rounded by NumPy - dtype semantics as for "
    "int64 holders); tuples / ranges as index lists are not generated (sptensor reads refuse them by name)",
    "known-finding classes are decided by pure functions of (operation, model state, S.subs/S.shape before the "
    "operation) in _c04_model.dense_tags / sparse_tags; a failure in an operation that carries no tag can never be "
    "matched by a known finding",
]

# --------------------------------------------------------------------------
# executing one operation on one holder
# --------------------------------------------------------------------------

KNOWN_TAGS = (
    "lists-paired",
    "adv-split",
    "open-slice-singleton",
    "mixed-batch",
    "subs-delete",
    "order-growth-ones",
    "ndarray-list-read",
    "sprhs-order-growth",
    "sprhs-list-extent",
    "sprhs-npint",
    "single-row-list",
    "sprhs-slice-form",
    "empty-list",
    "empty-subs",
    "empty-linlist",
    "np-scalar-rhs",
    "uint64-subs",
    "unsigned-key-growth",
)

# tags of the classes whose known finding is still open: only these are excluded by construction from the clean / forked
# histories; the classes of repaired findings keep their [tag] in the clause name but run in their natural form
OPEN_TAGS = ("lists-paired", "adv-split", "empty-list", "empty-subs", "empty-linlist", "np-scalar-rhs", "uint64-subs", "unsigned-key-growth")

POKE = 987654.0  # the value written into every object a read returns, before the source is judged again


def _form(key) -> str:
    f = key["f"]
    if f == "tuple":
        return "full" if all(M.is_int(e) for e in key["k"]) else "region"
    if f == "subs":
        return "subs"
    return "linear"


def _suffix(tags: Sequence[str]) -> str:
    return "[" + "+".join(tags) + "]" if tags else ""


def _shape_of(X) -> tuple:
    return tuple(int(n) for n in X.shape)


def natural(holder: str, shape, key, rhs):
    """The operation in the form documented for the holder (S: linear assignment -> subscript array)."""
    if holder == "S" and rhs is not None and key["f"].startswith("lin"):
        return M.as_subs(shape, key, rhs)
    if holder == "S" and rhs is not None and rhs["r"] == "array" and not M.positions(shape, key):
        # an empty region: no sparse tensor of that (zero) extent exists; the documented form left is a scalar
        return key, dict(r="scalar", v=0.0, int=False)
    return key, rhs


def tags_for(holder: str, op: str, shape, key, rhs, X) -> List[str]:
    if holder == "T":
        return M.dense_tags(op, shape, key, rhs)
    return M.sparse_tags(op, shape, key, rhs, X.subs, X.shape)


def do_write(X, holder: str, shape, key, rhs, keep: Optional[list] = None) -> None:
    """One documented assignment (pyttb call; may raise).  keep: receives the right-hand-side object."""
    rs = None
    if key["f"] == "tuple" and rhs["r"] == "array":
        rs = M.kept_shape(shape, key, M.grown_shape(shape, key))
    R = M.py_rhs(rhs, holder, rs)
    if keep is not None:
        keep.append(R)
    X[M.py_key(key)] = R


def dodge_write(X, holder: str, shape, key, rhs, tags) -> None:
    """The same assignment through an equivalent documented form that avoids the known classes."""
    if not M.positions(shape, key):
        return  # nothing is addressed (never combined with growth): the equivalent form is no statement at all
    if holder == "T":
        if list(tags) == ["single-row-list"]:
            do_write(X, "T", shape, key, dict(rhs, **{"as": "ndarray"}))
        elif list(tags) == ["open-slice-singleton"]:
            do_write(X, "T", shape, M.bounded(shape, key), rhs)
        else:
            k2, r2 = M.as_subs(shape, key, rhs)
            do_write(X, "T", shape, k2, r2)
        return
    pos = M.positions(shape, key)
    vals = M.rhs_values(rhs, len(pos))
    for p, v in zip(pos, vals):
        X[tuple(int(i) for i in p)] = float(v)


def dodge_read_key(holder: str, shape, key):
    if holder == "T":
        return M.as_subs(shape, key)[0]
    if key["f"] != "tuple":
        return {k: v for k, v in key.items() if k not in ("np", "dt")}
    return dict({k: v for k, v in key.items() if k not in ("np", "dt")},
                k=[dict(l=list(e["a"])) if M.elem_kind(e) == "arr" else e for e in key["k"]])


def _wf_clause(probs) -> str:
    """'wellformed(kind,kind)' with the values stripped from the problem strings (stable clause name)."""
    kinds = sorted({"".join(ch for ch in p.split(":")[0] if not ch.isdigit()).strip("-") for p in probs})
    return "wellformed(" + ",".join(kinds) + ")"


def _stray_zeros(X, ez) -> List[str]:
    """stored zeros of S outside the positions that held an explicit zero at the start and were not assigned since"""
    vals = np.asarray(X.vals).reshape(-1)
    if X.subs.size == 0 or not (vals == 0).any():
        return []
    for r, v in zip(np.asarray(X.subs), vals):
        if v == 0 and tuple(int(i) for i in r) not in ez:
            return ["explicit-zero-stored"]
    return []


def check_write(ctx, what: str, X, holder: str, B: np.ndarray, ez=frozenset()) -> bool:
    ok = ctx.check(_shape_of(X) == B.shape, f"{what}:shape", f"{_shape_of(X)} vs model {B.shape}")
    if not ok:
        return False
    if holder == "S":
        probs = ref.sptensor_problems(X, allow_explicit_zero=bool(ez))
        if not probs and X.subs.size and np.asarray(X.subs).dtype == np.uint64:
            # uint64 + int64 has no common integer type: the next entry appended turns the subscripts into float64
            probs = ["subs-dtype-uint"]
        if not probs and any(isinstance(n, np.unsignedinteger) for n in X.shape):
            # an unsigned extent overflows / turns into float64 in the next index computation that meets a negative
            # or an int64 number (S[-1, 0], a region read): the shape is to hold integers that behave as such
            probs = ["shape-entry-unsigned"]
        if ez and not probs:
            probs = _stray_zeros(X, ez)
        if not ctx.check(not probs, f"{what}:{_wf_clause(probs)}", probs):
            return False
    D = ref.den(X)
    return ctx.check(ref.same_exact(D, B), f"{what}:values", ref.diff_info(D, B))


# --------------------------------------------------------------------------
# (round 4) rejected requests as steps of a history: the call must raise, and the object must afterwards be the one
# it was (same array, well-formed, same stored parameterisation); the operands handed in stay what they were
# --------------------------------------------------------------------------

REJECT_TAGS = ("rejected-grown", "rejected-order-growth", "rejected-region-grown", "neg-oob-region")
_T_GROW_KINDS = ("subs-count", "subs-orient", "subs-neg", "region-shape", "region-list")


def bad_applies(h: str, shape, op) -> bool:
    """is the request one that holder h documents / consistently treats as ill-formed (established on the unchanged
    tree; a form the holder accepts is not a rejected-request case)"""
    kind, rw = op["kind"], op["rw"]
    if kind in ("region-shape",):
        return h == "T"
    if kind in ("region-badvalue", "open-slice-new-mode"):
        return h == "S"
    if kind == "region-list":
        return h == "S" or not M.dense_tags("write", shape, op["key"], dict(r="array"))
    if kind == "region-neg-oob":
        return h == "T" or rw == "w"
    return True


def bad_tags(h: str, shape, op) -> List[str]:
    kind, key = op["kind"], op["key"]
    if op["rw"] != "w":
        return []
    if h == "T" and kind in _T_GROW_KINDS and list(M.grown_shape(shape, key)) != list(shape):
        return ["rejected-grown"]
    if h == "S" and kind in ("subs-count", "subs-orient") and len(key["rows"][0]) > len(shape):
        return ["rejected-order-growth"]
    if h == "S" and kind == "region-badvalue" and list(M.grown_shape(shape, key)) != list(shape):
        return ["rejected-region-grown"]
    if h == "S" and kind == "region-neg-oob":
        return ["neg-oob-region"]
    return []


def bad_request(h: str, shape, op):
    """(key object, value object | None) of the ill-formed request in the form holder h would be given it"""
    key = M.py_key(op["key"])
    if op["rw"] == "r":
        return key, None
    v = op["val"]
    if v["t"] == "scalar":
        return key, float(v["v"])
    if v["t"] == "vec":
        a = np.array(v["v"], dtype=float)
        if v["orient"] == "natural":  # the documented orientation, the wrong number of values
            return key, (a.reshape(-1, 1) if h == "S" else a)
        if h == "T":  # the right number of values in the orientation the holder does not take
            return key, a.reshape(-1, 1)
        return key, (a if v["orient"] == "flat" else a.reshape(1, -1))
    R = M.arr_F(v["shape"], v["v"])
    if op["kind"] == "region-list" and h == "S":
        return key, M.py_rhs(dict(r="array", v=v["v"], sp="sorted"), "S", v["shape"])
    R = np.array(R, order="F")
    return key, (ttb.tensor(R, tuple(v["shape"])) if v["as"] == "tensor" else R)


def _operand_copy(o):
    if isinstance(o, np.ndarray):
        return o.copy()
    if isinstance(o, (ttb.tensor, ttb.sptensor)):
        return ref.den(o)
    if isinstance(o, tuple):
        return tuple(_operand_copy(e) for e in o)
    return copy.deepcopy(o)


def _operand_same(o, c) -> bool:
    if isinstance(o, (ttb.tensor, ttb.sptensor)):
        return _shape_of(o) == c.shape and ref.same_exact(ref.den(o), c)
    if isinstance(o, np.ndarray):
        return o.shape == c.shape and o.dtype == c.dtype and bool(np.array_equal(o, c))
    if isinstance(o, tuple):
        return len(o) == len(c) and all(_operand_same(a, b) for a, b in zip(o, c))
    return type(o) is type(c) and o == c


def same_state(ctx, what: str, X, h: str, snap, A: np.ndarray, ez) -> bool:
    """X after a rejected request: well-formed, the model's shape and values, and the parameterisation it had"""
    if h == "S":
        probs = ref.sptensor_problems(X, allow_explicit_zero=True)
        if not ctx.check(not probs, f"{what}:{_wf_clause(probs)}", probs):
            return False
    if not ctx.check(_shape_of(X) == A.shape, f"{what}:shape", f"{_shape_of(X)} vs model {A.shape}"):
        return False
    if not check_write(ctx, what, X, h, A, ez):
        return False
    if h == "S":
        same = (np.array_equal(np.asarray(X.subs).reshape(-1), np.asarray(snap.subs).reshape(-1))
                and (X.vals.size == 0 or np.asarray(X.vals).dtype == np.asarray(snap.vals).dtype)
                and np.array_equal(np.asarray(X.vals, dtype=float).reshape(-1), np.asarray(snap.vals, dtype=float).reshape(-1),
                                   equal_nan=True))
    else:
        same = np.asarray(X.data).dtype == np.asarray(snap.data).dtype and np.array_equal(
            np.asarray(X.data, dtype=float), np.asarray(snap.data, dtype=float), equal_nan=True)
    return ctx.check(bool(same), f"{what}:stored-parameterisation", "subs / vals / data differ from before the request")


def rejected_step(ctx, st: "State", op, holders=("T", "S"), try_known=True) -> None:
    A = st.A
    shape = list(A.shape)
    kind = op["kind"]
    ctx.label("x-" + kind)
    for h in holders:
        if not st.alive[h] or not bad_applies(h, shape, op):
            continue
        tags = bad_tags(h, shape, op)
        what = f"{h}.rejected-{kind}{_suffix(tags)}"
        if tags and not try_known:
            ctx.label(*[f"excluded:{t}" for t in tags])
            continue
        if tags:
            ctx.label(*[f"exercised:{t}" for t in tags])
        X = st.X[h]
        snap = copy.deepcopy(X)
        k, v = bad_request(h, shape, op)
        kc, vc = _operand_copy(k), _operand_copy(v)
        ctx.label(f"x-{h}-" + ("write" if op["rw"] == "w" else "read"))
        if op["rw"] == "w" and op["key"]["f"] in ("subs", "tuple") and kind in _T_GROW_KINDS + ("region-badvalue",) and (
                list(M.grown_shape(shape, op["key"])) != shape):
            ctx.label(f"x-{h}-would-have-grown")
        ok = ctx.raises(what, (lambda: X.__setitem__(k, v)) if op["rw"] == "w" else (lambda: X[k]))
        ok = same_state(ctx, what, X, h, snap, A, st.ez) and ok
        ok = ctx.check(_operand_same(k, kc) and _operand_same(v, vc), f"{what}:operands-changed") and ok
        if not ok:
            if tags:
                st.X[h] = snap  # known class: the history goes on with the object as it was
            else:
                st.alive[h] = False
    st.after_rejected = True


def acceptable_shapes(shape, key):
    idx = M.region_indices(shape, key)
    kept = [
        (len(ix), M.elem_kind(e) in ("list", "arr") and len(ix) == 1)
        for ix, e in zip(idx, key["k"])
        if M.elem_kind(e) != "int"
    ]
    out = set()
    for drop in itertools.product(*[[False, True] if one else [False] for _, one in kept]):
        out.add(tuple(n for (n, _), d in zip(kept, drop) if not d))
    return out


def _is_number(r) -> bool:
    return isinstance(r, (int, float, np.integer, np.floating, np.bool_)) or (
        isinstance(r, np.ndarray) and r.ndim == 0 and r.dtype.kind in "biuf")


def check_read(ctx, what: str, r, holder: str, shape, key, expect, ez=frozenset()) -> bool:
    kind, exp = expect
    if kind == "scalar":
        ok = ctx.check(_is_number(r), f"{what}:type", type(r).__name__)
        return ok and ctx.check(float(r) == exp, f"{what}:values", f"{r!r} vs {exp!r}")
    if kind == "vector":
        if isinstance(r, (ttb.tensor, ttb.sptensor)):
            ctx.check(False, f"{what}:type", type(r).__name__)
            return False
        try:
            v = np.asarray(r, dtype=float).reshape(-1)
        except Exception as e:  # noqa: BLE001
            ctx.check(False, f"{what}:type", f"{type(r).__name__}: {e}")
            return False
        ok = ctx.check(v.size == exp.size, f"{what}:size", f"{v.size} vs {exp.size}")
        return ok and ctx.check(ref.same_exact(v, exp), f"{what}:values", ref.diff_info(v, exp))
    # region
    oksh = acceptable_shapes(shape, key)
    if not isinstance(r, (ttb.tensor, ttb.sptensor)):
        ok = ctx.check(() in oksh and _is_number(r), f"{what}:type", type(r).__name__)
        return ok and ctx.check(float(r) == float(exp.reshape(-1)[0]), f"{what}:values", f"{r!r}")
    want = ttb.tensor if holder == "T" else ttb.sptensor
    if not ctx.check(isinstance(r, want), f"{what}:type", type(r).__name__):
        return False
    if holder == "S":
        probs = ref.sptensor_problems(r, allow_explicit_zero=bool(ez))
        if not ctx.check(not probs, f"{what}:{_wf_clause(probs)}", probs):
            return False
    if not ctx.check(_shape_of(r) in oksh, f"{what}:shape", f"{_shape_of(r)} vs {sorted(oksh)}"):
        return False
    got = ref.den(r).reshape(-1, order="F")
    want_v = exp.reshape(-1, order="F")
    return ctx.check(ref.same_exact(got, want_v), f"{what}:values", ref.diff_info(got, want_v))


def _build_T(start, A):
    """dense start: constructor (float64 or, for integer-valued data, int64) or the grown state (gen.build_tensor)"""
    shape = tuple(start["shape"])
    if start.get("dtype") == "int64":
        return ttb.tensor(A.astype(np.int64).copy(order="F"), shape)
    if start.get("provT") == "grown":
        return gen.build_tensor(dict(shape=list(shape), data=[float(x) for x in A.reshape(-1, order="F")], prov="grown"))
    return ttb.tensor(A.copy(order="F"), shape)


def _build_S(start):
    """sparse start, reached through the public API only: the constructor from subscripts in the generated stored order;
    'ez' = the constructor given explicitly stored zeros too (the state S*0 / scaling by zero also leave behind);
    provS 'npshape' = passed through permute by the identity order, which leaves numpy.int64 entries in shape;
    dtype int64 = integer values held in an integer array (as in the class docstring examples)."""
    shape = tuple(start["shape"])
    subs = [list(r) for r in start["subs"]]
    vals = list(start["vals"])
    for pos, at in start.get("ez") or []:
        at = min(at, len(subs))
        subs.insert(at, list(pos))
        vals.insert(at, 0.0)
    if not subs:
        S = ttb.sptensor(shape=shape)
    else:
        dt = np.int64 if start.get("dtype") == "int64" else float
        S = ttb.sptensor(np.array(subs, dtype=int).reshape(len(subs), len(shape)),
                         np.array(vals, dtype=dt).reshape(-1, 1), shape)
    if start.get("provS") == "npshape":
        try:
            P = S.permute(np.arange(len(shape)))
            if _shape_of(P) == shape and np.array_equal(ref.den(P), ref.den(S)):
                S = P
        except Exception:  # noqa: BLE001  (permute is judged by C07; here only the state it leaves matters)
            pass
    return S


class State:
    """one model array and the two objects (dense T, sparse S) that are to denote it"""

    def __init__(self, start):
        self.A = gen.dense_of_sparse_case(start)
        self.ez = frozenset(tuple(pos) for pos, _ in (start.get("ez") or []))
        if len(start["shape"]) == 0:
            self.X = {"T": ttb.tensor(), "S": ttb.sptensor()}  # the empty tensors (order 0)
        else:
            self.X = {"T": _build_T(start, self.A), "S": _build_S(start)}
        self.alive = {"T": True, "S": True}
        self.grew = False
        self.nt = False
        self.last_read = {}  # holder -> the object its last read returned (after the poke), None when not usable
        self.kept_rhs = []  # (holder, right-hand-side object, array it must still denote at the end)
        self.role = "source"
        self.after_rejected = False

    @classmethod
    def of_read(cls, parent: "State", model: np.ndarray):
        """the objects the last read of `parent` returned, kept alive as tensors of their own (model = the region read,
        with the poke); a holder whose result is missing or has the other admissible shape (a length-one index list
        dropped) is not followed"""
        st = cls.__new__(cls)
        st.A = np.array(model, dtype=float)
        st.X, st.alive = {}, {}
        for h in ("T", "S"):
            r = parent.last_read.get(h)
            ok = parent.alive[h] and isinstance(r, (ttb.tensor, ttb.sptensor)) and _shape_of(r) == st.A.shape
            st.X[h] = r if ok else None
            st.alive[h] = bool(ok)
        # stored zeros handed over by a source that legitimately holds some may sit anywhere the model is zero
        st.ez = frozenset(tuple(int(i) for i in p) for p in np.argwhere(st.A == 0)) if parent.ez else frozenset()
        st.grew, st.nt, st.last_read, st.kept_rhs, st.role = False, False, {}, [], "read-result"
        st.after_rejected = False
        return st


def _label_start(ctx, start, st_, holders) -> None:
    """labels for the derived states / dtypes actually reached (read off the objects, not off the request)"""
    if "T" in holders:
        T = st_.X["T"]
        if gen.is_grown(T):
            ctx.label("start:T-grown")
        if np.asarray(T.data).dtype.kind in "iu":
            ctx.label("start:T-int64")
    if "S" in holders:
        S = st_.X["S"]
        if any(isinstance(n, np.integer) for n in S.shape):
            ctx.label("start:S-numpy-int-shape")
        if S.vals.size and np.asarray(S.vals).dtype.kind in "iu":
            ctx.label("start:S-int64")
        if st_.ez:
            ctx.label("start:S-explicit-zeros")


def _stored_unsorted(S) -> bool:
    if S.subs.size == 0 or S.subs.shape[0] < 2:
        return False
    sub = np.asarray(S.subs)
    keys = [tuple(int(v) for v in r[::-1]) for r in sub]
    return keys != sorted(keys)


def step(ctx, st: State, op: Dict[str, Any], holders=("T", "S"), try_known=True) -> None:
    """Apply one operation of the history to the model and to every live holder."""
    if op["op"] == "x":
        return rejected_step(ctx, st, op, holders, try_known)
    A = st.A
    shape = list(A.shape)
    key, rhs = op["key"], op.get("rhs")
    form = _form(key)
    is_write = op["op"] == "w"
    ez = st.ez
    if is_write:
        B = M.model_write(A, key, rhs)
        pos_w = M.positions(shape, key)
        if ez:
            # an explicitly stored zero stays legitimate until its position is assigned
            ez = frozenset(p + (0,) * (B.ndim - len(p)) for p in ez) - {tuple(int(i) for i in p) for p in pos_w}
        vals = M.rhs_values(rhs, len(pos_w))
        mixed = bool((vals == 0).any() and (vals != 0).any())
        if st.grew or mixed or (st.alive["S"] and "S" in holders and _stored_unsorted(st.X["S"])):
            st.nt = True
        ctx.label(f"w-{form}", "rhs-" + rhs["r"] + ("-zero" if rhs["r"] == "scalar" and rhs["v"] == 0 else ""))
        if rhs.get("idt"):
            ctx.label("rhs-int64-array")
        if (vals != 0).any() and float(np.abs(vals[vals != 0]).min()) < 1e-6:
            ctx.label("rhs-tiny-nonzero")
        if bool(np.signbit(vals[vals == 0]).any()):
            ctx.label("rhs-negative-zero")
        if B.shape != A.shape:
            ctx.label("grow-order" if B.ndim != A.ndim else "grow-extent")
            st.grew = True
        if mixed:
            ctx.label("mixed-zero-nonzero")
        if not pos_w:
            ctx.label("w-empty-request", "w-empty-request-" + form)
        if st.after_rejected:
            ctx.label("valid-write-after-rejected-request")
        _label_presentation(ctx, key, rhs)
    else:
        expect = M.model_read(A, key)
        ctx.label(f"r-{form}")
        if st.after_rejected:
            ctx.label("valid-read-after-rejected-request")
        _label_presentation(ctx, key, None)
        if expect[0] == "vector" and expect[1].size == 0:
            ctx.label("r-empty-request")
        if form == "region" and not np.any(expect[1]):
            ctx.label("r-region-without-nonzero")
    if key["f"] == "tuple" or key["f"] == "linslice":
        sl = [c for e in (key["k"] if key["f"] == "tuple" else [key]) if not M.is_int(e) and "s" in e
              for c in M.slice_classes(e)]
        general = sorted({c for c in sl if c != "slice-plain"})
        if general:
            ctx.label(*[("w-" if is_write else "r-") + ("lin" if key["f"] == "linslice" else "") + c for c in general])
            if not is_write and form == "region" and not np.any(expect[1]):
                ctx.label("r-general-slice-region-without-nonzero")
    for h in holders:
        if not st.alive[h]:
            continue
        X = st.X[h]
        if is_write:
            k, r = natural(h, shape, key, rhs)
            tags = tags_for(h, "write", shape, k, r, X)
            what = f"{h}.write-{_form(k)}{_suffix(tags)}"
            if any(t in OPEN_TAGS for t in tags) and not try_known:
                ctx.label(*[f"excluded:{t}" for t in tags])
                ok = _guard(ctx, f"{h}.write-{_form(k)}(equivalent)", lambda: dodge_write(X, h, shape, k, r, tags))
                ok = ok and check_write(ctx, f"{h}.write-{_form(k)}(equivalent)", X, h, B, ez)
            else:
                snap = copy.deepcopy(X) if tags else None
                if tags:
                    ctx.label(*[f"exercised:{t}" for t in tags])
                rk: list = []
                ok = _guard(ctx, what, lambda: do_write(X, h, shape, k, r, rk))
                ok = ok and check_write(ctx, what, X, h, B, ez)
                if ok and rk:
                    # the right-hand-side object stays the caller's: changing it afterwards must not reach the tensor
                    expect = _edit_rhs(rk[0])
                    if expect is not None:
                        ctx.label("rhs-edited-after-write")
                        ok = check_write(ctx, f"{h}.write-{_form(k)}:after-editing-right-hand-side", X, h, B, ez)
                        st.kept_rhs = st.kept_rhs[-3:] + [(h, rk[0], expect)]
                if not ok and tags:
                    # known class: go on behind it with the equivalent form on the snapshot
                    st.X[h] = X = snap
                    ok = _guard(ctx, f"{h}.write-{_form(k)}(equivalent)", lambda: dodge_write(X, h, shape, k, r, tags))
                    ok = ok and check_write(ctx, f"{h}.write-{_form(k)}(equivalent)", X, h, B, ez)
            if not ok:
                st.alive[h] = False
        else:
            tags = tags_for(h, "read", shape, key, None, X)
            what = f"{h}.read-{form}{_suffix(tags)}"
            k = key
            if any(t in OPEN_TAGS for t in tags) and not try_known:
                ctx.label(*[f"excluded:{t}" for t in tags])
                k = dodge_read_key(h, shape, key)
                what = f"{h}.read-{_form(k)}(equivalent)"
            elif tags:
                ctx.label(*[f"exercised:{t}" for t in tags])
            got = []
            st.last_read[h] = None
            if _guard(ctx, what, lambda: got.append(X[M.py_key(k)])):
                if check_read(ctx, what, got[0], h, shape, k, M.model_read(A, k) if k is not key else expect, ez):
                    # the object returned is the caller's: assigning into it must not reach the source
                    if _poke(ctx, h, got[0]):
                        st.last_read[h] = got[0]
            # a read (and what is done to its result) must leave the state alone
            if not check_write(ctx, what + ":state-after-read", X, h, A, ez):
                st.alive[h] = False
    if is_write:
        st.A = B
        st.ez = ez


def _label_presentation(ctx, key, rhs) -> None:
    if key.get("dt"):
        ctx.label("key-" + key["dt"])
    if key.get("mem"):
        ctx.label("key-" + key["mem"])
    if rhs is not None:
        if rhs.get("f32"):
            ctx.label("rhs-float32")
        if rhs.get("mem"):
            ctx.label("rhs-" + rhs["mem"])
        if rhs.get("nps"):
            ctx.label("rhs-numpy-scalar-" + rhs["nps"])


def _edit_rhs(R):
    """change a right-hand-side object in place (plain NumPy for arrays, a full-subscript assignment for tensors);
    returns the array it denotes afterwards, None when there is nothing to change"""
    try:
        if isinstance(R, np.ndarray):
            if R.size == 0 or not R.flags.writeable:
                return None
            R += 1000
            return np.array(R, dtype=float)
        if isinstance(R, (ttb.tensor, ttb.sptensor)) and ref.prod(_shape_of(R)) > 0:
            R[tuple(0 for _ in R.shape)] = POKE
            D = ref.den(R)
            return D if D[tuple(0 for _ in R.shape)] == POKE else None
    except Exception:  # noqa: BLE001  (the assignment into the right-hand side is judged where it is the operation)
        return None
    return None


def _poke(ctx, h: str, r) -> bool:
    """assign POKE to the first entry of an object a read returned (True when done)"""
    if isinstance(r, np.ndarray):
        if r.size == 0 or not r.flags.writeable:
            return False
        r[tuple(0 for _ in r.shape)] = POKE
        return True
    if isinstance(r, (ttb.tensor, ttb.sptensor)) and ref.prod(_shape_of(r)) > 0:
        return _guard(ctx, f"{h}.write-full(into-read-result)", lambda: r.__setitem__(tuple(0 for _ in r.shape), POKE))
    return False


def _snapshot(r) -> np.ndarray:
    return np.array(r, dtype=float) if isinstance(r, np.ndarray) else ref.den(r)


def reverse_alias_check(ctx, st: State, holder: str, key) -> None:
    """after a read whose result is still alive: assign to the source (first and last position the read addressed),
    then judge the kept result - it must still hold what was read (and the poke)"""
    r = st.last_read.get(holder)
    if r is None or not st.alive[holder]:
        return
    pos = M.positions(list(st.A.shape), key, write=False)
    if not pos:
        return
    before = _snapshot(r)
    for p in ([pos[0], pos[-1]] if len(pos) > 1 else [pos[0]]):
        cur = float(st.A[tuple(p)])
        op = dict(op="w", key=dict(f="tuple", k=[int(i) for i in p]), rhs=dict(r="scalar", v=-cur - 3.0, int=False))
        step(ctx, st, op, holders=(holder,), try_known=True)
        if not st.alive[holder]:
            return
    after = _snapshot(r)
    ctx.check(ref.same_exact(after, before), f"{holder}.read-result-after-write-to-source", ref.diff_info(after, before))


def _guard(ctx, what: str, fn) -> bool:
    try:
        with ctx.sut(what):
            fn()
        return True
    except Abort:
        return False


# --------------------------------------------------------------------------
# strategies
# --------------------------------------------------------------------------


def _caps(tier):
    """(max cells at start, max cells after growth, max steps)"""
    return (24, 48, 25) if tier == "quick" else (60, 150, 60)


@st.composite
def _general_slice(draw, n: int, g: int, write: bool):
    """A slice element in a form other than non-negative-bounds/unit-step, constructed from the index set it is to
    address (never filtered): first index, step in {1, 2, 3, -1, -2} and count are drawn, then each bound is written in
    one of its equivalent spellings - omitted where python's default gives the same set, counted from the end
    (negative), or explicit; for reads also a bound beyond the extent, which python clips.  Accepted forms (established
    on the unchanged tree, see ASSUMPTIONS): all of them for reads and for writes within the present extent; growth
    (g > 0) only through a positive step and a stop one past the last addressed index."""
    hi = n + g
    step = draw(st.sampled_from([2, 2, 3, -1, -1, -2, 1]))
    if g:
        step = abs(step) if step != 1 else 2
        last = draw(st.integers(n, hi - 1))
        k = draw(st.integers(1, last // step + 1))
        first = last - (k - 1) * step
        return dict(s=[None if first == 0 and draw(st.booleans()) else first, last + 1, step])
    first = draw(st.integers(0, n - 1))
    kmax = ((n - 1 - first) // step if step > 0 else first // (-step)) + 1
    k = draw(st.integers(1, kmax))
    if kmax > 1 and k == 1 and draw(st.booleans()):
        k = kmax
    last = first + (k - 1) * step
    # spellings of the start
    starts = [first, first - n]
    if (step > 0 and first == 0) or (step < 0 and first == n - 1):
        starts.append(None)
        if step < 0 and not write:
            starts.append(n + draw(st.integers(0, 2)))  # clipped to n - 1
        if step > 0 and not write:
            starts.append(-n - draw(st.integers(1, 2)))  # clipped to 0
    a = draw(st.sampled_from(starts))
    # spellings of the stop
    if step > 0:
        stops = [last + 1] + ([last + 1 - n] if last + 1 < n else [])
        if last + step >= n:
            stops.append(None)
            if not write:
                stops.append(n + draw(st.integers(1, 3)))  # clipped
    else:
        stops = [last - 1, last - 1 - n] if last >= 1 else [None, -n - 1]
        if last + step < 0:
            stops.append(None)
    b = draw(st.sampled_from(stops))
    if step == 1 and (a is None or a >= 0) and (b is None or b >= 0):
        a = first - n  # the unit step comes here only for its negative-bound spellings
    return dict(s=[a, b, step] if (step != 1 or draw(st.booleans())) else [a, b])


@st.composite
def _elem(draw, n: Optional[int], grow: int, kinds=("int", "neg", "slice", "list", "arr"), write: bool = True):
    """One key element for a mode of present extent n (None = new trailing mode); grow = extra extent allowed."""
    if n is None:
        kind = draw(st.sampled_from(["int", "int", "slice", "list"]))
        if kind == "int":
            return draw(st.sampled_from([0, 0, 0, 1]))
        if kind == "slice":
            a, b = draw(st.sampled_from([(None, 1), (0, 1), (0, 2), (None, 2), (1, 2)]))
            return dict(s=[a, b])
        return dict(l=draw(st.sampled_from([[0], [0], [0, 1], [1, 0], [1]])))
    kind = draw(st.sampled_from(list(kinds)))
    g = draw(st.sampled_from([0, 0, 1, 2])) if grow > 0 else 0
    g = min(g, grow)
    hi = n + g
    if kind == "int":
        return draw(st.integers(n, hi - 1)) if g and draw(st.booleans()) else draw(st.integers(0, hi - 1))
    if kind == "neg":
        return -draw(st.integers(1, n))
    if kind == "slice" and draw(st.booleans()):
        return draw(_general_slice(n, g, write))
    if kind == "slice":
        a = draw(st.one_of(st.none(), st.integers(0, hi - 1)))
        lo = (a or 0) + 1
        if lo > n:
            b = draw(st.integers(lo, hi))
        elif g:
            b = draw(st.integers(max(lo, n + 1), hi))
        else:
            b = draw(st.one_of(st.none(), st.integers(lo, hi)))
        return dict(s=[a, b])
    k = draw(st.integers(1, min(3, hi)))
    lst = list(draw(st.permutations(range(hi))))[:k]
    if g and not any(i >= n for i in lst):
        lst[0] = hi - 1
        lst = list(dict.fromkeys(lst))
    return dict(l=lst) if kind == "list" else dict(a=lst)


@st.composite
def _empty_elem(draw, n: int):
    """A key element that addresses no index of a mode of present extent n (round 3): slices in every spelling that
    selects nothing without reaching beyond the extent - stop 0, start == stop, start > stop, start at / beyond the
    extent, negative bounds, reversed and stepped empties - and empty index lists (python list / ndarray)."""
    kind = draw(st.sampled_from(["slice", "slice", "slice", "list", "arr"]))
    if kind == "list":
        return dict(l=[])
    if kind == "arr":
        return dict(a=[])
    a = draw(st.integers(0, n))
    forms = [[None, 0], [0, 0], [a, a], [a, draw(st.integers(0, a))], [n, None], [n + draw(st.integers(0, 2)), None],
             [a - n - 1 if a < n else -1, 0], [None, -n], [None, -n - 1], [a, a, 2], [0, draw(st.integers(0, n)), -1],
             [None, None if n == 0 else n - 1, -1]]
    s = draw(st.sampled_from(forms))
    assert len(range(n)[slice(*s)]) == 0, (n, s)
    return dict(s=s)


def _is_empty_slice(e, n) -> bool:
    return M.elem_kind(e) == "slice" and len(range(n)[M.slice_of(e)]) == 0


def _maybe_np(draw, key):
    """integer subscripts as numpy.int64 in about one key out of six"""
    if any(M.is_int(e) for e in key["k"]) and draw(st.integers(0, 5)) == 0:
        key["np"] = True
    return key


@st.composite
def _tuple_key(draw, shape, form: str, write: bool, room: float, max_order: int, kinds=None):
    """form: 'full' | 'region'.  room = factor by which the cell count may still grow.  kinds: element kinds to draw
    from (default all)."""
    N = len(shape)
    grow = 2 if (write and room >= 1.5) else 0
    if form == "full":
        k = [draw(_elem(n, grow if room >= (n + 2) / n else 0, kinds=("int", "int", "neg"))) for n in shape]
        if write and N < max_order and room >= 2 and draw(st.integers(0, 5)) == 0:
            k.append(draw(st.sampled_from([0, 0, 1])))
        return _maybe_np(draw, dict(f="tuple", k=k))
    k = []
    budget = room
    for n in shape:
        g = grow if budget >= (n + 2) / n else (1 if (grow and budget >= (n + 1) / n) else 0)
        e = draw(_elem(n, g, write=write, **({"kinds": kinds} if kinds else {})))
        ext = max(n, M.elem_extent(e, n))
        budget /= ext / n
        k.append(e)
    if write and N < max_order and budget >= 2 and draw(st.integers(0, 5)) == 0:
        k.append(draw(_elem(None, 0)))
    if all(M.is_int(e) for e in k):
        m = draw(st.integers(0, N - 1))
        k[m] = draw(_elem(shape[m], 0, kinds=("slice", "list", "arr"), write=write))
    if write and len(k) == N and draw(st.integers(0, 7)) == 0 and M.grown_shape(shape, dict(f="tuple", k=k)) == list(shape):
        # an empty request: one (sometimes two) of the elements selects nothing; never combined with growth
        for m in draw(st.lists(st.integers(0, N - 1), min_size=1, max_size=2, unique=True)):
            k[m] = draw(_empty_elem(shape[m]))
    return _maybe_np(draw, dict(f="tuple", k=k))


@st.composite
def _subs_key(draw, shape, write: bool, room: float, max_order: int, max_p: int):
    N = len(shape)
    ext = list(shape)
    if draw(st.integers(0, 11)) == 0:
        return dict(f="subs", rows=[], ncols=N)  # the 0 x N subscript array: addresses nothing
    if write:
        budget = room
        for m, n in enumerate(shape):
            g = draw(st.sampled_from([0, 0, 0, 1, 2]))
            while g and budget < (n + g) / n:
                g -= 1
            ext[m] = n + g
            budget /= ext[m] / n
        if N < max_order and budget >= 2 and draw(st.integers(0, 5)) == 0:
            ext.append(draw(st.sampled_from([1, 1, 2])))
    total = ref.prod(ext)
    p = draw(st.integers(1, min(max_p, total)))
    lins = draw(st.lists(st.integers(0, total - 1), min_size=p, max_size=p, unique=True))
    rows = [M.lin_to_sub(i, ext) for i in lins]
    return dict(f="subs", rows=rows)


@st.composite
def _lin_key(draw, shape, max_p: int, write: bool = True):
    n = ref.prod(shape)
    f = draw(st.sampled_from(["lin", "linlist", "linarr", "linslice"]))
    if f == "lin":
        return dict(f="lin", i=draw(st.integers(-n, n - 1)))
    if draw(st.integers(0, 9)) == 0:
        # empty requests: no linear index at all
        if f == "linslice":
            a = draw(st.integers(0, n))
            return dict(f="linslice", s=draw(st.sampled_from([[None, 0], [a, a], [a, draw(st.integers(0, a))], [n, None]])))
        return dict(f=f, i=[])
    if f == "linslice" and draw(st.booleans()):
        return dict(f="linslice", s=draw(_general_slice(n, 0, write))["s"])
    if f == "linslice":
        a = draw(st.one_of(st.none(), st.integers(0, n - 1)))
        b = draw(st.one_of(st.none(), st.integers((a or 0) + 1, n)))
        return dict(f="linslice", s=[a, b])
    p = draw(st.integers(1, min(max_p, n)))
    idx = draw(st.lists(st.integers(0, n - 1), min_size=p, max_size=p, unique=True))
    neg = draw(st.integers(0, 3))
    if neg == 0:
        idx = [i - n for i in idx]
    elif neg == 1:
        idx = [i - n if j % 2 else i for j, i in enumerate(idx)]
    return dict(f=f, i=idx)


@st.composite
def _key(draw, shape, write: bool, form: Optional[str], tier: str, cap: int, kinds=None):
    max_order, _, _ = gen.tier_limits(tier)
    max_order += 1
    room = cap / max(1, ref.prod(shape))
    max_p = 4 if tier == "quick" else 6
    if len(shape) == 0:
        assert write and form != "linear"
        return draw(_first_key(form or draw(st.sampled_from(["full", "region", "subs"])), max_p))
    if form is None:
        form = draw(st.sampled_from(["full", "region", "region", "region", "subs", "subs", "linear", "linear"]))
    if form in ("full", "region"):
        key = draw(_tuple_key(shape, form, write, room, max_order, kinds))
    elif form == "subs":
        key = draw(_subs_key(shape, write, room, max_order, max_p))
    else:
        key = draw(_lin_key(shape, max_p, write))
    if write and ref.prod(M.grown_shape(shape, key)) > cap:
        # over the size cap: fall back to a key of the same form that does not grow
        if form in ("full", "region"):
            key = draw(_tuple_key(shape, form, False, 1.0, max_order))
        elif form == "subs":
            key = draw(_subs_key(shape, False, 1.0, max_order, max_p))
    return key


# (round 3, near-special values) non-zero values far below every absolute tolerance - they are values, not zeros - and
# the negative zero, which is a zero
TINY = [1e-9, -1e-12, 1e-300, -1e-310, 5e-324]


@st.composite
def _values(draw, n: int, vkind: str, pattern: str):
    nz = gen.values(vkind, nonzero=True)
    if pattern == "zero":
        return [(-0.0 if (vkind == "float" and draw(st.integers(0, 3)) == 0) else 0.0) for _ in range(n)]
    vals = draw(st.lists(nz, min_size=n, max_size=n))
    if vkind == "float" and n and draw(st.integers(0, 4)) == 0:
        vals[draw(st.integers(0, n - 1))] = draw(st.sampled_from(TINY))
    if pattern == "mixed" and n >= 2:
        mask = draw(st.lists(st.booleans(), min_size=n, max_size=n))
        if all(mask):
            mask[draw(st.integers(0, n - 1))] = False
        if not any(mask):
            mask[draw(st.integers(0, n - 1))] = True
        vals = [v if m else 0.0 for v, m in zip(vals, mask)]
    return vals


@st.composite
def _rhs(draw, shape, key, vkind: str):
    form = _form(key)
    count = len(M.positions(shape, key))
    many_ok = form != "full" and key["f"] != "lin"
    choice = draw(st.sampled_from(["scalar", "zero", "many", "many"])) if many_ok else draw(
        st.sampled_from(["scalar", "scalar", "zero"]))
    if choice == "zero":
        if vkind == "float" and draw(st.integers(0, 4)) == 0:
            return dict(r="scalar", v=-0.0, int=False)  # the negative zero is a zero
        return dict(r="scalar", v=0.0, int=draw(st.booleans()))
    if choice == "scalar":
        if draw(st.integers(0, 2)) == 0:
            return dict(r="scalar", v=draw(gen.NZ_INT_VALUES), int=True)
        if vkind == "float" and draw(st.integers(0, 5)) == 0:
            return dict(r="scalar", v=draw(st.sampled_from(TINY)), int=False, np=draw(st.booleans()), tiny=True)
        return dict(r="scalar", v=draw(gen.values(vkind, nonzero=True)), int=False, np=draw(st.booleans()))
    pattern = draw(st.sampled_from(["nonzero", "nonzero", "mixed", "mixed", "zero"]))
    vals = draw(_values(count, vkind, pattern))
    # integer-valued right-hand sides are held in an int64 array one time in three (whatever the dtype of the target)
    extra = dict(idt=True) if (vkind == "int" and draw(st.integers(0, 2)) == 0) else {}
    if form == "region":
        return dict(r="array", v=vals, **{"as": draw(st.sampled_from(["ndarray", "tensor"])),
                                          "sp": draw(st.sampled_from(["sorted", "reverse"]))}, **extra)
    return dict(r="vec", v=vals, **{"as": draw(st.sampled_from(["ndarray", "list"]))}, **extra)


@st.composite
def _present_key(draw, key):
    """(round 4) the same key as an ordinary caller may hold it: subscript / index arrays and numpy integer scalars in
    int32 / uint8 / uint16 / uint64 / intp, arrays read-only and / or as non-contiguous views"""
    has_arr = key["f"] in ("subs", "linarr") or (key["f"] == "tuple" and any(M.elem_kind(e) == "arr" for e in key["k"]))
    has_int = (key["f"] == "tuple" and any(M.is_int(e) for e in key["k"])) or key["f"] == "lin"
    if (has_arr or has_int) and draw(st.integers(0, 2)) == 0:
        key["dt"] = draw(st.sampled_from(["int32", "int32", "uint8", "uint16", "uint64", "intp"]))
        if has_int and (key["f"] == "lin" or not has_arr or draw(st.booleans())):
            key["np"] = True
    if has_arr and draw(st.integers(0, 3)) == 0:
        key["mem"] = draw(st.sampled_from(["ro", "strided", "ro-strided"]))
    return key


@st.composite
def _present_rhs(draw, rhs, vkind):
    """(round 4) value arrays read-only / strided; for integer-valued histories also float32 arrays and numpy integer /
    float32 scalars (exact in every type used: values are small integers)"""
    if rhs["r"] in ("vec", "array") and rhs.get("as") in ("ndarray", None) and draw(st.integers(0, 2)) == 0:
        rhs["mem"] = draw(st.sampled_from(["ro", "strided", "ro-strided"]))
    if vkind == "int" and rhs["r"] in ("vec", "array") and not rhs.get("idt") and rhs.get("as") != "list" and draw(st.integers(0, 1)) == 0:
        rhs["f32"] = True
    if rhs["r"] == "scalar" and rhs.get("int") and draw(st.integers(0, 3)) == 0:
        rhs["nps"] = draw(st.sampled_from(["int64", "int32", "float32"] + (["uint8"] if rhs["v"] >= 0 else [])))
    return rhs


def _distinct_rows(rows, ext, k):
    """rows plus further distinct positions of the extent `ext` until there are k of them (or no more exist)"""
    rows = [list(r) for r in rows]
    i = 0
    total = ref.prod(ext)
    while len(rows) < k and i < total:
        r = M.lin_to_sub(i, ext)
        if r not in rows:
            rows.append(r)
        i += 1
    return rows


@st.composite
def _bad_op(draw, shape, tier, cap):
    """(round 4, state after a rejected request) one ill-formed request for a tensor of the given shape (order >= 1):
    wrong number of values, values in the other orientation, negative / out-of-range subscripts, too few / too many
    key entries, right-hand side of the wrong shape or kind, linear indices beyond the extent, an open slice for a mode
    that does not exist yet.  Requests that would have grown the tensor had they been valid are generated on purpose."""
    N = len(shape)
    n = ref.prod(shape)
    max_order = gen.tier_limits(tier)[0] + 1
    room = cap / max(1, n)
    nz = gen.NZ_INT_VALUES
    kinds = ["subs-count", "subs-count", "subs-orient", "subs-orient", "subs-neg", "region-shape", "region-shape",
             "region-badvalue", "region-neg-oob", "region-list", "open-slice-new-mode"]
    if N >= 2:
        kinds += ["subs-few-cols", "lin-oob", "lin-count", "read-too-many", "read-subs-oob", "read-subs-cols"]
    kind = draw(st.sampled_from(kinds))
    if kind == "open-slice-new-mode" and N >= max_order:
        kind = "subs-count"
    if kind == "lin-count" and n < 2:
        kind = "lin-oob"

    def scalar():
        return dict(t="scalar", v=draw(nz))

    def vec(q, orient="natural"):
        return dict(t="vec", v=[draw(nz) for _ in range(q)], orient=orient)

    def plain_key(form="region", write=False, kinds_=("int", "slice")):
        k = draw(_tuple_key(shape, form, write, 1.0, max_order, kinds_))
        if not M.positions(shape, k, write=False) or M.grown_shape(shape, k) != list(shape):
            k = dict(f="tuple", k=[dict(s=[None, None]) for _ in shape])
        k.pop("np", None)
        return k

    if kind in ("subs-count", "subs-orient", "subs-neg"):
        key = draw(_subs_key(shape, True, room, max_order, 4))
        if not key["rows"]:
            key = dict(f="subs", rows=[[0] * N])
        key.pop("ncols", None)
        ext = M.grown_shape(shape, key)
        if kind == "subs-orient":
            key["rows"] = _distinct_rows(key["rows"], ext, 2)
            if len(key["rows"]) < 2:
                kind = "subs-count"
        p = len(key["rows"])
        if kind == "subs-count":
            q = draw(st.sampled_from([p + 1, p + 2] + ([p - 1] if p >= 3 else [])))
            return dict(op="x", kind=kind, rw="w", key=key, val=vec(q))
        if kind == "subs-orient":
            return dict(op="x", kind=kind, rw="w", key=key, val=vec(p, draw(st.sampled_from(["flat", "row"]))))
        i, m = draw(st.integers(0, p - 1)), draw(st.integers(0, N - 1))
        key["rows"][i][m] = 0
        ext = M.grown_shape(shape, key)
        key["rows"][i][m] = -ext[m] - 1 - draw(st.integers(0, 1))
        return dict(op="x", kind=kind, rw="w", key=key, val=scalar() if draw(st.booleans()) else vec(p))
    if kind == "subs-few-cols":
        p = draw(st.integers(1, 3))
        rows = _distinct_rows([], shape[:-1], p)
        return dict(op="x", kind=kind, rw="w", key=dict(f="subs", rows=rows), val=scalar())
    if kind in ("region-shape", "region-badvalue"):
        key = draw(_tuple_key(shape, "region", True, room, max_order, BASIC))
        key.pop("np", None)
        if not M.positions(shape, key) or ref.prod(M.grown_shape(shape, key)) > cap:
            key = dict(f="tuple", k=[dict(s=[None, None]) for _ in shape])
        rs = M.kept_shape(shape, key, M.grown_shape(shape, key))
        if kind == "region-shape":
            rs[draw(st.integers(0, len(rs) - 1))] += 1
        vals = [draw(nz) for _ in range(ref.prod(rs))]
        return dict(op="x", kind=kind, rw="w", key=key, val=dict(t="arr", shape=rs, v=vals, **{"as": draw(st.sampled_from(["ndarray", "tensor"]))}))
    if kind == "region-list":
        m = draw(st.integers(0, N - 1))
        k = []
        for j, nj in enumerate(shape):
            if j == m:
                g = 1 if (room >= (nj + 1) / nj and draw(st.booleans())) else 0
                L = draw(st.integers(1, min(3, nj + g)))
                lst = list(draw(st.permutations(range(nj + g))))[:L]
                if g and (nj not in lst):
                    lst[0] = nj
                k.append(dict(l=lst))
            elif draw(st.booleans()):
                k.append(draw(st.integers(0, nj - 1)))
            else:
                a = draw(st.integers(0, nj - 1))
                k.append(dict(s=[a, draw(st.integers(a + 1, nj))]))
        key = dict(f="tuple", k=k)
        rs = M.kept_shape(shape, key, M.grown_shape(shape, key))
        mm = sum(1 for e in k[:m] if not M.is_int(e))
        rs[mm] += 1
        vals = [draw(nz) for _ in range(ref.prod(rs))]
        return dict(op="x", kind=kind, rw="w", key=key, val=dict(t="arr", shape=rs, v=vals, **{"as": "ndarray"}))
    if kind == "region-neg-oob":
        rw = draw(st.sampled_from(["w", "w", "r"]))
        key = plain_key(draw(st.sampled_from(["full", "region"])), rw == "w")
        m = draw(st.integers(0, N - 1))
        key["k"][m] = -shape[m] - 1 - draw(st.integers(0, 1))
        return dict(op="x", kind=kind, rw=rw, key=key, val=dict(t="scalar", v=draw(st.sampled_from([0.0, 2.0, -3.0]))))
    if kind == "open-slice-new-mode":
        key = plain_key(draw(st.sampled_from(["full", "region"])), True)
        key["k"].append(dict(s=[None, None]))
        return dict(op="x", kind=kind, rw="w", key=key, val=scalar())
    if kind == "lin-oob":
        f = draw(st.sampled_from(["lin", "linlist", "linarr"]))
        bad = n + draw(st.integers(0, 2))
        if f == "lin":
            key = dict(f="lin", i=bad)
        else:
            idx = draw(st.lists(st.integers(0, n - 1), min_size=0, max_size=3, unique=True))
            idx.insert(draw(st.integers(0, len(idx))), bad)
            key = dict(f=f, i=idx)
        return dict(op="x", kind=kind, rw=draw(st.sampled_from(["w", "r"])), key=key, val=scalar())
    if kind == "lin-count":
        f = draw(st.sampled_from(["linlist", "linarr", "linslice"]))
        p = draw(st.integers(2, min(4, n)))
        if f == "linslice":
            a = draw(st.integers(0, n - p))
            key = dict(f="linslice", s=[a, a + p])
        else:
            key = dict(f=f, i=draw(st.lists(st.integers(0, n - 1), min_size=p, max_size=p, unique=True)))
        q = draw(st.sampled_from([p + 1, p + 2] + ([p - 1] if p >= 3 else [])))
        return dict(op="x", kind=kind, rw="w", key=key, val=vec(q))
    if kind == "read-too-many":
        key = plain_key(draw(st.sampled_from(["full", "region"])))
        key["k"].append(draw(st.sampled_from([0, dict(s=[0, 1]), dict(s=[None, None])])))
        return dict(op="x", kind=kind, rw="r", key=key)
    if kind == "read-subs-oob":
        rows = _distinct_rows([], shape, draw(st.integers(1, 3)))
        i, m = draw(st.integers(0, len(rows) - 1)), draw(st.integers(0, N - 1))
        rows[i][m] = shape[m] + draw(st.integers(0, 2))
        return dict(op="x", kind=kind, rw="r", key=dict(f="subs", rows=rows))
    rows = [r + [0] for r in _distinct_rows([], shape, draw(st.integers(1, 3)))]
    return dict(op="x", kind="read-subs-cols", rw="r", key=dict(f="subs", rows=rows))


EMPTY_START = dict(shape=[], subs=[], vals=[], vkind="int", pattern="none", order="sorted")


@st.composite
def _start(draw, tier, allow_empty=False):
    c0, _, _ = _caps(tier)
    # one start in twelve is the empty tensor ttb.tensor() / ttb.sptensor() (order 0): the first write creates every mode
    if allow_empty and draw(st.integers(0, 11)) == 0:
        return dict(EMPTY_START)
    sc = draw(gen.sparse_case(tier, min_order=1, max_cells=c0))
    # derived states / dtypes of the two holders (see _build_T / _build_S)
    sc["provT"] = draw(st.sampled_from(["ctor", "ctor", "grown"]))
    sc["provS"] = draw(st.sampled_from(["ctor", "ctor", "npshape"]))
    if sc["vkind"] == "int" and draw(st.integers(0, 2)) == 0:
        sc["dtype"] = "int64"
    if draw(st.integers(0, 3)) == 0:
        A = gen.dense_of_sparse_case(sc)
        zeros = [list(int(i) for i in p) for p in np.argwhere(A == 0)]
        if zeros:
            k = draw(st.integers(1, min(2, len(zeros))))
            idx = draw(st.lists(st.integers(0, len(zeros) - 1), min_size=k, max_size=k, unique=True))
            sc["ez"] = [[zeros[i], draw(st.integers(0, len(sc["subs"])))] for i in idx]
    return sc


@st.composite
def _first_key(draw, form: str, max_p: int):
    """A key for the empty (order-0) tensor: every mode is new."""
    order = draw(st.integers(1, 3))
    if form == "subs":
        ext = [draw(st.integers(1, 3)) for _ in range(order)]
        total = ref.prod(ext)
        p = draw(st.integers(1, min(max_p, total)))
        lins = draw(st.lists(st.integers(0, total - 1), min_size=p, max_size=p, unique=True))
        return dict(f="subs", rows=[M.lin_to_sub(i, ext) for i in lins])
    if form == "full":
        return dict(f="tuple", k=[draw(st.integers(0, 2)) for _ in range(order)])
    k = [draw(_elem(None, 0)) for _ in range(order)]
    if all(M.is_int(e) for e in k):
        k[draw(st.integers(0, order - 1))] = dict(s=[0, draw(st.integers(1, 2))])
    return dict(f="tuple", k=k)


@st.composite
def _single(draw, tier, opk: str, form: str):
    start = draw(_start(tier, allow_empty=(opk == "w" and form != "linear")))
    shape = start["shape"]
    _, cap, _ = _caps(tier)
    key = draw(_key(shape, opk == "w", form, tier, cap))
    if len(shape):
        key = draw(_present_key(key))
    op = dict(op=opk, key=key)
    if opk == "w":
        op["rhs"] = draw(_present_rhs(draw(_rhs(shape, key, start["vkind"])), start["vkind"]))
    return dict(start=start, op=op)


BASIC = ("int", "neg", "slice", "slice")  # ints and slices only: the keys for which NumPy itself returns views


@st.composite
def _history(draw, tier, try_known: bool, fork: bool = False):
    """fork (round 3): objects returned by region reads are kept alive as tensors of their own ('keep'); later
    operations are addressed ('on') to the source or to any kept object, each of which has its own model."""
    _, cap, max_steps = _caps(tier)
    start = draw(_start(tier, allow_empty=not fork))
    models = [gen.dense_of_sparse_case(start)]
    n = draw(st.integers(3 if fork else 2, max_steps))
    ops = []
    for _ in range(n):
        j = 0
        if len(models) > 1 and draw(st.booleans()):
            j = draw(st.integers(1, len(models) - 1))
        A = models[j]
        shape = list(A.shape)
        if len(shape) and draw(st.integers(0, 6)) == 0:
            # (round 4) an ill-formed request: must be rejected and leave no trace
            op = draw(_bad_op(shape, tier, cap))
            if fork:
                op["on"] = j
            ops.append(op)
            continue
        write = draw(st.integers(0, 9)) < (5 if fork else 6) or len(shape) == 0
        form, kinds = None, None
        if fork and not write and len(models) < 4:
            form = draw(st.sampled_from(["region", "region", None]))
            kinds = BASIC if draw(st.booleans()) else None
        key = draw(_present_key(draw(_key(shape, write, form, tier, cap, kinds))))
        op = dict(op="w" if write else "r", key=key)
        if fork:
            op["on"] = j
        if write:
            op["rhs"] = draw(_present_rhs(draw(_rhs(shape, key, start["vkind"])), start["vkind"]))
            models[j] = M.model_write(A, key, op["rhs"])
        elif fork and len(models) < 4 and _form(key) == "region" and draw(st.integers(0, 3)) > 0:
            kind, region = M.model_read(A, key)
            if kind == "region":
                child = np.array(region, dtype=float)
                child[tuple(0 for _ in child.shape)] = POKE
                models.append(child)
                op["keep"] = True
        ops.append(op)
    out = dict(start=start, ops=ops, try_known=try_known)
    if draw(st.integers(0, 3)) == 0:
        out["debug_log"] = True  # (round 4) the root logger at DEBUG: the process environment must not matter
    return out


@st.composite
def _rejected_history(draw, tier):
    """a short history around one ill-formed request: [valid write] rejected request, valid write, valid read"""
    _, cap, _ = _caps(tier)
    start = draw(_start(tier))
    A = gen.dense_of_sparse_case(start)
    ops = []

    def valid(write):
        nonlocal A
        shape = list(A.shape)
        key = draw(_present_key(draw(_key(shape, write, None, tier, cap))))
        op = dict(op="w" if write else "r", key=key)
        if write:
            op["rhs"] = draw(_present_rhs(draw(_rhs(shape, key, start["vkind"])), start["vkind"]))
            A = M.model_write(A, key, op["rhs"])
        ops.append(op)

    if draw(st.booleans()):
        valid(True)
    for _ in range(draw(st.integers(1, 2))):
        ops.append(draw(_bad_op(list(A.shape), tier, cap)))
    valid(True)
    valid(False)
    return dict(start=start, ops=ops, try_known=True)


# --------------------------------------------------------------------------
# cells: histories
# --------------------------------------------------------------------------


def _run_history(ctx, case):
    if case.get("debug_log"):
        import logging
        root = logging.getLogger()
        level = root.level
        ctx.label("root-logger-DEBUG")
        root.setLevel(logging.DEBUG)
        try:
            return _run_history_body(ctx, case)
        finally:
            root.setLevel(level)
    return _run_history_body(ctx, case)


def _run_history_body(ctx, case):
    start = case["start"]
    ctx.label(f"order{len(start['shape'])}", "pattern-" + start["pattern"], "stored-" + start["order"])
    st_ = State(start)
    _label_start(ctx, start, st_, ("T", "S"))
    if len(start["shape"]):
        for X, h in ((st_.X["T"], "T"), (st_.X["S"], "S")):
            check_write(ctx, f"{h}.start", X, h, st_.A, st_.ez)
    else:
        ctx.label("empty-start")
    fams = [st_]  # the source and every kept read result, each with its own model
    nsteps = 0
    forked_writes = 0
    for op in case["ops"]:
        j = op.get("on", 0)
        cur = fams[j]
        if not (cur.alive["T"] or cur.alive["S"]):
            if j == 0:
                break
            if op.get("keep"):
                fams.append(State.of_read(cur, np.zeros((1,))))  # keeps the numbering; never alive
                fams[-1].alive = {"T": False, "S": False}
            continue
        step(ctx, cur, op, try_known=case["try_known"])
        nsteps += 1
        if op.get("keep"):
            region = M.model_read(cur.A, op["key"])[1]
            child = np.array(region, dtype=float)
            child[tuple(0 for _ in child.shape)] = POKE
            fams.append(State.of_read(cur, child))
            ctx.label("kept-read-result")
            if fams[-1].alive["T"] != fams[-1].alive["S"]:
                ctx.label("kept-read-result-one-holder-only")
        if op["op"] in ("w", "x") and len(fams) > 1:
            # every other live object must still denote its own model (also after a rejected request)
            live_others = 0
            for i, f in enumerate(fams):
                if i == j:
                    continue
                for h in ("T", "S"):
                    if f.alive[h]:
                        live_others += 1
                        verb = "write-to" if op["op"] == "w" else "rejected-request-to"
                        if not check_write(ctx, f"{h}.{f.role}-after-{verb}-{cur.role}", f.X[h], h, f.A, f.ez):
                            f.alive[h] = False
            if live_others and op["op"] == "x":
                ctx.label("rejected-request-with-other-objects-alive")
            elif live_others:
                forked_writes += 1
                ctx.label(f"write-to-{cur.role}-with-other-objects-alive")
    # right-hand-side objects handed over earlier still denote what their owner left in them
    for f in fams:
        for h, R, expect in f.kept_rhs:
            got = _snapshot(R)
            ctx.check(ref.same_exact(got.reshape(-1, order="F"), expect.reshape(-1, order="F")),
                      f"{h}.right-hand-side-after-later-writes", ref.diff_info(got.reshape(-1, order="F"), expect.reshape(-1, order="F")))
    # (few labels here: the evidence keeps the 40 most frequent ones and the excluded:/exercised: counts matter most)
    ctx.label("steps<10" if nsteps < 10 else ("steps-10..29" if nsteps < 30 else "steps>=30"))
    if len(fams) > 1:
        ctx.label(f"objects-{len(fams)}")
        ctx.nt = forked_writes >= 1
    else:
        ctx.nt = st_.nt


@cell("C04/history/clean", strategy=lambda tier: _history(tier, False), quick=450, thorough=16000, shards=(8, 16))
def history_clean(ctx, case):
    """known classes excluded by construction (equivalent documented form for the affected object)"""
    _run_history(ctx, case)


@cell("C04/history/raw", strategy=lambda tier: _history(tier, True), quick=250, thorough=5000, shards=(4, 16))
def history_raw(ctx, case):
    """known classes exercised in their natural form on a snapshot; the history goes on behind them"""
    _run_history(ctx, case)


@cell("C04/history/rejected", strategy=_rejected_history, quick=300, thorough=3000, shards=(4, 16))
def history_rejected(ctx, case):
    """(round 4) ill-formed requests between valid ones: each must raise and leave the tensor (and the operands handed
    in) as they were - shape, stored entries, well-formedness - and the valid steps that follow agree with the model
    as if the rejected request had not happened"""
    _run_history(ctx, case)
    ctx.nt = True


@cell("C04/history/forked", strategy=lambda tier: _history(tier, False, fork=True), quick=260, thorough=8000,
      shards=(4, 16))
def history_forked(ctx, case):
    """(round 3) several live objects: region reads return tensors that are kept alive and assigned to like any other
    tensor while the source is assigned to as well; after every write every other object is judged against its own
    model (known classes excluded by construction)"""
    _run_history(ctx, case)


# --------------------------------------------------------------------------
# cells: single operations per (class, key form)
# --------------------------------------------------------------------------


def _run_single(ctx, case, holder: str):
    start, op = case["start"], case["op"]
    shape = start["shape"]
    ctx.label(*gen.shape_classes(shape), "pattern-" + start["pattern"])
    if len(shape) == 0:
        ctx.label("empty-start")
    if holder == "S":
        ctx.label("stored-" + start["order"])
    st_ = State(start)
    _label_start(ctx, start, st_, (holder,))
    A0 = st_.A
    npos = len(M.positions(shape, op["key"], write=op["op"] == "w"))
    step(ctx, st_, op, holders=(holder,), try_known=True)
    if op["op"] == "w":
        ctx.nt = st_.A.shape != A0.shape or not np.array_equal(st_.A, A0)
    else:
        ctx.nt = A0.size >= 2 and (npos >= 2 or _form(op["key"]) == "full")
        # the result of the read stays alive while the source is assigned to
        reverse_alias_check(ctx, st_, holder, op["key"])
    if op["key"]["f"] == "tuple":
        kinds = sorted({M.elem_kind(e) for e in op["key"]["k"]})
        ctx.label("elems-" + "/".join(kinds), f"lists-{M.n_lists(op['key'])}")
        if op["key"].get("np"):
            ctx.label("numpy-int-subscripts")
        if any(M.is_int(e) and e < 0 for e in op["key"]["k"]):
            ctx.label("negative-int")
    elif op["key"]["f"] != "subs":
        ctx.label(op["key"]["f"])


def _mk_single(holder_name: str, holder: str, opk: str, form: str, quick: int, thorough: int):
    opname = "write" if opk == "w" else "read"

    @cell(f"C04/{opname}/{holder_name}/{form}", strategy=lambda tier: _single(tier, opk, form), quick=quick,
          thorough=thorough, shards=(1, 4))
    def body(ctx, case):
        _run_single(ctx, case, holder)

    body.__name__ = f"{opname}_{holder_name}_{form}"
    return body


for _hn, _h in (("tensor", "T"), ("sptensor", "S")):
    for _opk in ("r", "w"):
        for _form_, _q, _t in (("full", 200, 3000), ("region", 500, 12000), ("subs", 350, 8000),
                               ("linear", 300, 6000)):
            if _h == "S" and _opk == "w" and _form_ == "linear":
                continue  # documented as unsupported
            _mk_single(_hn, _h, _opk, _form_, _q, _t)


# --------------------------------------------------------------------------
# cell: enumerated region keys on fixed small shapes
# --------------------------------------------------------------------------


def _alphabet(n: int, write: bool):
    out: List[Any] = list(range(n)) + [-1] + ([-n] if n > 1 else [])
    out += [dict(s=[None, None]), dict(s=[0, 1])]
    if n > 1:
        out += [dict(s=[1, None]), dict(s=[None, n - 1]), dict(s=[1, n])]
    # general slices: stepped, reversed, negative bounds (within the present extent)
    out += [dict(s=[None, None, 2]), dict(s=[None, None, -1])]
    if n > 1:
        out += [dict(s=[1, None, 2]), dict(s=[n - 1, 0, -1]), dict(s=[-n, -1]), dict(s=[-1, None])]
    if n > 2:
        out += [dict(s=[-1, None, -2])]
    out += [dict(l=[0]), dict(a=[n - 1])]
    if n > 1:
        out += [dict(l=[n - 1, 0]), dict(a=[0, n - 1])]
    if n > 2:
        out += [dict(l=[1, 2, 0])]
    if write:
        out += [n, dict(s=[None, n + 1]), dict(l=[n, 0]), dict(s=[n % 2, n + 1, 2])]
        # (round 3) elements that select nothing
        out += [dict(s=[None, 0]), dict(s=[n, None])]
    return out


def _enum_keys(tier):
    shapes = [(2,), (1, 2), (2, 3), (3, 1, 2)]
    if tier == "thorough":
        shapes += [(2, 2, 2), (1, 1), (3, 2, 3), (2, 1, 2, 2)]
    for sh in shapes:
        for opk in ("r", "w0", "w1"):
            alph = [_alphabet(n, opk != "r") for n in sh]
            for k in itertools.product(*alph):
                if opk != "r" and any(_is_empty_slice(e, n) for e, n in zip(k, sh) if not M.is_int(e)) and (
                        M.grown_shape(sh, dict(f="tuple", k=list(k))) != list(sh)):
                    continue  # an empty request is never combined with growth (nothing is assigned beyond the extent)
                for holder in ("T", "S"):
                    yield dict(shape=list(sh), key=dict(f="tuple", k=list(k)), op=opk, holder=holder)
                    if opk == "r":
                        # the same read where the region holds at most one / no stored nonzero
                        for fill in ("one", "none"):
                            yield dict(shape=list(sh), key=dict(f="tuple", k=list(k)), op=opk, holder=holder, fill=fill)


def _enum_start(shape, fill=None):
    n = ref.prod(shape)
    data = [float(((i * 5) % 7) - 2) for i in range(n)]  # contains zeros (from 7 cells on), repeated and negative values
    if fill == "one":
        data = [3.0 if i == n - 1 else 0.0 for i in range(n)]
    elif fill == "none":
        data = [0.0] * n
    A = gen.arr_F(shape, data)
    sc = gen.sparse_case_from_dense(A)
    sc["subs"], sc["vals"] = sc["subs"][::-1], sc["vals"][::-1]  # stored in reverse F order
    sc.update(vkind="int", pattern="some", order="reverse")
    return sc


@cell("C04/enumerated/region-keys", enum=_enum_keys, shards=(8, 16))
def enumerated_region_keys(ctx, case):
    """every region key over a per-mode alphabet (ints incl. negative, slices with/without bounds, lists, growth
    elements for writes) x {read, write 0, write 7.0} x {tensor, sptensor} on fixed shapes"""
    start = _enum_start(case["shape"], case.get("fill"))
    st_ = State(start)
    ctx.label("fill-" + (case.get("fill") or "some"))
    opk = case["op"]
    op = dict(op="r" if opk == "r" else "w", key=case["key"])
    if opk != "r":
        op["rhs"] = dict(r="scalar", v=0.0 if opk == "w0" else 7.0, int=False)
    A0 = st_.A
    step(ctx, st_, op, holders=(case["holder"],), try_known=True)
    ctx.nt = True if opk == "r" else (st_.A.shape != A0.shape or not np.array_equal(st_.A, A0))
    if opk == "r" and case.get("fill") is None:
        reverse_alias_check(ctx, st_, case["holder"], case["key"])
    if opk != "r" and not M.positions(case["shape"], case["key"]):
        ctx.label("empty-request")
        return  # (an empty region cannot be read back: sptensor has no zero-extent result)
    if opk != "r" and st_.alive[case["holder"]]:
        # read back what was written, through the same key
        step(ctx, st_, dict(op="r", key=_no_growth_key(case["key"])), holders=(case["holder"],), try_known=True)


def _no_growth_key(key):
    """The write key is valid as a read key after the write (extent now covers it)."""
    return key


# --------------------------------------------------------------------------
# predicates for known_findings/C04.json (pure functions of the case; no pyttb call)
# --------------------------------------------------------------------------


def _possible_tags(shape, A, op, stored_subs=None, grew=False) -> set:
    """Superset of the tags the operation can carry in this model state (exact when stored_subs is given)."""
    key, rhs = op["key"], op.get("rhs")
    opn = "write" if op["op"] == "w" else "read"
    out = set(M.dense_tags(opn, shape, key, rhs))
    k, r = (M.as_subs(shape, key, rhs) if (rhs is not None and key["f"].startswith("lin")) else (key, rhs))
    nz = np.argwhere(A != 0)
    if stored_subs is not None:
        subs = np.array(stored_subs, dtype=int).reshape(len(stored_subs), len(shape)) if len(stored_subs) else np.array([])
        out |= set(M.sparse_tags(opn, shape, k, r, subs, None))
    else:
        # stored order unknown: put the nonzeros in an order for which no deletion is "lucky"
        subs = nz[::-1] if len(nz) else np.array([])
        tags = set(M.sparse_tags(opn, shape, k, r, subs, None))
        if opn == "write" and k["f"] == "subs" and len(nz) and k["rows"]:
            vals = M.rhs_values(r, len(k["rows"]))
            if (vals == 0).all() and len(k["rows"][0]) == len(shape) and any(A[tuple(row)] != 0 for row in k["rows"]
                                                                               if all(i < n for i, n in zip(row, shape))):
                tags.add("subs-delete")
        out |= tags
        if opn == "write" and grew and k["f"] == "tuple" and r["r"] == "array" and any(
                M.is_int(e) and e < 0 for e in k["k"]):
            out.add("sprhs-npint")
    return out


def _case_tags(case) -> set:
    if "ops" in case:  # history
        A = gen.dense_of_sparse_case(case["start"])
        out = set()
        grew = False
        for op in case["ops"]:
            if op["op"] == "x":
                continue
            out |= _possible_tags(list(A.shape), A, op, None, grew)
            if op["op"] == "w":
                B = M.model_write(A, op["key"], op["rhs"])
                grew = grew or B.shape != A.shape
                A = B
        return out
    if "start" in case:  # single operation
        A = gen.dense_of_sparse_case(case["start"])
        return _possible_tags(list(A.shape), A, case["op"], case["start"]["subs"])
    # enumerated
    start = _enum_start(case["shape"], case.get("fill"))
    A = gen.dense_of_sparse_case(start)
    op = dict(op="r" if case["op"] == "r" else "w", key=case["key"])
    if case["op"] != "r":
        op["rhs"] = dict(r="scalar", v=0.0 if case["op"] == "w0" else 7.0, int=False)
    out = _possible_tags(list(A.shape), A, op, start["subs"])
    if case["op"] != "r":
        B = M.model_write(A, op["key"], op["rhs"])
        out |= _possible_tags(list(B.shape), B, dict(op="r", key=case["key"]), None)
    return out


def _has(tag):
    return lambda case: tag in _case_tags(case)


PREDICATES = {("has_" + t.replace("-", "_")): _has(t) for t in KNOWN_TAGS}


def _all_ops(case):
    return list(case.get("ops") or []) + ([case["op"]] if isinstance(case.get("op"), dict) else [])


def _has_rejected(*kinds):
    return lambda case: any(o.get("op") == "x" and o.get("kind") in kinds and o.get("rw") == "w" for o in _all_ops(case))


PREDICATES["has_rejected_dense_growth"] = _has_rejected(*_T_GROW_KINDS)
PREDICATES["has_rejected_sparse_order_growth"] = _has_rejected("subs-count", "subs-orient")
PREDICATES["has_rejected_sparse_region_value"] = _has_rejected("region-badvalue")
PREDICATES["has_rejected_neg_oob_region"] = _has_rejected("region-neg-oob")
PREDICATES["has_np_scalar_rhs"] = lambda case: any((o.get("rhs") or {}).get("nps") for o in _all_ops(case))
PREDICATES["has_uint64_subs"] = lambda case: any(
    o.get("op") == "w" and o["key"].get("dt") == "uint64" and o["key"]["f"] in ("subs", "lin", "linlist", "linarr", "linslice")
    for o in _all_ops(case))
PREDICATES["has_unsigned_key_growth"] = lambda case: any(
    o.get("op") == "w" and o["key"]["f"] == "tuple" and o["key"].get("dt") in ("uint8", "uint16", "uint64") for o in _all_ops(case))
PREDICATES["has_dense_list_key"] = lambda case: bool({"lists-paired", "adv-split"} & _case_tags(case))


# --------------------------------------------------------------------------
# (round 3) sparse tensors with modes longer than 2**53: indices must stay exact integers
# --------------------------------------------------------------------------
# A sparse tensor holds only its stored entries, so a mode may be far longer than any array: here 2**53 + k and
# 2**60 + k, where float64 no longer represents every integer.  Model: a python dict {subscript tuple: value} and a
# python list for the shape (exact integer arithmetic, no dense counterpart).  Only key forms whose cost does not
# depend on the mode length are used (full subscripts, regions of ints / short index lists, subscript arrays): slices
# over such a mode are left out on purpose (pyttb materialises them; that would exhaust the machine, not the check).
#
# Two classes break on the unchanged tree and are carried as tags (known findings C04-H1 / C04-H2); they are tried on
# a copy and the object itself is then driven through the equivalent subscript-array form, which is exact:
#   huge-renumber   a region / full-subscript *read* that selects at least one stored entry
#   huge-float-subs a region / full-subscript *write* of a non-zero scalar (the new subscripts pass through float64)

_HUGE = [2 ** 53 + 5, 2 ** 53 + 2 ** 20 + 1, 2 ** 60 + 3, 2 ** 62 + 1]


@st.composite
def _huge_index(draw, n, grow=0):
    picks = [0, n - 1, n - 2, n // 2, n // 2 + 1, 1, 2]
    if n > 2 ** 53:
        picks += [2 ** 53 + 1, 2 ** 53 + 3, 2 ** 53, 2 ** 53 + 2, n - 1, n - 2]
    i = draw(st.sampled_from(picks))
    if grow and draw(st.integers(0, 3)) == 0:
        i = n - 1 + draw(st.integers(1, grow))
    return int(max(0, i))


@st.composite
def _huge_history(draw, tier):
    N = draw(st.integers(1, 3))
    shape = [draw(st.sampled_from([2, 3, 5])) for _ in range(N)]
    for m in draw(st.lists(st.integers(0, N - 1), min_size=1, max_size=2, unique=True)):
        shape[m] = draw(st.sampled_from(_HUGE))
    entries = []
    for _ in range(draw(st.integers(0, 4))):
        sub = [draw(_huge_index(n)) for n in shape]
        sub = [min(s, n - 1) for s, n in zip(sub, shape)]
        if sub not in [e[0] for e in entries]:
            entries.append([sub, draw(gen.NZ_INT_VALUES)])
    cur = list(shape)
    ops = []
    known = [list(e[0]) for e in entries]
    for _ in range(draw(st.integers(2, 6))):
        kind = draw(st.sampled_from(["wfull", "wfull", "wsubs", "wregion", "wregion", "rsubs", "rfull", "rregion"]))
        write = kind.startswith("w")
        def pos(grow):
            if known and draw(st.booleans()):
                base = list(draw(st.sampled_from(known)))
                if draw(st.booleans()):  # a neighbour of a stored position (one off in one mode)
                    m = draw(st.integers(0, N - 1))
                    base[m] = max(0, min(cur[m] - 1, base[m] + draw(st.sampled_from([-1, 1]))))
                return base
            return [draw(_huge_index(n, grow)) if grow else min(draw(_huge_index(n)), n - 1) for n in cur]
        if kind in ("wfull", "rfull"):
            p = pos(3 if write else 0)
            op = dict(op=kind, sub=p)
            if not write and draw(st.integers(0, 3)) == 0:
                op["neg"] = draw(st.integers(0, N - 1))  # this component is spelled counting from the end
        elif kind in ("wsubs", "rsubs"):
            rows = []
            for _ in range(draw(st.integers(1, 3))):
                p = pos(2 if write else 0)
                if p not in rows:
                    rows.append(p)
            op = dict(op=kind, rows=rows)
        else:
            key = []
            for m, n in enumerate(cur):
                if draw(st.booleans()):
                    key.append(pos(0)[m])
                else:
                    k = draw(st.integers(1, 3))
                    lst = []
                    for _ in range(k):
                        i = pos(0)[m]
                        if i not in lst:
                            lst.append(i)
                    key.append(dict(l=lst) if draw(st.booleans()) else dict(a=lst))
            op = dict(op=kind, key=key)
        if write:
            zero = draw(st.integers(0, 2)) == 0
            if kind == "wsubs" and not zero and draw(st.booleans()):
                op["vals"] = [draw(gen.INT_VALUES) for _ in op["rows"]]
            else:
                op["v"] = 0.0 if zero else draw(gen.NZ_INT_VALUES)
            # track shape and (possibly) stored positions
            addressed = _huge_positions(op)
            for p in addressed:
                for m, i in enumerate(p):
                    cur[m] = max(cur[m], i + 1)
                if p not in known:
                    known.append(p)
        ops.append(op)
    return dict(shape=shape, entries=entries, ops=ops)


def _huge_positions(op):
    if "sub" in op:
        return [list(op["sub"])]
    if "rows" in op:
        return [list(r) for r in op["rows"]]
    idx = [[e] if M.is_int(e) else list(M.elem_list(e)) for e in op["key"]]
    return [list(p) for p in itertools.product(*idx)]


def _huge_entries(S):
    if S.subs.size == 0:
        return {}
    return {tuple(int(i) for i in r): float(v) for r, v in zip(np.asarray(S.subs), np.asarray(S.vals).reshape(-1))}


def _huge_state_ok(ctx, what, S, model, shape):
    ok = ctx.check([int(n) for n in S.shape] == list(shape), f"{what}:shape", f"{tuple(S.shape)} vs {shape}")
    if S.subs.size:
        ok = ctx.check(np.issubdtype(np.asarray(S.subs).dtype, np.integer), f"{what}:wellformed(subs-dtype)", str(S.subs.dtype)) and ok
        if not ok:
            return False
        got = _huge_entries(S)
        ok = ctx.check(len(got) == S.subs.shape[0], f"{what}:wellformed(duplicate-subscripts)") and ok
        ok = ctx.check(all(0 <= i < n for k in got for i, n in zip(k, [int(x) for x in S.shape])),
                       f"{what}:wellformed(subs-out-of-shape)", sorted(got)[:3]) and ok
    else:
        got = {}
    want = {k: v for k, v in model.items() if v != 0}
    return ctx.check({k: v for k, v in got.items() if v != 0} == want and all(k in model or v != 0 for k, v in got.items()),
                     f"{what}:values", f"got {sorted(got.items())[:4]} want {sorted(want.items())[:4]}") and ok


def _huge_tags(op, model):
    if op["op"] in ("rfull", "rregion"):
        return ["huge-renumber"] if any(tuple(p) in model and model[tuple(p)] != 0 for p in _huge_positions(op)) else []
    if op["op"] in ("wfull", "wregion") and op.get("v", 0.0) != 0:
        return ["huge-float-subs"]
    return []


def _huge_py_key(op, shape):
    if "sub" in op:
        k = [int(i) for i in op["sub"]]
        if op.get("neg") is not None:
            k[op["neg"]] = k[op["neg"]] - int(shape[op["neg"]])
        return tuple(k)
    if "rows" in op:
        return np.array(op["rows"], dtype=np.int64).reshape(len(op["rows"]), len(op["rows"][0]))
    return tuple(int(e) if M.is_int(e) else ([int(i) for i in e["l"]] if "l" in e else np.array(e["a"], dtype=np.int64))
                 for e in op["key"])


@cell("C04/huge-modes/sptensor", strategy=_huge_history, quick=200, thorough=5000, shards=(2, 8))
def huge_modes_sptensor(ctx, case):
    shape = [int(n) for n in case["shape"]]
    N = len(shape)
    model = {tuple(e[0]): float(e[1]) for e in case["entries"]}
    if model:
        S = ttb.sptensor(np.array([list(k) for k in model], dtype=np.int64).reshape(len(model), N),
                         np.array(list(model.values()), dtype=float).reshape(-1, 1), tuple(shape))
    else:
        S = ttb.sptensor(shape=tuple(shape))
    ctx.label(f"order{N}", f"start-nnz{min(len(model), 3)}", "mode>=2^60" if max(shape) >= 2 ** 60 else "mode>2^53")
    _huge_state_ok(ctx, "S.start", S, model, shape)
    ctx.nt = False
    for op in case["ops"]:
        kind = op["op"]
        tags = _huge_tags(op, model)
        what = {"wfull": "S.write-full", "wsubs": "S.write-subs", "wregion": "S.write-region", "rfull": "S.read-full",
                "rsubs": "S.read-subs", "rregion": "S.read-region"}[kind] + _suffix(tags)
        ctx.label(kind, *[f"exercised:{t}" for t in tags])
        pos = _huge_positions(op)
        if kind.startswith("w"):
            vals = op["vals"] if "vals" in op else [op["v"]] * len(pos)
            new_shape = list(shape) + [1] * 0
            for p in pos:
                for m, i in enumerate(p):
                    new_shape[m] = max(new_shape[m], i + 1)
            new_model = dict(model)
            for p, v in zip(pos, vals):
                if v == 0:
                    new_model.pop(tuple(p), None)
                else:
                    new_model[tuple(p)] = float(v)
            if new_shape != shape:
                ctx.label("grow-extent")
            if any(i > 2 ** 53 and i % 2 for p in pos for i in p):
                ctx.label("subscript-not-a-float64")
                ctx.nt = True
            rhs = (np.array(op["vals"], dtype=float).reshape(-1, 1) if "vals" in op else float(op["v"]))
            if tags:
                # known class: the natural form on a copy, then the exact equivalent on the object itself
                C = S.copy()
                if _guard(ctx, what, lambda: C.__setitem__(_huge_py_key(op, shape), rhs)):
                    _huge_state_ok(ctx, what, C, new_model, new_shape)
                eq = np.array(pos, dtype=np.int64).reshape(len(pos), N)
                if not _guard(ctx, "S.write-subs(equivalent)", lambda: S.__setitem__(eq, float(op["v"]))):
                    return
                if not _huge_state_ok(ctx, "S.write-subs(equivalent)", S, new_model, new_shape):
                    return
            else:
                if not _guard(ctx, what, lambda: S.__setitem__(_huge_py_key(op, shape), rhs)):
                    return
                if not _huge_state_ok(ctx, what, S, new_model, new_shape):
                    return
            model, shape = new_model, new_shape
        else:
            got = []
            if _guard(ctx, what, lambda: got.append(S[_huge_py_key(op, shape)])):
                r = got[0]
                want = [model.get(tuple(p), 0.0) for p in pos]
                if kind == "rfull":
                    ok = ctx.check(_is_number(r), f"{what}:type", type(r).__name__)
                    if ok:
                        ctx.check(float(r) == want[0], f"{what}:values", f"{r!r} vs {want[0]!r}")
                elif kind == "rsubs":
                    v = None if isinstance(r, (ttb.tensor, ttb.sptensor)) else np.asarray(r, dtype=float).reshape(-1)
                    ctx.check(v is not None and v.size == len(want) and [float(x) for x in v] == want, f"{what}:values",
                              f"{r!r} vs {want}")
                else:
                    # region of ints / lists: a sparse tensor over the listed indices (or a scalar when all are ints)
                    lists = [None if M.is_int(e) else list(M.elem_list(e)) for e in op["key"]]
                    if all(x is None for x in lists):
                        ctx.check(_is_number(r) and float(r) == want[0], f"{what}:values", f"{r!r} vs {want[0]!r}")
                    elif ctx.check(isinstance(r, ttb.sptensor), f"{what}:type", type(r).__name__):
                        kept = [x for x in lists if x is not None]
                        ent = _huge_entries(r)
                        exp = {}
                        for p in pos:
                            v = model.get(tuple(p), 0.0)
                            if v != 0:
                                exp[tuple(x.index(i) for x, i in zip(kept, [i for i, l in zip(p, lists) if l is not None]))] = v
                        shapes_ok = [int(n) for n in r.shape] in ([len(x) for x in kept], [len(x) for x in kept if len(x) > 1])
                        ctx.check(shapes_ok, f"{what}:shape", tuple(r.shape))
                        if [int(n) for n in r.shape] == [len(x) for x in kept]:
                            ctx.check({k: v for k, v in ent.items() if v != 0} == exp, f"{what}:values", f"{ent} vs {exp}")
            _huge_state_ok(ctx, what + ":state-after-read", S, model, shape)


KNOWN_TAGS = KNOWN_TAGS + ("huge-renumber", "huge-float-subs")
PREDICATES["has_huge_renumber"] = lambda case: "ops" in case and "entries" in case and any(
    o["op"] in ("rfull", "rregion") for o in case["ops"])
PREDICATES["has_huge_float_subs"] = lambda case: "ops" in case and "entries" in case and any(
    o["op"] in ("wfull", "wregion") and o.get("v", 0.0) != 0 for o in case["ops"])
