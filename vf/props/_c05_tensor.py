"""C05 cells for pyttb.tensor."""

from __future__ import annotations

import numpy as np
from hypothesis import strategies as st

import pyttb as ttb

from .. import gen, ref
from . import _c05_reg as R
from ._c05_reg import op

T = R.CS.build_tensor


def dense(tier, **kw):
    return gen.dense_case(tier, **kw)


# --------------------------------------------------------------------------
# construction / copies
# --------------------------------------------------------------------------


@st.composite
def g_ctor(draw, tier):
    c = draw(dense(tier, min_order=1))
    c["layout"] = draw(st.sampled_from(["F", "C", "flat", "fview"]))
    c["shape_arg"] = draw(st.sampled_from(["none", "tuple", "array"]))
    c["copy_kw"] = draw(st.booleans())
    c["_present"] = R.d_present(draw, values=["data"], indices=["shape"])
    return c


@op("tensor/ctor-copy", g_ctor)
def _(ctx, c):
    A = gen.arr_F(c["shape"], c["data"])
    lay = c["layout"]
    if lay == "F":
        arr = np.asfortranarray(A)
    elif lay == "C":
        arr = np.ascontiguousarray(A)
    elif lay == "flat":
        arr = np.array(c["data"], dtype=float)
    else:  # an F-ordered view into a bigger buffer
        big = np.zeros(tuple(s + 1 for s in c["shape"]), order="F")
        arr = big[tuple(slice(0, s) for s in c["shape"])]
        arr[...] = A
    ctx.label("layout-" + lay)
    arr = R.presented(ctx, c, "data", arr)
    ops = {"data": arr}
    shape = None
    if c["shape_arg"] == "tuple" or lay == "flat":
        shape = tuple(c["shape"])
    elif c["shape_arg"] == "array":
        shape = R.presented(ctx, c, "shape", np.array(c["shape"]))
        ops["shape"] = shape
    kw = {"copy": True} if c["copy_kw"] else {}
    return ops, lambda: ttb.tensor(arr, shape, **kw)


_UNARY = {
    "copy": lambda X: X.copy(),
    "deepcopy": lambda X: R.deepcopy(X),
    "full": lambda X: X.full(),
    "double": lambda X: X.double(),
    "exp": lambda X: X.exp(),
    "find": lambda X: X.find(),
    "to_sptensor": lambda X: X.to_sptensor(),
    "squeeze": lambda X: X.squeeze(),
    "logical_not": lambda X: X.logical_not(),
    "pos": lambda X: +X,
    "neg": lambda X: -X,
    "norm": lambda X: X.norm(),
    "scalar-props": lambda X: (X.nnz, X.ndims, X.shape, X.order),
    "repr": lambda X: (repr(X), str(X)),
}


def _reg_unary(name, f):
    @op("tensor/" + name, lambda tier: dense(tier, min_order=1))
    def _(ctx, c, f=f):
        X = T(c)
        ctx.label(*gen.shape_classes(c["shape"]))
        return {"self": X}, lambda: f(X)


for _n, _f in _UNARY.items():
    _reg_unary(_n, _f)


# --------------------------------------------------------------------------
# collapse / contract / permute / reshape / squeeze / scale
# --------------------------------------------------------------------------


@st.composite
def g_collapse(draw, tier):
    c = draw(dense(tier, min_order=1))
    n = len(c["shape"])
    c["dims"] = draw(st.one_of(st.none(), gen.mode_subset(n, 0, n)))
    c["form"] = draw(st.sampled_from(["array", "list", "int"])) if c["dims"] is not None and len(c["dims"]) == 1 else \
        draw(st.sampled_from(["array", "list"]))
    c["fun"] = draw(st.sampled_from(["sum", "max"]))
    return c


@op("tensor/collapse", g_collapse)
def _(ctx, c):
    X = T(c)
    ops = {"self": X}
    fun = np.sum if c["fun"] == "sum" else np.max
    n = len(c["shape"])
    if c["dims"] is None:
        ctx.label("dims-none")
        return ops, lambda: X.collapse(fun=fun)
    ctx.label("dims-empty" if not c["dims"] else ("dims-all" if len(c["dims"]) == n else "dims-some"))
    d = np.array(c["dims"], dtype=int) if c["form"] == "array" or not c["dims"] else R.as_form(c["dims"], c["form"])
    ops["dims"] = d
    return ops, lambda: X.collapse(d, fun)


@st.composite
def g_contract(draw, tier):
    shape = draw(gen.shapes(tier, min_order=2))
    n = len(shape)
    i, j = sorted(draw(gen.mode_subset(n, 2, 2)))
    shape[j] = shape[i]
    c = R.d_dense_like(draw, shape, draw(st.sampled_from(["int", "float"])))
    if draw(st.booleans()):
        i, j = j, i
    c["i"], c["j"] = i, j
    return c


@op("tensor/contract", g_contract)
def _(ctx, c):
    X = T(c)
    ctx.label(f"order{len(c['shape'])}")
    return {"self": X}, lambda: X.contract(c["i"], c["j"])


@st.composite
def g_permute(draw, tier):
    c = draw(dense(tier, min_order=1))
    n = len(c["shape"])
    c["perm"] = list(range(n)) if draw(st.integers(0, 2)) == 0 else list(draw(st.permutations(range(n))))
    c["form"] = draw(st.sampled_from(["array", "array", "list", "tuple"]))
    return c


def perm_labels(ctx, c):
    p, sh = c["perm"], c["shape"]
    ident = p == sorted(p)
    # a transposition of an F-contiguous array is again F-contiguous when only singleton modes move
    nons = [m for m in p if sh[m] != 1]
    ctx.label("identity" if ident else ("moves-only-singletons" if nons == sorted(nons) else "moves-data"))


def _keeps_layout(c):
    nons = [m for m in c["perm"] if c["shape"][m] != 1]
    return nons == sorted(nons)


R.pred("permute_keeps_relative_order_of_non_singleton_modes")(_keeps_layout)
R.pred("other_is_sumtensor")(lambda c: c.get("okind") == "sumtensor")


@op("tensor/permute", g_permute, quick=80, thorough=2000)
def _(ctx, c):
    X = T(c)
    perm_labels(ctx, c)
    o = R.as_form(c["perm"], c["form"])
    return {"self": X, "order": o}, lambda: X.permute(o)


@st.composite
def g_reshape(draw, tier):
    c = draw(dense(tier, min_order=1))
    c["new"] = list(c["shape"]) if draw(st.integers(0, 2)) == 0 else R.target_shape(draw, ref.prod(c["shape"]))
    c["form"] = draw(st.sampled_from(["tuple", "array", "list"]))
    return c


@op("tensor/reshape", g_reshape, quick=80, thorough=2000)
def _(ctx, c):
    X = T(c)
    ctx.label("same-shape" if list(c["new"]) == list(c["shape"]) else "other-shape")
    s = R.as_form(c["new"], c["form"])
    return {"self": X, "shape": s}, lambda: X.reshape(s)


@st.composite
def g_scale(draw, tier):
    c = draw(dense(tier, min_order=1))
    n = len(c["shape"])
    dims = sorted(draw(gen.mode_subset(n, 1, n)))
    c["dims"] = dims
    c["form"] = draw(st.sampled_from(["array", "list"] + (["int"] if len(dims) == 1 else [])))
    fshape = [c["shape"][d] for d in dims]
    c["factor"] = R.d_vals(draw, ref.prod(fshape), c["vkind"])
    c["fkind"] = draw(st.sampled_from(["ndarray", "tensor"]))
    return c


@op("tensor/scale", g_scale)
def _(ctx, c):
    X = T(c)
    fshape = [c["shape"][d] for d in c["dims"]]
    F = R.CS.aux(c, gen.arr_F(fshape, c["factor"]).copy(order="F"))
    factor = F if c["fkind"] == "ndarray" else ttb.tensor(F.toarray() if hasattr(F, "toarray") else F, tuple(fshape))
    ctx.label("factor-" + c["fkind"], "all-dims" if len(c["dims"]) == len(c["shape"]) else "some-dims")
    d = R.as_form(c["dims"], c["form"])
    return {"self": X, "factor": factor, "dims": d}, lambda: X.scale(factor, d)


@st.composite
def g_mask(draw, tier):
    c = draw(dense(tier, min_order=1))
    n = ref.prod(c["shape"])
    c["w"] = draw(st.lists(st.sampled_from([0.0, 1.0]), min_size=n, max_size=n))
    whole = draw(st.sampled_from([None, None, None, 1.0, 0.0]))
    if whole is not None:
        c["w"] = [whole] * n  # every entry / no entry selected
    return c


@op("tensor/mask", g_mask)
def _(ctx, c):
    X = T(c)
    W = ttb.tensor(gen.arr_F(c["shape"], c["w"]).copy(order="F"), tuple(c["shape"]))
    return {"self": X, "W": W}, lambda: X.mask(W)


# --------------------------------------------------------------------------
# products
# --------------------------------------------------------------------------


@st.composite
def g_mttkrp(draw, tier):
    c = draw(dense(tier, min_order=2))
    r = draw(st.integers(1, 3))
    c["r"] = r
    c["n"] = draw(st.integers(0, len(c["shape"]) - 1))
    c["ukind"] = draw(st.sampled_from(["list", "ktensor", "ktensor-weights"]))
    c["U"] = R.d_mats(draw, c["shape"], [r] * len(c["shape"]), c["vkind"])
    c["w"] = R.d_vals(draw, r, c["vkind"])
    c["n_np"] = draw(st.booleans())
    return c


def build_U(c):
    mats = [R.mat(m, s, c["r"]) for m, s in zip(c["U"], c["shape"])]
    if c["ukind"] == "list":
        return R.CS.seq(c, [R.CS.aux(c, m) for m in mats])
    w = np.array(c["w"], dtype=float) if c["ukind"] == "ktensor-weights" else np.ones(c["r"])
    return ttb.ktensor(mats, w)


@op("tensor/mttkrp", g_mttkrp)
def _(ctx, c):
    X = T(c)
    U = build_U(c)
    n = np.int64(c["n"]) if c["n_np"] else c["n"]
    ctx.label("U-" + c["ukind"], "n-first" if c["n"] == 0 else ("n-last" if c["n"] == len(c["shape"]) - 1 else "n-mid"))
    return {"self": X, "U": U}, lambda: X.mttkrp(U, n)


@op("tensor/mttkrps", g_mttkrp)
def _(ctx, c):
    X = T(c)
    U = build_U(c)
    ctx.label("U-" + c["ukind"])
    return {"self": X, "U": U}, lambda: X.mttkrps(U)


@st.composite
def g_nvecs(draw, tier):
    c = draw(dense(tier, min_order=2))
    n = draw(st.integers(0, len(c["shape"]) - 1))
    c["n"] = n
    c["r"] = draw(st.integers(1, c["shape"][n]))
    c["flipsign"] = draw(st.booleans())
    c["np_seed"] = draw(R.SEED)
    return c


@op("tensor/nvecs", g_nvecs, quick=30)
def _(ctx, c):
    X = T(c)
    ctx.label("eigsh" if c["r"] < c["shape"][c["n"]] - 1 else "eigh")
    return {"self": X}, lambda: X.nvecs(c["n"], c["r"], flipsign=c["flipsign"])


@st.composite
def g_ttm(draw, tier):
    c = draw(dense(tier, min_order=1))
    n = len(c["shape"])
    c["transpose"] = draw(st.booleans())
    c["single"] = draw(st.booleans())
    if c["single"]:
        c["d"] = dict(how="dims", dims=[draw(st.integers(0, n - 1))], form=draw(st.sampled_from(["int", "array"])))
    else:
        c["d"] = R.d_dims(draw, n, allow_none=True)
    c["full"] = draw(st.booleans())
    newsz = [draw(st.integers(1, 3)) for _ in range(n)]
    c["newsz"] = newsz
    rows = [newsz[m] for m in range(n)]
    cols = list(c["shape"])
    if c["transpose"]:
        rows, cols = cols, rows
    c["mats"] = R.d_mats(draw, rows, cols, c["vkind"])
    c["identity"] = draw(st.integers(0, 3)) == 0
    return c


def ttm_args(ctx, c, shape):
    n = len(shape)
    rows = list(c["newsz"])
    cols = list(shape)
    if c["transpose"]:
        rows, cols = cols, rows
    per_mode = [R.mat(m, r, k, c) for m, r, k in zip(c["mats"], rows, cols)]
    if c["identity"]:
        per_mode = [np.eye(shape[m]) for m in range(n)]
    ops = {}
    kw = R.dims_kwargs(c["d"], ops)
    if c["single"]:
        M = per_mode[c["d"]["dims"][0]]
        ctx.label("single-matrix")
    else:
        M = R.CS.seq(c, R.multiplicands(c["d"], n, per_mode, c["full"]))
        ctx.label("matrix-list-" + c["d"]["how"], "multiplicands-in-" + type(M).__name__)
    ctx.label("identity-matrices" if c["identity"] else "generic-matrices", "transpose" if c["transpose"] else "plain")
    ops["matrix"] = M
    if c["transpose"]:
        kw["transpose"] = True
    return ops, M, kw


@op("tensor/ttm", g_ttm, quick=60)
def _(ctx, c):
    X = T(c)
    ops, M, kw = ttm_args(ctx, c, c["shape"])
    ops["self"] = X
    return ops, lambda: X.ttm(M, **kw)


@st.composite
def g_ttt(draw, tier):
    c = draw(dense(tier, min_order=1, max_order=3, max_cells=24))
    n = len(c["shape"])
    kind = draw(st.sampled_from(["outer", "some", "all", "same-object"]))
    c["kind"] = kind
    if kind == "outer":
        oshape = draw(gen.shapes(tier, min_order=1, max_order=2, max_cells=8))
        c["sd"], c["od"] = None, None
    elif kind in ("all", "same-object"):
        oshape = list(c["shape"])
        c["sd"] = list(range(n))
        c["od"] = list(draw(st.permutations(range(n)))) if kind == "all" and len(set(c["shape"])) == 1 else list(range(n))
    else:
        sd = draw(gen.mode_subset(n, 1, n))
        extra = draw(gen.shapes(tier, min_order=0 if False else 1, max_order=2, max_cells=6))
        oshape = [c["shape"][m] for m in sd] + extra
        pos = list(draw(st.permutations(range(len(oshape)))))
        # other's mode pos[i] holds oshape[i]
        osh = [0] * len(oshape)
        for i, p in enumerate(pos):
            osh[p] = oshape[i]
        c["sd"], c["od"] = sd, [pos[i] for i in range(len(sd))]
        oshape = osh
    c["other"] = R.d_dense_like(draw, oshape, c["vkind"])
    c["form"] = draw(st.sampled_from(["array", "int"])) if c["sd"] is not None and len(c["sd"]) == 1 else "array"
    c["od_given"] = draw(st.booleans())
    return c


@op("tensor/ttt", g_ttt)
def _(ctx, c):
    X = T(c)
    Y = X if c["kind"] == "same-object" else T(c["other"])
    ctx.label("ttt-" + c["kind"])
    ops = {"self": X, "other": Y}
    if c["sd"] is None:
        return ops, lambda: X.ttt(Y)
    sd = R.as_form(c["sd"], c["form"])
    ops["selfdims"] = sd
    if c["od_given"] or c["od"] != c["sd"]:
        od = R.as_form(c["od"], c["form"])
        ops["otherdims"] = od
        return ops, lambda: X.ttt(Y, sd, od)
    return ops, lambda: X.ttt(Y, sd)


@st.composite
def g_ttv(draw, tier):
    c = draw(dense(tier, min_order=1))
    n = len(c["shape"])
    c["single"] = draw(st.booleans())
    if c["single"]:
        c["d"] = dict(how="dims", dims=[draw(st.integers(0, n - 1))], form=draw(st.sampled_from(["int", "array"])))
    else:
        c["d"] = R.d_dims(draw, n, allow_none=True)
    c["full"] = draw(st.booleans())
    c["vecs"] = R.d_vecs(draw, c["shape"], c["vkind"])
    return c


def ttv_args(ctx, c, shape):
    n = len(shape)
    per_mode = [R.CS.aux(c, np.array(v, dtype=float)) for v in c["vecs"]]
    ops = {}
    kw = R.dims_kwargs(c["d"], ops)
    if c["single"]:
        V = per_mode[c["d"]["dims"][0]]
        ctx.label("single-vector")
    else:
        V = R.CS.seq(c, R.multiplicands(c["d"], n, per_mode, c["full"]))
        ctx.label("vector-list-" + c["d"]["how"], "multiplicands-in-" + type(V).__name__)
    used = R.dims_used(c["d"], n)
    if all(sorted(v) == [0.0] * (len(v) - 1) + [1.0] for v in c["vecs"]):
        ctx.label("unit-vectors")
    ctx.label("all-modes" if len(used) == n else ("one-mode" if len(used) == 1 else "some-modes"))
    ops["vector"] = V
    return ops, V, kw


@op("tensor/ttv", g_ttv, quick=60)
def _(ctx, c):
    X = T(c)
    ops, V, kw = ttv_args(ctx, c, c["shape"])
    ops["self"] = X
    return ops, lambda: X.ttv(V, **kw)


@st.composite
def g_ttsv(draw, tier):
    n = draw(st.integers(1, 4))
    s = draw(st.integers(1, 3 if n > 2 else 4))
    c = R.d_dense_like(draw, [s] * n, draw(st.sampled_from(["int", "float"])))
    c["v"] = R.d_vals(draw, s, c["vkind"])
    c["skip"] = draw(st.one_of(st.none(), st.integers(0, n - 1)))
    c["version"] = draw(st.sampled_from([None, 1, 2]))
    c["form"] = draw(st.sampled_from(["array", "list", "column"]))
    return c


@op("tensor/ttsv", g_ttsv)
def _(ctx, c):
    X = T(c)
    v = R.CS.aux(c, np.array(c["v"], dtype=float))
    if c["form"] == "list":
        v = [float(x) for x in c["v"]]
    elif c["form"] == "column":
        v = v.reshape(-1, 1)
    ctx.label(f"version-{c['version']}", "skip-none" if c["skip"] is None else f"skip-{min(c['skip'], 2)}")
    return {"self": X, "vector": v}, lambda: X.ttsv(v, skip_dim=c["skip"], version=c["version"])


# --------------------------------------------------------------------------
# tenfun
# --------------------------------------------------------------------------

_BIN = {
    "add": lambda x, y: x + y,
    "first": lambda x, y: x,  # pass-through handles: legal, and the result must still be independent
    "second": lambda x, y: y,
    "maximum": lambda x, y: np.maximum(x, y),
}
_UN = {
    "plus1": lambda x: x + 1,
    "identity": lambda x: x,
    "real": lambda x: np.real(x),
    "abs": lambda x: np.abs(x),
}
_UNN = {
    "max0": lambda x: np.max(x, axis=0),
    "row0": lambda x: x[0, :],
}


@st.composite
def g_tenfun(draw, tier):
    c = draw(dense(tier, min_order=1))
    mode = draw(st.sampled_from(["binary", "binary", "unary", "unary", "unary-multi"]))
    c["mode"] = mode
    if mode == "binary":
        c["f"] = draw(st.sampled_from(sorted(_BIN)))
        c["okind"] = draw(st.sampled_from(["tensor", "scalar", "ndarray", "sptensor", "ktensor", "same-object"]))
        if c["okind"] in ("tensor", "ndarray"):
            c["other"] = R.d_dense_like(draw, c["shape"], c["vkind"])
        elif c["okind"] in ("sptensor", "ktensor"):
            c["other"] = R.d_other(draw, c["okind"], c["shape"], c["vkind"])
        elif c["okind"] == "scalar":
            c["other"] = draw(st.sampled_from([0, 2, -1.5]))
        c["via"] = draw(st.sampled_from(["tenfun", "tenfun_binary", "tenfun_binary_second"]))
    elif mode == "unary":
        c["f"] = draw(st.sampled_from(sorted(_UN)))
        c["via"] = draw(st.sampled_from(["tenfun", "tenfun_unary"]))
    else:
        c["f"] = draw(st.sampled_from(sorted(_UNN)))
        k = draw(st.integers(1, 2))
        c["others"] = [R.d_dense_like(draw, c["shape"], c["vkind"]) for _ in range(k)]
        c["okinds"] = [draw(st.sampled_from(["tensor", "ndarray"])) for _ in range(k)]
        c["via"] = draw(st.sampled_from(["tenfun", "tenfun_unary"]))
    return c


R.pred("tenfun_passthrough")(lambda c: c.get("f") in ("first", "second", "identity", "real"))


@op("tensor/tenfun", g_tenfun, quick=120, thorough=2500)
def _(ctx, c):
    X = T(c)
    ops = {"self": X}
    ctx.label(c["mode"], "f-" + c["f"], "via-" + c["via"])
    if c["mode"] == "binary":
        f = _BIN[c["f"]]
        k = c["okind"]
        ctx.label("other-" + k)
        if k == "same-object":
            Y = X
        elif k == "scalar":
            Y = c["other"]
        elif k == "ndarray":
            Y = gen.arr_F(c["shape"], c["other"]["data"]).copy(order="F")
        else:
            Y = R.other_of(k, c["other"])
        ops["other"] = Y
        if c["via"] == "tenfun" or k in ("ndarray", "sptensor", "ktensor"):
            return ops, lambda: X.tenfun(f, Y)
        first = c["via"] == "tenfun_binary"
        return ops, lambda: X.tenfun_binary(f, Y, first)
    if c["mode"] == "unary":
        f = _UN[c["f"]]
        if c["via"] == "tenfun":
            return ops, lambda: X.tenfun(f)
        return ops, lambda: X.tenfun_unary(f)
    f = _UNN[c["f"]]
    others = []
    for i, (oc, k) in enumerate(zip(c["others"], c["okinds"])):
        A = gen.arr_F(c["shape"], oc["data"]).copy(order="F")
        o = A if (k == "ndarray" and c["via"] == "tenfun") else ttb.tensor(A, tuple(c["shape"]))
        others.append(o)
        ops[f"input{i}"] = o
    if c["via"] == "tenfun":
        return ops, lambda: X.tenfun(f, *others)
    return ops, lambda: X.tenfun_unary(f, *others)


# --------------------------------------------------------------------------
# conversions with parameters
# --------------------------------------------------------------------------


@st.composite
def g_partition(draw, n):
    mode = draw(st.sampled_from(["both", "rdims", "cdims", "cyclic"]))
    if mode == "cyclic" and n >= 1:
        return dict(mode="cyclic", rdims=[draw(st.integers(0, n - 1))], cdims=None,
                    cyc=draw(st.sampled_from(["fc", "bc", "t"])))
    r, cc = draw(gen.ordered_partition(n))
    if mode == "rdims":
        return dict(mode="rdims", rdims=r, cdims=None, cyc=None)
    if mode == "cdims":
        return dict(mode="cdims", rdims=None, cdims=cc, cyc=None)
    return dict(mode="both", rdims=r, cdims=cc, cyc=None)


def partition_args(p, ops):
    kw = {}
    if p["rdims"] is not None:
        kw["rdims"] = np.array(p["rdims"], dtype=int)
        ops["rdims"] = kw["rdims"]
    if p["cdims"] is not None:
        kw["cdims"] = np.array(p["cdims"], dtype=int)
        ops["cdims"] = kw["cdims"]
    if p["cyc"] is not None:
        kw["cdims_cyclic"] = p["cyc"]
    return kw


@st.composite
def g_to_tenmat(draw, tier):
    c = draw(dense(tier, min_order=1))
    c["p"] = draw(g_partition(len(c["shape"])))
    c["copy_kw"] = draw(st.booleans())
    return c


@op("tensor/to_tenmat", g_to_tenmat, quick=80, thorough=2000)
def _(ctx, c):
    X = T(c)
    ops = {"self": X}
    kw = partition_args(c["p"], ops)
    p = c["p"]
    order = (p["rdims"] or []) + (p["cdims"] or [])
    ctx.label("partition-" + p["mode"], "natural-order" if order == sorted(order) and p["mode"] == "both" else "other-order")
    if c["copy_kw"]:
        kw["copy"] = True
    return ops, lambda: X.to_tenmat(**kw)


OTHER_KINDS = ["tensor", "sptensor", "ktensor", "ttensor"]


def g_with_other(kinds, min_order=1, same_object=True):
    @st.composite
    def g(draw, tier):
        c = draw(dense(tier, min_order=min_order, max_order=3))
        ks = list(kinds) + (["same-object"] if same_object else [])
        c["okind"] = draw(st.sampled_from(ks))
        if c["okind"] == "scalar":
            c["other"] = draw(st.sampled_from([0, 1, 2, -1.5, 0.0]))
        elif c["okind"] != "same-object":
            c["other"] = R.d_other(draw, c["okind"], c["shape"], c["vkind"])
        return c

    return g


def with_other(ctx, c, X):
    k = c["okind"]
    ctx.label("other-" + k)
    if k == "same-object":
        return X
    if k == "scalar":
        return c["other"]
    return R.other_of(k, c["other"])


def _reg_binary(name, f, kinds, quick=40, same_object=True):
    @op("tensor/" + name, g_with_other(kinds, same_object=same_object), quick=quick)
    def _(ctx, c, f=f):
        X = T(c)
        Y = with_other(ctx, c, X)
        return {"self": X, "other": Y}, lambda: f(X, Y)


_reg_binary("innerprod", lambda X, Y: X.innerprod(Y), OTHER_KINDS)
_reg_binary("isequal", lambda X, Y: X.isequal(Y), ["tensor", "sptensor"])
_reg_binary("logical_and", lambda X, Y: X.logical_and(Y), ["tensor", "scalar"])
_reg_binary("logical_or", lambda X, Y: X.logical_or(Y), ["tensor", "scalar"])
_reg_binary("logical_xor", lambda X, Y: X.logical_xor(Y), ["tensor", "scalar"])
_reg_binary("add", lambda X, Y: X + Y, ["tensor", "scalar", "sumtensor"], quick=60)
_reg_binary("radd", lambda X, Y: Y + X, ["scalar"], same_object=False)
_reg_binary("sub", lambda X, Y: X - Y, ["tensor", "scalar"])
_reg_binary("mul", lambda X, Y: X * Y, ["tensor", "scalar", "sptensor", "ktensor", "ttensor"], quick=60)
_reg_binary("rmul", lambda X, Y: Y * X, ["scalar"], same_object=False)
_reg_binary("truediv", lambda X, Y: X / Y, ["tensor", "scalar"])
_reg_binary("rtruediv", lambda X, Y: Y / X, ["scalar"], same_object=False)
_reg_binary("pow", lambda X, Y: X ** Y, ["tensor", "scalar"])
_reg_binary("eq", lambda X, Y: X == Y, ["tensor", "scalar"])
_reg_binary("ne", lambda X, Y: X != Y, ["tensor", "scalar"])
_reg_binary("ge", lambda X, Y: X >= Y, ["tensor", "scalar"])
_reg_binary("gt", lambda X, Y: X > Y, ["tensor", "scalar"])
_reg_binary("le", lambda X, Y: X <= Y, ["tensor", "scalar"])
_reg_binary("lt", lambda X, Y: X < Y, ["tensor", "scalar"])


@st.composite
def g_sym(draw, tier):
    n = draw(st.integers(1, 3))
    s = draw(st.integers(1, 3))
    shape = [s] * n
    version = draw(st.sampled_from([None, None, 1]))
    details = draw(st.booleans())
    # the old algorithm (version=1) and return_details only work when one group lists every mode
    whole = version == 1 or details
    extra = draw(st.booleans()) and not whole
    if extra:
        shape.insert(draw(st.integers(0, n)), draw(st.integers(1, 3)))
    c = R.d_dense_like(draw, shape, draw(st.sampled_from(["int", "float"])))
    if draw(st.booleans()):
        # make it symmetric in the equal-size modes so that the 'already symmetric' paths are taken too
        c["symmetrize_first"] = True
    # groups: modes of equal size
    modes = [m for m in range(len(shape)) if shape[m] == s]
    g = draw(gen.mode_subset(len(modes), len(modes) if whole else 1, len(modes)))
    c["grps"] = None if (not extra and draw(st.booleans())) else [modes[i] for i in g]
    c["grps2d"] = draw(st.booleans())
    c["version"] = version
    c["details"] = details
    return c


def sym_args(c, ops):
    g = c["grps"]
    if g is None:
        return None
    a = np.array([g], dtype=int) if c["grps2d"] else np.array(g, dtype=int)
    ops["grps"] = a
    return a


def sym_tensor(c):
    X = T(c)
    if c.get("symmetrize_first") and all(s == c["shape"][0] for s in c["shape"]):
        A = X.data
        import itertools

        B = sum(np.transpose(A, p) for p in itertools.permutations(range(A.ndim)))
        X = ttb.tensor(np.asfortranarray(B).copy(order="F"), tuple(c["shape"]))
    return X


@op("tensor/issymmetric", g_sym)
def _(ctx, c):
    X = sym_tensor(c)
    ops = {"self": X}
    g = sym_args(c, ops)
    ctx.label(f"version-{c['version']}", "grps-none" if g is None else "grps-given")
    return ops, lambda: X.issymmetric(g, c["version"], c["details"])


@op("tensor/symmetrize", g_sym)
def _(ctx, c):
    X = sym_tensor(c)
    ops = {"self": X}
    g = sym_args(c, ops)
    ctx.label(f"version-{c['version']}", "grps-none" if g is None else "grps-given",
              "presymmetrized" if c.get("symmetrize_first") else "generic")
    return ops, lambda: X.symmetrize(g, c["version"])


# --------------------------------------------------------------------------
# indexing
# --------------------------------------------------------------------------


@st.composite
def g_key(draw, shape, allow_neg=True, max_lists=1):
    """A key for __getitem__/__setitem__: dict(kind, ...)."""
    n = len(shape)
    total = ref.prod(shape)
    kind = draw(st.sampled_from(["lin-int", "lin-slice", "lin-arr", "lin-arr", "lin-list", "subs", "region", "region",
                                 "region", "empty"]))
    lo = -total if allow_neg else 0
    if kind == "empty":
        # (round 3, class 10) requests that address nothing: an empty index array, an empty subscript array, an empty
        # linear slice - a read returns an empty object, a write is a no-op
        e = draw(st.sampled_from(["lin-arr", "lin-list", "subs", "lin-slice"]))
        if e == "subs":
            return dict(kind="subs", v=[], n=n)
        if e == "lin-slice":
            a = draw(st.integers(0, total))
            return dict(kind=e, v=[a, a, None])
        return dict(kind=e, v=[], has_negative=False)
    if kind == "lin-int":
        return dict(kind=kind, v=draw(st.integers(lo, total - 1)))
    if kind == "lin-slice":
        a = draw(st.one_of(st.none(), st.integers(0, total - 1)))
        b = draw(st.one_of(st.none(), st.integers(1, total)))
        return dict(kind=kind, v=[a, b, draw(st.sampled_from([None, 1, 2]))])
    if kind in ("lin-arr", "lin-list"):
        k = draw(st.integers(1, min(4, total)))
        v = draw(st.lists(st.integers(lo, total - 1), min_size=k, max_size=k, unique_by=lambda x: x % total))
        if allow_neg and draw(st.booleans()):
            # negative (from-the-end) entries are the class in which the index fix-up writes
            j = draw(st.integers(0, k - 1))
            v[j] = v[j] - total if v[j] >= 0 else v[j]
        return dict(kind=kind, v=v, has_negative=any(x < 0 for x in v))
    if kind == "subs":
        k = draw(st.integers(1, min(4, total)))
        rows = draw(st.lists(st.tuples(*[st.integers(0, s - 1) for s in shape]), min_size=k, max_size=k, unique=True))
        return dict(kind=kind, v=[list(r) for r in rows])
    ents = []
    lists = 0
    for s in shape:
        t = draw(st.sampled_from(["int", "slice", "full", "list", "arr", "slice", "full", "empty", "step"]))
        if t in ("list", "arr") and lists >= max_lists:
            t = "slice"
        if t == "int":
            ents.append(dict(t="int", v=draw(st.integers(-s if allow_neg else 0, s - 1))))
        elif t == "full":
            ents.append(dict(t="slice", v=[None, None, None]))
        elif t == "empty":
            # (round 3, class 10) an empty range in this mode: ``:0``, ``k:k``, ``s:``
            a = draw(st.integers(0, s))
            ents.append(dict(t="slice", v=draw(st.sampled_from([[None, 0, None], [a, a, None], [s, None, None]]))))
        elif t == "step":
            ents.append(dict(t="slice", v=draw(st.sampled_from([[None, None, 2], [None, None, -1], [1, None, 2], [None, None, s + 1]]))))
        elif t == "slice":
            a = draw(st.integers(0, s - 1))
            b = draw(st.integers(a + 1, s))
            ents.append(dict(t="slice", v=[a, b, None]))
        else:
            lists += 1
            k = draw(st.integers(1, min(s, 3)))
            v = draw(st.lists(st.integers(0, s - 1), min_size=k, max_size=k, unique=True))
            ents.append(dict(t=t, v=v))
    return dict(kind="region", v=ents)


def build_key(k):
    """-> (key object, label)."""
    kind = k["kind"]
    if kind == "lin-int":
        return k["v"], kind
    if kind == "lin-slice":
        return slice(*k["v"]), kind
    if kind == "lin-arr":
        return np.array(k["v"], dtype=int), kind + ("-negative" if k.get("has_negative") else "") + ("" if k["v"] else "-empty")
    if kind == "lin-list":
        return [int(x) for x in k["v"]], kind
    if kind == "subs":
        if not k["v"]:
            return np.zeros((0, k.get("n", 1)), dtype=int), "subs-empty"
        return np.array(k["v"], dtype=int).reshape(len(k["v"]), -1), kind
    ents = []
    for e in k["v"]:
        if e["t"] == "int":
            ents.append(int(e["v"]))
        elif e["t"] == "slice":
            ents.append(slice(*e["v"]))
        elif e["t"] == "list":
            ents.append([int(x) for x in e["v"]])
        else:
            ents.append(np.array(e["v"], dtype=int))
    full = all(e["t"] == "slice" and e["v"] == [None, None, None] for e in k["v"])
    if not full and any(e["t"] == "slice" and e["v"][2] is None and e["v"] != [None, None, None] and
                        (e["v"][1] == 0 or (e["v"][0] is not None and e["v"][0] == e["v"][1]) or e["v"][1] is None)
                        for e in k["v"]):
        return tuple(ents), "region-empty"
    return tuple(ents), "region-full" if full else "region"


@st.composite
def g_getitem(draw, tier):
    c = draw(dense(tier, min_order=1))
    c["key"] = draw(g_key(c["shape"]))
    return c


@op("tensor/getitem", g_getitem, quick=120, thorough=2500)
def _(ctx, c):
    X = T(c)
    key, lab = build_key(c["key"])
    ctx.label("key-" + lab)
    return {"self": X, "key": key}, lambda: X[key]


def key_count(k, shape):
    """number of addressed entries / region shape for value generation."""
    dummy = np.zeros(tuple(shape), order="F")
    key, _ = build_key(k)
    if k["kind"] == "region":
        return list(np.empty(tuple(shape))[key].shape)
    if k["kind"] == "lin-int":
        return [1]
    if k["kind"] == "lin-slice":
        return [len(range(dummy.size)[key])]
    return [len(k["v"])]


@st.composite
def g_setitem(draw, tier):
    c = draw(dense(tier, min_order=1))
    k = draw(g_key(c["shape"]))
    c["key"] = k
    vs = key_count(k, c["shape"])
    nv = ref.prod(vs)
    opts = ["scalar", "array"] + (["tensor"] if k["kind"] == "region" and len(vs) >= 1 and nv > 0 else [])
    c["vkind_"] = draw(st.sampled_from(opts))
    c["vshape"] = vs
    if c["vkind_"] == "scalar" or nv == 0:
        c["vkind_"] = "scalar"
        c["value"] = draw(st.sampled_from([0.0, 7.0, -2.5]))
    else:
        c["value"] = R.d_vals(draw, nv, c["vkind"])
    return c


R.pred("key_is_negative_linear_array")(lambda c: c["key"]["kind"] == "lin-arr" and bool(c["key"].get("has_negative")))


@op("tensor/setitem", g_setitem, quick=120, thorough=2500, inplace="self")
def _(ctx, c):
    X = T(c)
    key, lab = build_key(c["key"])
    ctx.label("key-" + lab, "value-" + c["vkind_"])
    if c["vkind_"] == "scalar":
        v = c["value"]
    else:
        A = gen.arr_F(c["vshape"], c["value"]).copy(order="F") if len(c["vshape"]) else np.array(c["value"], dtype=float)
        v = ttb.tensor(A, tuple(c["vshape"])) if c["vkind_"] == "tensor" else R.CS.aux_present(c, A)
    return {"self": X, "key": key, "value": v}, lambda: X.__setitem__(key, v)


# --------------------------------------------------------------------------
# module-level constructors
# --------------------------------------------------------------------------


@st.composite
def g_tendiag(draw, tier):
    k = draw(st.integers(1, 3))
    c = dict(elements=R.d_vals(draw, k, "float"), form=draw(st.sampled_from(["array", "column", "list"])),
             shape=draw(st.one_of(st.none(), st.lists(st.integers(1, 4), min_size=1, max_size=3))),
             sparse=draw(st.booleans()))
    return c


@op("tensor/tendiag", g_tendiag, quick=30)
def _(ctx, c):
    e = np.array(c["elements"], dtype=float)
    if c["form"] == "column":
        e = e.reshape(-1, 1)
    elif c["form"] == "list":
        e = [float(x) for x in c["elements"]]
    ops = {"elements": e}
    shape = None if c["shape"] is None else tuple(c["shape"])
    f = ttb.sptendiag if c["sparse"] else ttb.tendiag
    ctx.label("sptendiag" if c["sparse"] else "tendiag")
    return ops, lambda: f(e, shape)
