"""C10 — Tucker decompositions (hosvd, tucker_als) meet their error bound and structural contract."""

from __future__ import annotations

import itertools
import re

import numpy as np
from hypothesis import strategies as st

import pyttb as ttb

from .. import ref
from ..core import cell
from . import _c09_helpers as H

PROPERTY = "C10"
RULE = (
    "hosvd: data built with prescribed spectra (superdiagonal sum of orthonormal rank-one terms: every mode has the listed "
    "eigenvalues; Tucker tensor with orthonormal factors and a core decaying at a different rate per mode; low-rank + "
    "noise; small integers), N in 1..4, tol placed just below / at / just above the value sqrt(d*tail_i)/||X|| where "
    "the rank choice of a mode switches, or random in (0.01,0.99), 1e-8, 0.999; both truncation strategies; any mode "
    "order; verbosity -1..11 (stdout captured); ranks automatic or a given vector within the mode sizes; an enumerated "
    "cell runs all mode orders x both strategies x all switch values of one tensor.  tucker_als: low multilinear rank "
    "+ noise data, rank vector (or scalar) within the mode sizes, start in {random under np_seed, nvecs, given list}, any "
    "mode order, maxiters 1..6, stoptol, printitn; truncated runs k = 1..maxiters with stoptol 0.  Oracle: NumPy on the "
    "dense data (U'U = I, core = X x_n U_n', ||X - T||^2, fit).  Non-trivial: some rank strictly inside its mode size "
    "and a discarded part > 1e-6 ||X||^2.  Round 2 classes: (1) data reached by growth / permute / C-ordered input / "
    "sptensor.to_tensor / arithmetic; (2) integer-valued data held in int8/16/32/64, uint8/16 at magnitudes 3 / 100 / the "
    "whole range of the dtype (hosvd and tucker_als), integer-valued start matrices held as int64 (tucker_als), float32 data "
    "for hosvd only and with single-precision bounds (orthonormality 1e-5, core 1e-9 ||X||^2, error bound slack 1e-9 "
    "||X||^2, tol >= 1e-2); (4) exactly tied spectra, exactly low multilinear rank, block-diagonal and constant data, one "
    "mode of size 21..32 (above ARPACK's default subspace), starts made of unit vectors / with exact zeros and a zero row; "
    "(5) data magnitude 1e-6..1e6, verbosity any float in {-7.5..1000}, stoptol 0 or log-uniform 1e-12..1, printitn in "
    "{-5,-1,0,1,2,3,7,1000}.  tucker_als requests that turn out degenerate along the sweeps (NumPy replay: lambda_r/lambda_1 < "
    "1e-12 for a requested column) are judged by the per-run clauses only.  Round 3 classes: (6) data magnitude also 1e-9, 1e-10, "
    "1e-12, 1e+9; data of exactly low multilinear rank plus relative noise 1e-10..1e-5 (hosvd), noise 1e-8 / 1e-6 (tucker_als); "
    "starts with unit-length non-orthogonal columns, orthonormal or identity up to 1e-10..1e-5, of magnitude 1e-12 / 1e+9; "
    "(7) one case in 30..40 is a larger problem (5..6 modes, or a mode of 40..60 with up to 2e4 cells); (8) spectra spread over "
    "8 / 10 / 12 / 13 decades, strong directions followed by a cluster 1e-10 below, low rank + noise at 1e-7 / 1e-5, with tol "
    "log-uniform in 1e-6..1e-2 (and the switch values of those spectra); (9) cells live-objects: the data object is edited by item "
    "assignment between calls (hosvd x3, tucker_als x2), then the caller's start matrices are edited in place; every call is "
    "judged against the current state, earlier results and returned starts must stay bit-identical, writing into results must "
    "reach neither data nor starts; (10) tol up to 1 - 1e-12, tucker_als with maxiters 1, stoptol 2.5 / 1e300, printitn > maxiters.  "
    "Round 4 classes: (11) cells "
    "presentations: the same request twice, once with list-of-Python-int ranks / mode order, Python float tol, F-ordered float64 "
    "starts and keywords, once with ranks / rank / mode order as tuple, ndarray of int64/32/16/8 and uint8/16/32/64, list or tuple of "
    "NumPy integer scalars, read-only or strided view, bare int / NumPy scalar (one mode, or a common rank), tol / stoptol as "
    "np.float64 / np.float32 scalar, maxiters / printitn as NumPy integer scalars, starts C-ordered / float32 / read-only / strided / "
    "None for the mode solved first, options positionally, data in a second holder (float32 and integer dtypes vs float64, other "
    "provenance); both results judged by the property's clauses, same ranks / sweeps, same model (hosvd, 1e-20 ||X||^2) or same "
    "residual, caller's arrays unchanged; (12) cell rejected-requests: valid request, ill-formed request on the same objects (whether "
    "it is turned down is not judged), the valid request again -- data, starts, argument arrays, earlier result unchanged, same "
    "result again; (13) cells reporting: the same request quiet and at another verbosity / printitn with the root logger at DEBUG -- "
    "bit for bit the same result where the run is deterministic (hosvd; tucker_als with every r_n >= n_n - 1), same sweeps and residual "
    "otherwise."
)
ASSUMPTIONS = [
    "bulk numeric content expanded by np.random.default_rng from Hypothesis-drawn integer seeds; spectra, tol class, "
    "options drawn directly",
    "orthonormal columns: max |U'U - I| <= 1e-10",
    "core relation: ||core - X x_n U_n'||^2 <= 1e-20 ||X||^2 (einsum reference)",
    "error bound (automatic ranks): ||X - T||^2 <= tol^2 ||X||^2 (1 + 1e-9) + 64 eps sum_k(n_k) ||X||^2: the method sees the data "
    "only through the d Gram matrices, whose entries and eigenvalues carry rounding errors of a modest multiple of eps ||X||^2, so "
    "a discarded tail is known only to that accuracy (1e-13..1e-12 ||X||^2; matters for tol <= 1e-5 only).  The printed "
    "'Tolerance not satisfied' warning is demanded absent only when the recomputed error is within tol (it is truthful otherwise)",
    "tucker_als fit: |((1-fit)||X||)^2 - ||X-T||^2| <= 1e-10 ||X||^2; normresidual likewise; fit = 1 - normresidual/||X|| to 1e-12",
    "tucker_als monotone: ||X-T_{k+1}||^2 <= ||X-T_k||^2 + 1e-9 ||X||^2 over runs truncated at k sweeps from the same start "
    "(1e-7 when some r_n < n_n - 1: nvecs then uses ARPACK, whose start vector comes from an unseedable process-wide stream, so "
    "separate runs agree only up to eps/eigen-gap; the rerun-at-reported-iters residual comparison uses 1e-6 there, 1e-9 otherwise)",
    "tucker_als rank vectors with r_n > prod_{m != n} r_m or noise-free data of lower multilinear rank than requested "
    "(degenerate: extra columns are arbitrary null-space vectors picked by ARPACK's internal random start, so two runs differ) are generated at a reduced rate and judged only by the per-run "
    "clauses (structure, reported fit, iteration limit, printed fits of one run non-decreasing)",
    "printed relative error (6 significant digits) within 1e-5 relative of the recomputed one when that exceeds 1e-9",
    "tol given as np.float32: the baseline uses the same number as Python float; the bound is judged with relative slack 1e-6 (tol^2 is "
    "then known to 1e-7), the automatic ranks are compared with the baseline only when tol (1 -+ 1e-5) give the same choice, and the "
    "form is used only when tol^2 ||X||^2 / d >= 1e-36 (NumPy evaluates the threshold in single precision; below that it is "
    "subnormal or zero -- more columns than needed are kept, the bound still holds)",
    "data in a second holder: automatic ranks compared only when tol (1 -+ 1e-7) (1e-3 for float32 data) give the same choice; "
    "residuals compared to 1e-9 ||X||^2 (1e-4 float32 hosvd, 1e-5 float32 tucker_als, 1e-6 on the ARPACK path)",
    "float32 data for tucker_als (presentations cell only): orthonormality 1e-5, core 1e-9 ||X||^2, reported fit / normresidual "
    "1e-5 ||X||^2 (||X|| is taken in single precision); float32 start matrices: residual compared with the float64 presentation of "
    "the same start to 1e-5 ||X||^2 (integer / float32 data times a float32 matrix is formed in single precision); the model itself "
    "is held to the double-precision clauses",
]


def _ranks_given_inside(case):
    """hosvd with user ranks returns ranks+1 columns for every mode whose requested rank is below the mode size."""
    r = case.get("ranks")
    return r is not None and any(int(a) < int(n) for a, n in zip(r, case["shape"]))


def _int_square_wraps(case):
    """data held in an integer dtype in which the square of some entry does not fit (hosvd squares in that dtype)."""
    dt = case.get("dtype", "float64")
    if dt not in INT_RANGE:
        return False
    A = hosvd_data(case)
    return bool(float(np.max(np.abs(A))) ** 2 > float(np.iinfo(np.dtype(dt)).max))


def _dimorder_uint64(case):
    """tucker_als with the mode order given as uint64 array / np.uint64 scalars (tensor.ttm promotes uint64 + int to float64)."""
    return case.get("dimorder") is not None and "uint64" in str(case.get("dimorder_form", ""))


PREDICATES = {"ranks_given_inside": _ranks_given_inside, "int_square_wraps": _int_square_wraps,
              "dimorder_uint64": _dimorder_uint64}

# --------------------------------------------------------------------------
# data with prescribed spectra
# --------------------------------------------------------------------------

SPECTRA = {
    "geometric": lambda m: [2.0 ** (-i) for i in range(m)],
    "steep": lambda m: [10.0 ** (-2 * i) for i in range(m)],
    "flat": lambda m: [1.0 - 0.01 * i for i in range(m)],
    "flat-then-drop": lambda m: [1.0 if i < (m + 1) // 2 else 1e-3 * (1 + i) for i in range(m)],
    "pairs": lambda m: [1.0 / (1 + i // 2) + 1e-3 * (i % 2) for i in range(m)],
    # exact ties (class 4): eigenvalues equal in exact arithmetic, so the rank-switch values coincide
    "tied-pairs": lambda m: [4.0 ** (-(i // 2)) for i in range(m)],
    "all-equal": lambda m: [1.0 for _ in range(m)],
    "tied-tail": lambda m: [1.0 if i == 0 else 0.0625 for i in range(m)],
    # class 8: eigenvalues spread evenly (in the exponent) over 8 / 10 / 12 / 13 decades -- singular values down to 3e-7 of the
    # largest, still resolved by a Gram-matrix method (eps = 2e-16 relative to the largest eigenvalue)
    "wide-8": lambda m: [10.0 ** (-8.0 * i / max(1, m - 1)) for i in range(m)],
    "wide-10": lambda m: [10.0 ** (-10.0 * i / max(1, m - 1)) for i in range(m)],
    "wide-12": lambda m: [10.0 ** (-12.0 * i / max(1, m - 1)) for i in range(m)],
    "wide-13": lambda m: [10.0 ** (-13.0 * i / max(1, m - 1)) for i in range(m)],
    # a few strong directions, then a cluster of weak ones far below (the weak ones matter for tol <= 1e-5)
    "strong-then-weak": lambda m: [10.0 ** (-2 * i) if i < (m + 1) // 2 else max(1.0, 9.0 - i) * 1e-10 for i in range(m)],
}

# integer data, holders in a given dtype / provenance: shared with C09 and C18 (see _c09_helpers)
INT_RANGE, MAGS, int_data, hold, PROVS_F64, PROVS_ANY = H.INT_RANGE, H.MAGS, H.int_data, H.hold, H.PROVS_F64, H.PROVS_ANY


def _orth(rng, n, m):
    Q, _ = np.linalg.qr(rng.standard_normal((n, n)))
    return Q[:, :m]


def hosvd_data(case) -> np.ndarray:
    shape = [int(s) for s in case["shape"]]
    rng = np.random.default_rng([31, int(case["data_seed"])])
    kind = case["kind"]
    if kind == "superdiag":
        m = min(shape)
        sig = np.sqrt(np.array(SPECTRA[case["spectrum"]](m)))
        Q = [_orth(rng, n, m) for n in shape]
        return ref.den_kruskal(sig, Q) * float(case.get("scale", 1.0))
    if kind == "tucker-decay":
        rates = [0.2 + 0.6 * rng.uniform() for _ in shape]
        G = rng.standard_normal(tuple(shape))
        for k, n in enumerate(shape):
            d = np.array([rates[k] ** i for i in range(n)])
            G = G * d.reshape([-1 if j == k else 1 for j in range(len(shape))])
        Q = [_orth(rng, n, n) for n in shape]
        return H.tucker_fast(G, Q) * float(case.get("scale", 1.0))
    if kind == "lowrank-noise":
        return H.dense_problem(shape, int(case.get("rtrue", 2)), int(case["data_seed"]), float(case.get("noise", 0.1))) \
            * float(case.get("scale", 1.0))
    if kind == "integers":
        if case.get("dtype", "float64") in INT_RANGE:
            return int_data(shape, rng, case["dtype"], case.get("mag", "small"), False)
        A = rng.integers(-3, 4, tuple(shape)).astype(float)
        if not A.any():
            A.flat[0] = 1.0
        return A
    if kind == "int-lowrank":
        return int_data(shape, rng, case["dtype"], case.get("mag", "medium"), True, int(case.get("rtrue", 2)))
    if kind == "exact-lowrank":  # multilinear rank strictly inside the mode sizes: exactly zero trailing eigenvalues
        ml = [max(1, min(int(r), n)) for r, n in zip(case["mlrank"], shape)]
        G = rng.standard_normal(tuple(ml))
        Q = [_orth(rng, n, r) for n, r in zip(shape, ml)]
        return H.tucker_fast(G, Q) * float(case.get("scale", 1.0))
    if kind == "near-lowrank":  # class 6: exactly low multilinear rank plus relative noise 1e-10 .. 1e-5 (almost special)
        ml = [max(1, min(int(r), n)) for r, n in zip(case["mlrank"], shape)]
        G = rng.standard_normal(tuple(ml))
        Q = [_orth(rng, n, r) for n, r in zip(shape, ml)]
        A = H.tucker_fast(G, Q)
        E = rng.standard_normal(tuple(shape))
        return (A + float(case["noise"]) * np.sqrt(H.sq(A) / A.size) * E) * float(case.get("scale", 1.0))
    if kind == "block":  # two diagonal blocks, exact zeros elsewhere
        A = np.zeros(tuple(shape))
        cut = [max(1, n // 2) for n in shape]
        A[tuple(slice(0, c) for c in cut)] = rng.standard_normal(tuple(cut))
        if all(n >= 2 for n in shape):
            A[tuple(slice(c, None) for c in cut)] = 0.5 * rng.standard_normal(tuple(n - c for n, c in zip(shape, cut)))
        return A * float(case.get("scale", 1.0))
    if kind == "constant":
        return np.full(tuple(shape), 1.5) * float(case.get("scale", 1.0))
    raise ValueError(kind)


def mode_eigs(A, k):
    """eigenvalues of the mode-k Gram matrix, descending (squared singular values of the unfolding)."""
    s = np.linalg.svd(H.unfold(A, k), compute_uv=False)
    lam = np.zeros(A.shape[k])
    lam[: len(s)] = s * s
    return lam


def switch_tols(A, k):
    """tol values at which the automatic rank of mode k (applied to X itself) changes: sqrt(d * tail_i) / ||X||, i >= 1."""
    lam = mode_eigs(A, k)
    n2 = H.sq(A)
    d = A.ndim
    tails = np.cumsum(lam[::-1])[::-1]
    out = []
    for i in range(1, len(lam)):
        v = d * tails[i] / n2
        if 1e-24 < v < 0.998:
            out.append(float(np.sqrt(v)))
    return out


def resolve_tol(case, A):
    t = case["tol"]
    if t["kind"] == "value":
        return float(t["value"]), "tol-" + t.get("tag", "random")
    sw = switch_tols(A, int(t["mode"]) % A.ndim)
    if not sw:
        return float(t["fallback"]), "tol-fallback"
    v = sw[int(t["index"]) % len(sw)]
    side = t["side"]
    f = {"below": 1.0 - 1e-6, "above": 1.0 + 1e-6, "at": 1.0}[side]
    return float(min(v * f, 0.9999)), "tol-switch-" + side


@st.composite
def _tol(draw):
    kind = draw(st.sampled_from(["switch", "switch", "switch", "random", "tiny", "near1", "small", "small"]))
    if kind == "switch":
        return dict(kind="switch", mode=draw(st.integers(0, 3)), index=draw(st.integers(0, 5)),
                    side=draw(st.sampled_from(["below", "above", "at"])),
                    fallback=draw(st.floats(0.01, 0.99, allow_nan=False)))
    if kind == "random":
        return dict(kind="value", tag="random", value=draw(st.floats(0.01, 0.99, allow_nan=False)))
    if kind == "tiny":
        return dict(kind="value", tag="tiny", value=draw(st.sampled_from([1e-8, 1e-6, 1e-3])))
    if kind == "small":  # log-uniform over 1e-6 .. 1e-2 (class 8: below / inside / above the weak part of a wide spectrum)
        return dict(kind="value", tag="small", value=float(10.0 ** (-draw(st.integers(8, 24)) / 4.0)))
    # up to the end of the admissible interval (class 10: everything but one direction per mode may be discarded)
    return dict(kind="value", tag="near1", value=draw(st.sampled_from([0.9, 0.99, 0.999, 0.999999, 1.0 - 1e-12])))


SCALES = H.SCALES  # every bound below is relative to ||X||^2, so the relations are scale-free
DTYPES = ["float64"] * 9 + ["int64", "int32", "int16", "uint8", "uint16", "int8", "float32"]


@st.composite
def _shape(draw, tier, N, lo1=7, cap=None, big_one_in=30):
    """mode sizes; one case in eight has a mode above 20 (eigensolvers switch regime there: ARPACK's default subspace is
    20 vectors) and the other modes small"""
    hi = 5 if tier == "quick" else 6
    cap = cap or (200 if tier == "quick" else 600)
    if N >= 3 and draw(st.integers(0, big_one_in - 1)) == 0:
        # class 7: a few larger problems per run -- 5..6 modes, or one mode of 40..60 with room in the others (up to ~2e4 cells)
        if draw(st.integers(0, 10**6)) % 2 == 0:
            return [draw(st.integers(2, 4)) for _ in range(draw(st.sampled_from([5, 6])))]
        shape = [draw(st.integers(2, 8)) for _ in range(N)]
        shape[draw(st.integers(0, N - 1))] = draw(st.integers(40, 60))
        while ref.prod(shape) > 20000:
            shape[max((i for i in range(N) if shape[i] <= 20), key=lambda i: shape[i])] -= 1
        return shape
    shape = [draw(st.integers(1 if draw(st.integers(0, lo1)) == 0 else 2, hi)) for _ in range(N)]
    if draw(st.integers(0, 7)) == 0:
        k = draw(st.integers(0, N - 1))
        shape = [min(n, 3) for n in shape]
        shape[k] = draw(st.integers(21, 32))
    while ref.prod(shape) > cap:
        cand = [n for n in shape if n <= 20] or shape
        big = max(cand)
        if big <= 1:
            shape[shape.index(max(shape))] -= 1
        else:
            shape[shape.index(big)] -= 1
    return shape


@st.composite
def _hosvd_case(draw, tier):
    N = draw(st.sampled_from([1, 2, 3, 3, 3, 4] if tier == "quick" else [1, 2, 3, 3, 4, 4, 5]))
    shape = draw(_shape(tier, N))
    N = len(shape)
    dtype = draw(st.sampled_from(DTYPES))
    if dtype in INT_RANGE:
        kind = draw(st.sampled_from(["integers", "int-lowrank", "int-lowrank"]))
    else:
        kind = draw(st.sampled_from(["superdiag", "superdiag", "superdiag", "tucker-decay", "tucker-decay", "tucker-decay",
                                     "lowrank-noise", "lowrank-noise", "integers", "exact-lowrank", "near-lowrank", "near-lowrank",
                                     "block", "constant"]))
    c = dict(shape=shape, kind=kind, data_seed=draw(st.integers(0, 10**6)), dtype=dtype)
    if dtype in INT_RANGE:
        c["mag"] = draw(st.sampled_from(["small", "medium", "full"]))
        c["rtrue"] = draw(st.integers(1, 3))
    if kind == "superdiag":
        c["spectrum"] = draw(st.sampled_from(sorted(SPECTRA)))
    if kind in ("superdiag", "tucker-decay", "lowrank-noise", "exact-lowrank", "near-lowrank", "block", "constant"):
        c["scale"] = draw(st.sampled_from(SCALES))
    if kind == "lowrank-noise":
        c["rtrue"] = draw(st.integers(1, 3))
        c["noise"] = draw(st.sampled_from([1e-7, 1e-5, 1e-3, 0.1, 1.0]))
    if kind in ("exact-lowrank", "near-lowrank"):
        c["mlrank"] = [draw(st.integers(1, n)) for n in shape]
    if kind == "near-lowrank":
        c["noise"] = draw(st.sampled_from([1e-10, 1e-8, 1e-7, 1e-6, 1e-5]))
    c["prov"] = draw(st.sampled_from(PROVS_F64 if dtype == "float64" else PROVS_ANY))
    c["tol"] = draw(_tol())
    c["sequential"] = draw(st.booleans())
    c["dimorder"] = draw(st.one_of(st.none(), st.permutations(range(N)).map(list), st.permutations(range(N)).map(list)))
    # verbosity is documented as a float "print level": thresholds at 0, 2 and 5
    c["verbosity"] = draw(st.sampled_from([-1, 0, 0, 1, 3, 6, 11, 0.5, 2.5, 5, 1000, -7.5]))
    if draw(st.integers(0, 3)) == 0:
        c["ranks"] = [draw(st.integers(1, n)) for n in shape]
    else:
        c["ranks"] = None
    c["form"] = draw(st.sampled_from(["list", "array", "tuple"]))
    return c


def _form(v, form):
    if v is None:
        return None
    if form == "array":
        return np.array(v, dtype=int)
    if form == "tuple":
        return tuple(int(x) for x in v)
    return [int(x) for x in v]


# --------------------------------------------------------------------------
# shared structural oracle
# --------------------------------------------------------------------------


def _structure(ctx, T, A, tag, f32=False):
    """ttensor with dense core, factors (n_k x r_k) orthonormal, core = X x_n U_n'.  Returns (den(T), ranks).
    f32: data held in float32 -- the bounds are those of single precision (1e-5 / 1e-9 ||X||^2)."""
    ctx.require(isinstance(T, ttb.ttensor), f"{tag}returns-ttensor", type(T).__name__)
    fm = T.factor_matrices
    N = A.ndim
    ctx.require(isinstance(fm, list) and len(fm) == N and all(isinstance(u, np.ndarray) and u.ndim == 2 for u in fm),
                f"{tag}factor-list", [getattr(u, "shape", None) for u in fm] if isinstance(fm, list) else type(fm))
    ctx.require(all(u.shape[0] == n and 1 <= u.shape[1] <= n and u.dtype.kind == "f" for u, n in zip(fm, A.shape)),
                f"{tag}factor-shapes", [u.shape for u in fm])
    ranks = [int(u.shape[1]) for u in fm]
    ctx.require(isinstance(T.core, ttb.tensor), f"{tag}core-is-dense-tensor", type(T.core).__name__)
    G = ref.den(T.core)
    ctx.require(tuple(G.shape) == tuple(ranks) and np.all(np.isfinite(G)), f"{tag}core-shape-matches-factors",
                (G.shape, ranks))
    worst = max(float(np.max(np.abs(u.T @ u - np.eye(u.shape[1])))) for u in fm)
    ctx.check(worst <= (1e-5 if f32 else 1e-10), f"{tag}factors-orthonormal", worst)
    Gref = H.tucker_fast(A, [u.T for u in fm])
    ctx.check(H.sq(G - Gref) <= (1e-9 if f32 else 1e-20) * H.sq(A), f"{tag}core-is-data-times-transposed-factors",
              f"||core - ref||^2 = {H.sq(G - Gref)!r}, ||X||^2 = {H.sq(A)!r}")
    return H.tucker_fast(G, fm), ranks


_REL = re.compile(r"\|\|X-T\|\|/\|\|X\|\| =\s*(\S+)\s*(<=|>=)\s*(\S+) \(tol\)")


def _hosvd_body(ctx, case):
    shape = [int(s) for s in case["shape"]]
    N = len(shape)
    A = hosvd_data(case)
    dtype = case.get("dtype", "float64")
    f32 = dtype == "float32"
    if f32:  # the values the float32 holder has, exactly
        A = A.astype(np.float32).astype(float)
    n2 = H.sq(A)
    if n2 == 0 or not np.isfinite(n2):
        ctx.skip("zero-data")
    tol, tlabel = resolve_tol(case, A)
    if f32:
        tol = max(tol, 1e-2)
    X, prov = hold(A, dtype, case.get("prov", "ctor"), int(case["data_seed"]))
    ctx.label("dtype-" + dtype, "prov-" + prov, "scale-%g" % float(case.get("scale", 1.0)),
              "long-mode" if max(shape) > 20 else "short-modes",
              "problem-large" if ref.prod(shape) > 700 or N >= 5 else "problem-small",
              "tol<1e-5" if tol < 1e-5 else ("tol<1e-3" if tol < 1e-3 else "tol>=1e-3"))
    if case["kind"] == "superdiag":
        ctx.label("spectrum-" + case["spectrum"])
    if case["kind"] in ("lowrank-noise", "near-lowrank"):
        ctx.label("noise-%g" % float(case.get("noise", 0.1)))
    if dtype in INT_RANGE:
        ctx.label("mag-" + case.get("mag", "small"))
    snap = H.snapshot(X)
    ranks_in = case["ranks"]
    kw = dict(verbosity=case["verbosity"], sequential=bool(case["sequential"]))
    if case["dimorder"] is not None:
        kw["dimorder"] = _form(case["dimorder"], case["form"])
    if ranks_in is not None:
        kw["ranks"] = _form(ranks_in, case["form"])
    ctx.label(f"order{N}", case["kind"], tlabel, "sequential" if case["sequential"] else "all-at-once",
              "ranks-given" if ranks_in is not None else "ranks-auto", f"verbosity-{case['verbosity']}",
              "has-singleton" if 1 in shape else "no-singleton",
              "dimorder-default" if case["dimorder"] is None else "dimorder-given")
    with ctx.sut("hosvd"):
        with H.captured() as buf:
            T = ttb.hosvd(X, tol, **kw)
    text = buf.getvalue()
    ctx.check(H.snapshot(X) == snap, "data-unchanged")
    D, ranks = _structure(ctx, T, A, "", f32)
    err2 = H.sq(A - D)
    ctx.nt = any(r < n for r, n in zip(ranks, shape)) and err2 > 1e-6 * n2
    ctx.label("truncated" if any(r < n for r, n in zip(ranks, shape)) else "full-ranks")
    if ranks_in is None:
        # the method works on the d Gram matrices: their entries and eigenvalues carry rounding errors of a modest multiple of
        # eps ||X||^2, so a discarded tail is only known to that accuracy -> 64 eps sum(n_k) ||X||^2 (1e-13 .. 1e-12 ||X||^2; it
        # matters only for tol <= 1e-5)
        slack = (1e-4, 1e-9) if f32 else (1e-9, 64 * ref.EPS * sum(shape))
        ctx.check(err2 <= tol * tol * n2 * (1 + slack[0]) + slack[1] * n2, "relative-error-within-tol",
                  f"||X-T||^2/||X||^2 = {err2 / n2!r} > tol^2 = {tol * tol!r} (ranks {ranks} of {shape})")
    else:
        ctx.check(ranks == [int(r) for r in ranks_in], "given-ranks-are-returned", f"requested {ranks_in} got {ranks}")
    # printed report
    if case["verbosity"] > 0:
        m = _REL.search(text)
        ctx.check(m is not None and f"Shape of core: {tuple(ranks)}" in text, "report-printed", text[-160:])
        if m is not None:
            try:
                rel = float(m.group(1))
            except ValueError:
                rel = float("nan")
            true_rel = float(np.sqrt(err2 / n2))
            if true_rel > 1e-9:
                ctx.check(abs(rel - true_rel) <= 1e-5 * true_rel, "printed-relative-error", (rel, true_rel))
            if ranks_in is None and err2 <= tol * tol * n2 * (1 - 1e-9):
                # the report must be truthful: no warning when the recomputed error is within tol.  (An error above tol by
                # no more than the rounding slack of the Gram matrices passes the bound clause above; the warning is then right.)
                ctx.check("not satisfied" not in text and m.group(2) == "<=", "no-tolerance-warning", text[-160:])
            elif ranks_in is None:
                ctx.label("error-above-tol-within-rounding-slack" if err2 > tol * tol * n2 * (1 + 1e-9) else "error-at-tol")
    else:
        ctx.check(text.strip() == "", "silent-when-verbosity-not-positive", text[:80])


@cell("C10/hosvd/generated", strategy=_hosvd_case, quick=4000, thorough=60000, shards=(4, 16))
def hosvd_generated(ctx, case):
    _hosvd_body(ctx, case)


def _enum_hosvd(tier):
    """one tensor per plan: every mode order x both strategies x every switch value of every mode x 3 sides."""
    plans = [([4, 3, 5], "tucker-decay", None), ([3, 3, 3], "superdiag", "flat-then-drop"), ([4, 2], "lowrank-noise", None)]
    if tier == "thorough":
        plans += [([2, 3, 2, 3], "tucker-decay", None), ([5, 4, 3], "superdiag", "pairs"), ([3, 1, 4], "integers", None)]
    for shape, kind, spec in plans:
        N = len(shape)
        for p in itertools.permutations(range(N)):
            for seq in (True, False):
                for k in range(N):
                    for i in range(max(shape[k] - 1, 1)):
                        for side in ("below", "at", "above"):
                            c = dict(shape=shape, kind=kind, data_seed=5, scale=1.0, rtrue=2, noise=0.3,
                                     tol=dict(kind="switch", mode=k, index=i, side=side, fallback=0.37), sequential=seq,
                                     dimorder=list(p), verbosity=0, ranks=None, form="list")
                            if spec:
                                c["spectrum"] = spec
                            yield c


@cell("C10/hosvd/enumerated-switch-values", enum=_enum_hosvd, shards=(4, 16))
def hosvd_enumerated(ctx, case):
    _hosvd_body(ctx, case)


def _enum_ranks(tier):
    """every rank vector within the mode sizes for small shapes, both strategies, two mode orders."""
    shapes = [[3, 2], [2, 3, 2], [1, 3]] if tier == "quick" else [[3, 2], [2, 3, 2], [1, 3], [3, 4, 2], [2, 2, 2, 2], [4]]
    for shape in shapes:
        N = len(shape)
        for r in itertools.product(*[range(1, n + 1) for n in shape]):
            for seq in (True, False):
                for p in (list(range(N)), list(range(N))[::-1]):
                    yield dict(shape=shape, kind="tucker-decay", data_seed=9, scale=1.0, tol=dict(kind="value", value=0.5),
                               sequential=seq, dimorder=p, verbosity=0, ranks=list(r), form="array")


@cell("C10/hosvd/enumerated-given-ranks", enum=_enum_ranks, shards=(2, 8))
def hosvd_given_ranks(ctx, case):
    _hosvd_body(ctx, case)


# --------------------------------------------------------------------------
# tucker_als
# --------------------------------------------------------------------------


def tucker_data(case) -> np.ndarray:
    """Tucker model of multilinear rank `mlrank` (generic core, orthonormal factors) + relative noise."""
    shape = [int(s) for s in case["shape"]]
    rng = np.random.default_rng([37, int(case["data_seed"])])
    sc = float(case.get("scale", 1.0))
    if case["kind"] == "cp-noise":
        return H.dense_problem(shape, int(case["rtrue"]), int(case["data_seed"]), float(case["noise"])) * sc
    if case["kind"] == "int-noise":  # integer-valued data (rounded low-rank model + integer noise) for an integer holder
        return int_data(shape, rng, case["dtype"], case.get("mag", "medium"), True, int(case.get("rtrue", 2)))
    ml = [int(r) for r in case["mlrank"]]
    G = rng.standard_normal(tuple(ml))
    Q = [_orth(rng, n, r) for n, r in zip(shape, ml)]
    A = H.tucker_fast(G, Q)
    E = rng.standard_normal(tuple(shape))
    return (A + float(case["noise"]) * np.sqrt(H.sq(A) / A.size) * E) * sc


STOPTOLS, PRINTITNS = H.STOPTOLS, H.PRINTITNS


@st.composite
def _tucker_case(draw, tier):
    N = draw(st.sampled_from([2, 3, 3, 3, 4] if tier == "quick" else [2, 3, 3, 4, 4]))
    shape = draw(_shape(tier, N, cap=200 if tier == "quick" else 500, big_one_in=40))
    big = len(shape) >= 5 or ref.prod(shape) > 700
    N = len(shape)
    dtype = draw(st.sampled_from(["float64"] * 10 + ["int64", "int32", "int16", "uint8", "uint16", "int8"]))
    kind = "int-noise" if dtype in INT_RANGE else draw(st.sampled_from(["tucker-noise", "tucker-noise", "cp-noise"]))
    # noise 1e-8 / 1e-6: data that are almost exactly of low multilinear rank (class 6)
    c = dict(shape=shape, kind=kind, data_seed=draw(st.integers(0, 10**6)),
             noise=draw(st.sampled_from([0.0, 1e-8, 1e-6, 1e-3, 0.1, 1.0])), dtype=dtype)
    if dtype in INT_RANGE:
        c["mag"] = draw(st.sampled_from(["small", "medium", "full"]))
        c["rtrue"] = draw(st.integers(1, 3))
        c["noise"] = 0.1
    else:
        c["scale"] = draw(st.sampled_from(SCALES))
    c["prov"] = draw(st.sampled_from(PROVS_F64 if dtype == "float64" else PROVS_ANY))
    if kind == "cp-noise":
        c["rtrue"] = draw(st.integers(1, 3))
        if c["noise"] == 0.0:
            c["noise"] = 1e-3
    else:
        c["mlrank"] = [draw(st.integers(1, n)) for n in shape]
    rank = [draw(st.integers(1, min(n, 8))) for n in shape]
    if draw(st.integers(0, 5)) == 0:
        r = draw(st.integers(1, min(min(shape), 8)))
        rank = [r] * N
        c["rank_form"] = "scalar"
    else:
        c["rank_form"] = draw(st.sampled_from(["list", "array", "tuple"]))
    if draw(st.integers(0, 7)) != 0:
        # make the rank vector feasible (r_n <= product of the other ranks); the infeasible class is kept at a low rate:
        # there the extra columns are arbitrary null-space vectors (chosen by ARPACK's internal random start), so only
        # the per-run clauses are judged for it
        for _ in range(2 * N):
            for n in range(N):
                rank[n] = min(rank[n], ref.prod(rank) // rank[n])
    c["rank"] = rank
    c["init"] = draw(st.sampled_from(["random", "nvecs", "list", "list-orth", "list-eye", "list-zeros", "list-int", "list-unit",
                                      "list-near-orth", "list-near-eye", "list-tiny", "list-huge"]))
    c["init_seed"] = draw(st.integers(0, 10**6))
    c["np_seed"] = draw(st.integers(0, 2**31 - 1))
    c["dimorder"] = draw(st.one_of(st.none(), st.permutations(range(N)).map(list), st.permutations(range(N)).map(list)))
    c["form"] = draw(st.sampled_from(["list", "array", "tuple"]))
    c["maxiters"] = draw(st.integers(1, 5 if tier == "quick" else 7)) if not big else draw(st.integers(1, 3))
    c["stoptol"] = draw(STOPTOLS)
    c["printitn"] = draw(PRINTITNS)
    return c


def _tucker_init(case):
    kind = case["init"]
    if kind in ("random", "nvecs"):
        return kind
    rng = np.random.default_rng([41, int(case["init_seed"])])
    out = []
    for n, r in zip(case["shape"], case["rank"]):
        n, r = int(n), int(r)
        M = rng.standard_normal((n, r))
        if kind == "list-orth":
            M, _ = np.linalg.qr(M)
        elif kind == "list-unit":  # unit-length columns that are not orthogonal
            M = M / np.sqrt(np.sum(M * M, axis=0))[None, :]
        elif kind == "list-near-orth":  # orthonormal up to a relative perturbation 1e-10 .. 1e-5
            M = np.linalg.qr(M)[0] + float(H.NEAR_EPS[int(rng.integers(0, len(H.NEAR_EPS)))]) * rng.standard_normal((n, r))
        elif kind == "list-near-eye":  # leading columns of the identity up to 1e-10 .. 1e-5
            M = np.eye(n)[:, :r] + float(H.NEAR_EPS[int(rng.integers(0, len(H.NEAR_EPS)))]) * M
        elif kind == "list-tiny":  # start of overall magnitude 1e-12 (the method is invariant under scaling of the start)
            M = M * 1e-12
        elif kind == "list-huge":
            M = M * 1e9
        elif kind == "list-eye":  # structured start: r distinct unit vectors (exactly orthogonal, disjoint supports)
            M = np.eye(n)[:, rng.permutation(n)[:r]]
        elif kind == "list-zeros":  # generic start with exact zeros: entries, and one whole row when there is room
            M = np.where(rng.uniform(size=(n, r)) < 0.3, 0.0, M)
            M[np.arange(r) % n, np.arange(r)] = 1.0 + np.arange(r)  # keeps the columns independent
            if n > r:
                M[n - 1, :] = 0.0
        elif kind == "list-int":  # integer-valued start held in an integer array
            M = rng.integers(-3, 4, (n, r))
            M[np.arange(r) % n, np.arange(r)] += 7
            out.append(np.asfortranarray(M.astype(np.int64)))
            continue
        out.append(H.F(M))
    return out


def _tucker_run(X, case, init, maxiters, stoptol, printitn):
    kw = dict(stoptol=stoptol, maxiters=maxiters, init=init, printitn=printitn)
    if case["dimorder"] is not None:
        kw["dimorder"] = _form(case["dimorder"], case["form"])
    rank = case["rank"][0] if case["rank_form"] == "scalar" else _form(case["rank"], case["rank_form"])
    if isinstance(init, str) and init == "random":
        np.random.seed(case["np_seed"])
    with H.captured() as buf:
        res = ttb.tucker_als(X, rank, **kw)
    return res, buf.getvalue()


def hooi_margin(A, Uinit, rank, dimorder, sweeps):
    """NumPy replay of the alternating sweeps from the start actually used; returns the smallest lambda_r / lambda_1 met
    among the Gram matrices whose r leading eigenvectors are requested.  ~0 means that some requested column is an
    arbitrary null-space vector (degenerate request: two runs may differ), whatever the static rank test says; 0 is also
    returned when lambda_r and lambda_{r+1} tie to 1e-10 lambda_1 (the leading subspace is then not unique)."""
    N = A.ndim
    U = [None if u is None else np.asarray(u, dtype=float) for u in Uinit]
    m = 1.0
    for _ in range(sweeps):
        for n in dimorder:
            Y = A
            for k in range(N):
                if k != n:
                    Y = np.moveaxis(np.tensordot(U[k].T, Y, axes=(1, k)), 0, k)
            Yn = H.unfold(Y, n)
            w, v = np.linalg.eigh(Yn @ Yn.T)
            w, v = w[::-1], v[:, ::-1]
            r = int(rank[n])
            if w[0] <= 0:
                return 0.0
            m = min(m, float(w[r - 1] / w[0]))
            if r < len(w):
                # an exact tie lambda_r = lambda_{r+1} (integer-valued data produce them) leaves the leading subspace
                # itself undetermined: reported like a vanishing eigenvalue
                if (w[r - 1] - w[r]) <= 1e-10 * w[0]:
                    return 0.0
            if m < 1e-12:
                return m
            U[n] = v[:, :r]
    return m


def _tucker_reported(ctx, out, A, D, tag):
    n2 = H.sq(A)
    nX = float(np.sqrt(n2))
    ctx.require(isinstance(out, dict) and all(k in out for k in ("fit", "normresidual", "iters")), f"{tag}output-keys")
    fit, nr = out["fit"], out["normresidual"]
    ctx.require(H.is_float(fit) and H.is_float(nr) and np.isfinite(fit) and np.isfinite(nr), f"{tag}fit-is-finite-number",
                (fit, nr))
    fit, nr = float(fit), float(nr)
    err2 = H.sq(A - D)
    ctx.check(nr >= 0 and abs(nr * nr - err2) <= 1e-10 * n2, f"{tag}normresidual-vs-recomputed", (nr * nr, err2))
    ctx.check(abs(((1 - fit) * nX) ** 2 - err2) <= 1e-10 * n2 and fit <= 1 + 1e-12, f"{tag}fit-vs-recomputed",
              f"reported {fit!r} recomputed {1 - np.sqrt(err2) / nX!r}")
    ctx.check(abs((1 - fit) * nX - nr) <= 1e-12 * (nX + nr), f"{tag}fit-vs-normresidual", (fit, nr, nX))
    return err2


@cell("C10/tucker_als/generated", strategy=_tucker_case, quick=1200, thorough=20000, shards=(4, 16))
def tucker_als_generated(ctx, case):
    shape = [int(s) for s in case["shape"]]
    N = len(shape)
    rank = [int(r) for r in case["rank"]]
    A = tucker_data(case)
    n2 = H.sq(A)
    if n2 == 0:
        ctx.skip("zero-data")
    X, prov = hold(A, case.get("dtype", "float64"), case.get("prov", "ctor"), int(case["data_seed"]))
    init = _tucker_init(case)
    snapX, snapI = H.snapshot(X), H.snapshot(init)
    maxiters, stoptol, printitn = int(case["maxiters"]), float(case["stoptol"]), int(case["printitn"])
    ctx.label("dtype-" + case.get("dtype", "float64"), "prov-" + prov, "scale-%g" % float(case.get("scale", 1.0)),
              "long-mode" if max(shape) > 20 else "short-modes",
              "problem-large" if ref.prod(shape) > 700 or N >= 5 else "problem-small", "maxiters-1" if maxiters == 1 else "maxiters>1",
              "stoptol-0" if stoptol == 0 else ("stoptol<1e-6" if stoptol < 1e-6 else ("stoptol>=1e-6" if stoptol < 1 else "stoptol>=1")),
              "printitn-neg" if printitn < 0 else ("printitn-0" if printitn == 0 else
                                                   ("printitn>maxiters" if printitn > maxiters else "printitn-small")))
    dimorder = case["dimorder"] if case["dimorder"] is not None else list(range(N))
    feasible = all(r <= ref.prod(rank) // r for r in rank)
    if case["kind"] == "tucker-noise" and float(case["noise"]) == 0.0 and any(m < r for m, r in zip(case["mlrank"], rank)):
        # exactly rank-deficient data with more columns requested than the data has in a mode: same arbitrariness
        feasible = False
    ctx.label(f"order{N}", "init-" + case["init"], "rank-" + case["rank_form"], case["kind"], f"noise-{case['noise']}",
              "well-posed" if feasible else "degenerate-extra-columns",
              "has-singleton" if 1 in shape else "no-singleton",
              "dimorder-default" if case["dimorder"] is None else ("dimorder-identity" if dimorder == sorted(dimorder)
                                                                   else "dimorder-permuted"))
    # tensor.nvecs goes through ARPACK (start vector from a process-wide Fortran stream that cannot be seeded) whenever
    # r_n < n_n - 1; two runs then agree only up to eps / eigen-gap, so the cross-run clauses get a wider slack
    arpack = any(r < n - 1 for r, n in zip(rank, shape))
    ctx.label("arpack-path" if arpack else "dense-eig-path")
    with ctx.sut("tucker_als"):
        res, text = _tucker_run(X, case, init, maxiters, stoptol, printitn)
    ctx.require(isinstance(res, tuple) and len(res) == 3, "returns-triple")
    T, Uinit, out = res
    ctx.check(H.snapshot(X) == snapX, "data-unchanged")
    ctx.check(H.snapshot(init) == snapI, "guess-unchanged")
    D, got_ranks = _structure(ctx, T, A, "")
    ctx.check(got_ranks == rank, "requested-ranks-are-returned", (got_ranks, rank))
    err2 = _tucker_reported(ctx, out, A, D, "")
    iters = H.as_int(out["iters"])
    ctx.require(iters is not None and 0 <= iters <= maxiters - 1, "iters-within-limit", out["iters"])
    ctx.nt = any(r < n for r, n in zip(rank, shape)) and err2 > 1e-6 * n2
    ctx.label("stopped-early" if iters < maxiters - 1 else "ran-to-limit")
    if feasible:
        # structured starts / data can make a request degenerate along the way (a selected sub-tensor of lower rank):
        # replay the sweeps in NumPy from the start actually used and look at the eigenvalue behind the last requested column
        first = dimorder[0]
        ok_init = isinstance(Uinit, list) and len(Uinit) == N and all(
            isinstance(u, np.ndarray) and u.shape == (shape[k], rank[k]) and np.all(np.isfinite(u))
            for k, u in enumerate(Uinit) if k != first)
        if ok_init and hooi_margin(A, Uinit, rank, dimorder, maxiters) < 1e-12:
            feasible = False
            ctx.label("degenerate-along-the-sweeps")
    if isinstance(init, list):
        same = isinstance(Uinit, list) and len(Uinit) == N and all(
            isinstance(u, np.ndarray) and u.shape == g.shape and np.array_equal(u, g) for u, g in zip(Uinit, init))
        ctx.check(same, "returned-guess-is-the-given-one")
    # printed lines
    its, _, bad = H.parse_iter_lines(text)
    ctx.check(not bad, "printed-lines-parse", bad[:2])
    if printitn <= 0 and case["init"] != "nvecs":
        ctx.check(text.strip() == "", "silent-when-printitn-0", text[:80])
    # truncated runs from the same start
    fits, errs = [], []
    for k in range(1, maxiters + 1):
        with ctx.sut("tucker_als-truncated"):
            resk, _ = _tucker_run(X, case, init, k, 0.0, 0)
        ctx.require(isinstance(resk, tuple) and len(resk) == 3, "truncated-returns-triple")
        Tk, _, outk = resk
        Dk, rk = _structure(ctx, Tk, A, "truncated-")
        ctx.check(rk == rank, "truncated-requested-ranks-are-returned", (rk, rank))
        errs.append(_tucker_reported(ctx, outk, A, Dk, "truncated-"))
        ik = H.as_int(outk["iters"])
        ctx.check(ik == k - 1, "truncated-stoptol0-runs-all-iterations", (ik, k))
        fits.append(float(outk["fit"]))
        if k == iters + 1 and feasible:
            # compared through the residual (well conditioned) and not through the model: a near-degenerate eigen-gap makes
            # the leading subspace itself sensitive to ARPACK's random start while the captured energy is not
            ctx.check(abs(errs[-1] - err2) <= (1e-6 if arpack else 1e-9) * n2, "rerun-truncated-at-reported-iters-reproduces-fit",
                      f"||X-T||^2 = {err2!r}, rerun {errs[-1]!r}, ||X||^2 = {n2!r}")
    # one fully printed run: the fit of a single run never decreases (7 printed digits -> slack 2e-6)
    with ctx.sut("tucker_als-printing"):
        resp, textp = _tucker_run(X, case, init, maxiters, 0.0, 1)
    itp, _, badp = H.parse_iter_lines(textp)
    ctx.check(not badp and [i for i, _, _ in itp] == list(range(maxiters)), "printing-every-iteration-listed",
              ([i for i, _, _ in itp], badp[:1]))
    pf = [f for _, f, _ in itp]
    ctx.check(all(pf[k] >= pf[k - 1] - 2e-6 for k in range(1, len(pf))), "printed-fit-never-decreases", pf)
    if isinstance(resp, tuple) and len(resp) == 3 and isinstance(resp[2], dict) and H.is_float(resp[2].get("fit")) and pf:
        ctx.check(H.printed_close(pf[-1], float(resp[2]["fit"])), "printing-last-fit-equals-reported-fit", (pf[-1], resp[2]["fit"]))
    if not feasible:
        return
    for k in range(1, len(errs)):
        ctx.check(errs[k] <= errs[k - 1] + (1e-7 if arpack else 1e-9) * n2, "fit-never-decreases",
                  f"||X-T||^2 after {k} sweeps {errs[k - 1]!r}, after {k + 1} sweeps {errs[k]!r}")
    if printitn > 0 and not bad:
        idx = [i for i, _, _ in its]
        want = [k for k in range(iters + 1) if k % printitn == 0]
        ctx.check(idx == want, "printed-iterations", (idx, want))
        ctx.check(all(i < len(fits) and H.printed_close(f, fits[i]) for i, f, _ in its), "printed-fit-equals-fit-of-truncated-run",
                  [(i, f) for i, f, _ in its][:4])
    deltas = [abs(fits[k] - (fits[k - 1] if k else 0.0)) for k in range(len(fits))]
    margin = 1e-6 if arpack else 1e-9  # the fits come from separate runs (see the ARPACK remark above)
    if stoptol > 0:
        if iters < maxiters - 1:
            ctx.check(deltas[iters] < stoptol + margin, "stopped-only-when-change-below-stoptol", (iters, deltas, stoptol))
        ctx.check(not [k for k in range(iters) if deltas[k] < stoptol - margin], "stops-at-first-change-below-stoptol",
                  (iters, deltas, stoptol))
    else:
        ctx.check(iters == maxiters - 1, "stoptol0-runs-all-iterations", (iters, maxiters))
    ctx.check(H.snapshot(X) == snapX, "data-unchanged")
    ctx.check(H.snapshot(init) == snapI, "guess-unchanged")


# --------------------------------------------------------------------------
# class 9: the same data / start objects kept alive across calls and edited between calls
# --------------------------------------------------------------------------


def _edit_tensor(X, rng, n_edits):
    """item assignment on a dense tensor: 1..3 entries get another value of the same kind (integer for integer holders)"""
    data = np.asarray(X.data)
    rms = float(np.sqrt(np.mean(data.astype(float) ** 2))) or 1.0
    for _ in range(n_edits):
        idx = tuple(int(rng.integers(0, n)) for n in X.shape)
        if data.dtype.kind in "iu":
            lo, hi = int(data.min()), int(data.max())
            new = int(rng.integers(lo, hi + 1))
            X[idx] = new if new != int(data[idx]) else (lo if new != lo else hi)
        else:
            X[idx] = float(data[idx]) + float(rng.choice([-1.0, 1.0])) * rms * float(rng.uniform(0.5, 2.0))


def _hosvd_judge(ctx, T, A, tol, case, tag):
    D, ranks = _structure(ctx, T, A, tag, case.get("dtype") == "float32")
    n2 = H.sq(A)
    if case["ranks"] is None:
        ctx.check(H.sq(A - D) <= tol * tol * n2 * (1 + 1e-9) + 64 * ref.EPS * sum(A.shape) * n2, tag + "relative-error-within-tol",
                  f"||X-T||^2/||X||^2 = {H.sq(A - D) / n2!r} > tol^2 = {tol * tol!r} (ranks {ranks} of {list(A.shape)})")
    else:
        ctx.check(ranks == [int(r) for r in case["ranks"]], tag + "given-ranks-are-returned", (case["ranks"], ranks))


def _snap_tt(T):
    return H.snapshot(T)


@st.composite
def _hosvd_live_case(draw, tier):
    c = draw(_hosvd_case(tier))
    if c["dtype"] == "float32":
        c["dtype"] = "float64"
    c["verbosity"] = draw(st.sampled_from([0, 0, 1]))
    c["edit_seed"] = draw(st.integers(0, 10**6))
    c["n_edits"] = draw(st.integers(1, 3))
    return c


@cell("C10/hosvd/live-objects", strategy=_hosvd_live_case, quick=500, thorough=8000, shards=(4, 16))
def hosvd_live_objects(ctx, case):
    """the data object stays alive over three calls and is edited by item assignment between them; every call is judged
    against the values the object holds at that time; results of earlier calls must stay what they were; writing into a
    result must not reach the data."""
    A = hosvd_data(case)
    if H.sq(A) == 0 or not np.isfinite(H.sq(A)):
        ctx.skip("zero-data")
    dtype = case.get("dtype", "float64")
    X, prov = hold(A, dtype, case.get("prov", "ctor"), int(case["data_seed"]))
    tol, tlabel = resolve_tol(case, A)
    kw = dict(verbosity=case["verbosity"], sequential=bool(case["sequential"]))
    if case["dimorder"] is not None:
        kw["dimorder"] = _form(case["dimorder"], case["form"])
    if case["ranks"] is not None:
        kw["ranks"] = _form(case["ranks"], case["form"])
    ctx.label("dtype-" + dtype, "prov-" + prov, case["kind"], "sequential" if case["sequential"] else "all-at-once",
              "ranks-given" if case["ranks"] is not None else "ranks-auto", f"order{A.ndim}")
    rng = np.random.default_rng([97, int(case["edit_seed"])])
    results = []
    cur = A
    for step in range(3):
        if step:
            with ctx.sut("item-assignment-on-the-data"):
                _edit_tensor(X, rng, int(case["n_edits"]))
            cur = ref.den(X)
            if H.sq(cur) == 0 or not np.all(np.isfinite(cur)):
                ctx.skip("zero-data")
        snapX = H.snapshot(X)
        with ctx.sut("hosvd"):
            with H.captured():
                T = ttb.hosvd(X, tol, **kw)
        tag = ["first-", "data-edited-", "data-edited-twice-"][step]
        _hosvd_judge(ctx, T, cur, tol, case, tag)
        ctx.check(H.snapshot(X) == snapX, "data-unchanged")
        for k, (Tp, sp) in enumerate(results):
            ctx.check(_snap_tt(Tp) == sp, "earlier-results-unchanged-by-editing-the-data-and-calling-again", k)
        results.append((T, _snap_tt(T)))
    ctx.nt = any(u.shape[1] < u.shape[0] for u in results[-1][0].factor_matrices)
    # the caller writes into the last result: neither the data nor the earlier results may change
    snapX = H.snapshot(X)
    T = results[-1][0]
    with ctx.sut("item-assignment-on-the-result"):
        T.core[tuple(0 for _ in T.core.shape)] = 12345.0
        for u in T.factor_matrices:
            u[...] = 7.0
    ctx.check(H.snapshot(X) == snapX, "editing-the-result-leaves-the-data-alone")
    for k, (Tp, sp) in enumerate(results[:-1]):
        ctx.check(_snap_tt(Tp) == sp, "editing-the-result-leaves-earlier-results-alone", k)


@st.composite
def _tucker_live_case(draw, tier):
    c = draw(_tucker_case(tier))
    c["init"] = draw(st.sampled_from(["list", "list", "list-orth", "list-zeros", "random", "nvecs"]))
    c["maxiters"] = draw(st.integers(1, 3))
    c["stoptol"] = draw(st.sampled_from([0.0, 0.0, 1e-3]))
    c["printitn"] = draw(st.sampled_from([0, 0, 1]))
    c["edit_seed"] = draw(st.integers(0, 10**6))
    c["n_edits"] = draw(st.integers(1, 3))
    return c


def _tucker_judge(ctx, res, A, rank, tag):
    ctx.require(isinstance(res, tuple) and len(res) == 3, tag + "returns-triple")
    T, Uinit, out = res
    D, got = _structure(ctx, T, A, tag)
    ctx.check(got == rank, tag + "requested-ranks-are-returned", (got, rank))
    _tucker_reported(ctx, out, A, D, tag)
    return T, Uinit, out


@cell("C10/tucker_als/live-objects", strategy=_tucker_live_case, quick=300, thorough=3000, shards=(4, 16))
def tucker_live_objects(ctx, case):
    """data object and the list of start matrices stay alive over the calls; the data are edited by item assignment, then the
    start matrices are edited in place; every call is judged against the current state; earlier results and returned starts
    must stay what they were; writing into the results must reach neither the data nor the caller's start matrices."""
    shape = [int(s) for s in case["shape"]]
    rank = [int(r) for r in case["rank"]]
    A = tucker_data(case)
    if H.sq(A) == 0:
        ctx.skip("zero-data")
    X, prov = hold(A, case.get("dtype", "float64"), case.get("prov", "ctor"), int(case["data_seed"]))
    init = _tucker_init(case)
    maxiters, stoptol, printitn = int(case["maxiters"]), float(case["stoptol"]), int(case["printitn"])
    ctx.label("dtype-" + case.get("dtype", "float64"), "prov-" + prov, "init-" + case["init"], f"order{len(shape)}")
    ctx.nt = any(r < n for r, n in zip(rank, shape))
    rng = np.random.default_rng([101, int(case["edit_seed"])])

    def snap_res(res):
        return (H.snapshot(res[0]), H.snapshot(res[1]))

    with ctx.sut("tucker_als-first"):
        r1, _ = _tucker_run(X, case, init, maxiters, stoptol, printitn)
    _tucker_judge(ctx, r1, A, rank, "first-")
    s1 = snap_res(r1)
    with ctx.sut("item-assignment-on-the-data"):
        _edit_tensor(X, rng, int(case["n_edits"]))
    A2 = ref.den(X)
    if H.sq(A2) == 0 or not np.all(np.isfinite(A2)):
        ctx.skip("zero-data")
    snapX, snapI = H.snapshot(X), H.snapshot(init)
    with ctx.sut("tucker_als-after-editing-the-data"):
        r2, _ = _tucker_run(X, case, init, maxiters, stoptol, printitn)
    _tucker_judge(ctx, r2, A2, rank, "data-edited-")
    ctx.check(H.snapshot(X) == snapX, "data-unchanged")
    ctx.check(H.snapshot(init) == snapI, "guess-unchanged")
    ctx.check(snap_res(r1) == s1, "earlier-results-unchanged-by-editing-the-data-and-calling-again")
    s2 = snap_res(r2)
    r3 = None
    if isinstance(init, list):
        # the caller's start matrices are edited in place (entries, or a whole matrix overwritten)
        for _ in range(int(case["n_edits"])):
            k = int(rng.integers(0, len(init)))
            M = init[k]
            if rng.uniform() < 0.5:
                i, j = int(rng.integers(0, M.shape[0])), int(rng.integers(0, M.shape[1]))
                M[i, j] = M[i, j] + (1 if M.dtype.kind in "iu" else float(rng.uniform(0.5, 2.0)))
            else:
                M[...] = rng.integers(-3, 4, M.shape) if M.dtype.kind in "iu" else rng.standard_normal(M.shape)
                M[np.arange(M.shape[1]) % M.shape[0], np.arange(M.shape[1])] += 5
        ctx.check((H.snapshot(r1[1]), H.snapshot(r2[1])) == (s1[1], s2[1]), "returned-guesses-unchanged-by-editing-the-callers-guess")
        snapI = H.snapshot(init)
        with ctx.sut("tucker_als-after-editing-the-guess"):
            r3, _ = _tucker_run(X, case, init, maxiters, stoptol, printitn)
        _, U3, _ = _tucker_judge(ctx, r3, A2, rank, "guess-edited-")
        same = isinstance(U3, list) and len(U3) == len(init) and all(
            isinstance(u, np.ndarray) and u.shape == g.shape and np.array_equal(u, g) for u, g in zip(U3, init))
        ctx.check(same, "returned-guess-is-the-given-one")
        ctx.check(H.snapshot(init) == snapI, "guess-unchanged")
    last = r3 if r3 is not None else r2
    # the caller writes into everything the last call returned
    with ctx.sut("item-assignment-on-the-result"):
        last[0].core[tuple(0 for _ in last[0].core.shape)] = 12345.0
        for u in last[0].factor_matrices:
            u[...] = 7.0
        if isinstance(last[1], list):
            for u in last[1]:
                if isinstance(u, np.ndarray):
                    u[...] = 7
    ctx.check(H.snapshot(X) == snapX and H.snapshot(init) == snapI, "editing-the-results-leaves-data-and-guess-alone")
    ctx.check(snap_res(r1) == s1 and (r3 is None or snap_res(r2) == s2), "editing-the-results-leaves-earlier-results-alone")


# --------------------------------------------------------------------------
# round 4, class 11: the same request in two presentations
# --------------------------------------------------------------------------

# how a vector of small non-negative integers (ranks, mode order) reaches the library.  "scalars": a list of NumPy integer
# scalars (what `for n in np.arange(N)` or entries of a shape array give); "readonly" / "strided": array views
_IDT = ["int64", "int32", "int16", "int8", "uint8", "uint16", "uint32", "uint64"]
INT_FORMS = (["list", "tuple"] + ["array-" + d for d in _IDT] + ["scalars-" + d for d in _IDT]
             + ["tuple-scalars-uint16", "tuple-scalars-int32", "readonly-uint8", "readonly-int64", "strided-int32",
                "strided-uint64", "strided-uint8", "array-uint8", "array-uint64", "array-uint16"])


def present(v, form):
    """the integer vector v in the given presentation"""
    if v is None:
        return None
    v = [int(x) for x in v]
    if form == "list":
        return list(v)
    if form == "tuple":
        return tuple(v)
    if form.startswith("bare"):  # a single entry given without its container (Python int or NumPy scalar)
        return v[0] if form == "bare" else np.dtype(form[5:]).type(v[0])
    kind, dt = form.rsplit("-", 1)
    if kind == "array":
        return np.array(v, dtype=dt)
    if kind == "scalars":
        return [np.dtype(dt).type(x) for x in v]
    if kind == "tuple-scalars":
        return tuple(np.dtype(dt).type(x) for x in v)
    if kind == "readonly":
        a = np.array(v, dtype=dt)
        a.setflags(write=False)
        return a
    if kind == "strided":
        big = np.zeros(2 * len(v), dtype=dt)
        big[::2] = v
        return big[::2]
    raise ValueError(form)


@st.composite
def _int_form(draw, n_entries, bare_ok=False):
    if bare_ok and n_entries == 1 and draw(st.booleans()):
        return draw(st.sampled_from(["bare", "bare-int64", "bare-int32", "bare-uint8", "bare-uint64"]))
    return draw(st.sampled_from(INT_FORMS))


def _unsigned(form):
    return form is not None and "uint" in form


class _debug_logging:
    """root logger at DEBUG with a NullHandler, and the process-wide `logging.disable` of core.evaluate lifted, for the
    duration of the block (class 13: the logging level of the process must not change what is computed)"""

    def __enter__(self):
        import logging

        self.logging = logging
        self.root = logging.getLogger()
        self.level = self.root.level
        self.disabled = logging.root.manager.disable
        # pyttb logs through the module-level functions, which install a stderr handler on first use: park every handler
        # that is there and leave a NullHandler only, so that nothing is printed
        self.parked = list(self.root.handlers)
        for h in self.parked:
            self.root.removeHandler(h)
        self.handler = logging.NullHandler()
        self.root.addHandler(self.handler)
        self.root.setLevel(logging.DEBUG)
        logging.disable(logging.NOTSET)
        return self

    def __exit__(self, *exc):
        self.root.setLevel(self.level)
        for h in list(self.root.handlers):  # the NullHandler and whatever a logging call installed meanwhile
            self.root.removeHandler(h)
        for h in self.parked:
            self.root.addHandler(h)
        self.logging.disable(self.disabled)
        return False


def _judge_h(ctx, T, A, tol, ranks_in, tag, f32=False, rel=1e-9):
    """the property's clauses for one hosvd result; returns (den(T), ranks, ||X - T||^2)"""
    D, ranks = _structure(ctx, T, A, tag, f32)
    n2 = H.sq(A)
    err2 = H.sq(A - D)
    if ranks_in is None:
        slack = (max(rel, 1e-4), 1e-9) if f32 else (rel, 64 * ref.EPS * sum(A.shape))
        ctx.check(err2 <= tol * tol * n2 * (1 + slack[0]) + slack[1] * n2, tag + "relative-error-within-tol",
                  f"||X-T||^2/||X||^2 = {err2 / n2!r} > tol^2 = {tol * tol!r} (ranks {ranks} of {list(A.shape)})")
    else:
        ctx.check(ranks == [int(r) for r in ranks_in], tag + "given-ranks-are-returned", (ranks_in, ranks))
    return D, ranks, err2


@st.composite
def _hosvd_pres_case(draw, tier):
    c = draw(_hosvd_case(tier))
    N = len(c["shape"])
    c["verbosity"] = draw(st.sampled_from([0, 0, 0, -1, 1]))
    if draw(st.booleans()):
        c["ranks"] = [draw(st.integers(1, n)) for n in c["shape"]]
    else:
        c["ranks"] = None
    c["ranks_form"] = draw(_int_form(N, bare_ok=True))
    c["dimorder_form"] = draw(_int_form(N, bare_ok=True))
    c["tol_form"] = draw(st.sampled_from(["float", "float", "np.float64", "np.float32", "np.float32"]))
    # the data in a second holder: same values reached another way / held in another dtype
    c["data_alt"] = draw(st.sampled_from(["same", "same", "same", "other-prov", "float64-holder", "readonly-buffer"]))
    c["prov2"] = draw(st.sampled_from(PROVS_ANY))
    c["positional"] = draw(st.booleans())
    c["seq_form"] = draw(st.sampled_from(["bool", "np.bool_"]))
    return c


def _readonly_holder(A, dtype):
    """tensor built without copying on a read-only F-ordered buffer (what np.load(mmap_mode='r') or a frozen array gives)"""
    buf = np.asfortranarray(np.asarray(A, dtype=float).astype(np.dtype(dtype)))
    buf.setflags(write=False)
    X = ttb.tensor(buf, copy=False)
    if isinstance(X, ttb.tensor) and tuple(X.shape) == tuple(A.shape) and not np.asarray(X.data).flags.writeable:
        return X
    return None


def _present_tol(tol, form):
    if form == "np.float64":
        return np.float64(tol)
    if form == "np.float32":
        return np.float32(tol)
    return float(tol)


def _arg_snap(*args):
    return tuple(H.snapshot(a) if isinstance(a, np.ndarray) else None for a in args)


@cell("C10/hosvd/presentations", strategy=_hosvd_pres_case, quick=300, thorough=3000, shards=(4, 16))
def hosvd_presentations(ctx, case):
    """the same hosvd request in two presentations: ranks / mode order as list of Python ints vs tuple, ndarray of any signed or
    unsigned integer dtype, list of NumPy integer scalars, read-only or strided view, bare entry for one mode; tol as Python
    float vs np.float64 / np.float32 scalar; options by keyword vs positionally; the data in a second holder.  Both results
    must satisfy the property's clauses, have the same ranks (when the automatic choice does not sit on a rounding edge) and
    the same model; the caller's argument arrays must stay what they were."""
    shape = [int(s) for s in case["shape"]]
    N = len(shape)
    A = hosvd_data(case)
    dtype = case.get("dtype", "float64")
    f32 = dtype == "float32"
    if f32:
        A = A.astype(np.float32).astype(float)
    n2 = H.sq(A)
    if n2 == 0 or not np.isfinite(n2):
        ctx.skip("zero-data")
    tol, tlabel = resolve_tol(case, A)
    if f32:
        tol = max(tol, 1e-2)
    tol_form = case["tol_form"]
    if tol_form == "np.float32":
        # np.float32 arithmetic flushes tol^2 ||X||^2 / d towards the subnormal range for tiny data with a tiny tol: the request
        # is then made with an np.float64 scalar instead (single-precision thresholds are judged in their normal range only)
        if tol * tol * n2 / N < 1e-36 or not (0.0 < float(np.float32(tol)) < 1.0):
            tol_form = "np.float64"
        else:
            tol = float(np.float32(tol))
    ranks_in = case["ranks"]
    dimorder = case["dimorder"]
    data_alt = case["data_alt"]
    X2, prov2 = hold(A, dtype, case.get("prov", "ctor"), int(case["data_seed"]))
    if data_alt == "readonly-buffer":
        X1, Xr = X2, _readonly_holder(A, dtype)
        if Xr is None:
            data_alt = "same"
        else:
            X2 = Xr
    elif data_alt == "same":
        X1 = X2
    elif data_alt == "other-prov":
        X1, _ = hold(A, dtype, case["prov2"], int(case["data_seed"]) + 1)
    else:  # the same values in a float64 holder built by the constructor
        X1, _ = hold(A, "float64", "ctor", int(case["data_seed"]))
        if dtype == "float64" and prov2 == "ctor":
            data_alt = "same-values-second-object"
    rform = case["ranks_form"] if ranks_in is not None else None
    dform = case["dimorder_form"] if dimorder is not None else None
    ctx.label("dtype-" + dtype, "data-" + data_alt, "tol-as-" + tol_form, tlabel, f"order{N}", case["kind"],
              "ranks-" + (rform or "auto"), "dimorder-" + (dform or "default"),
              "ranks-unsigned" if _unsigned(rform) else ("ranks-auto" if rform is None else "ranks-signed"),
              "dimorder-unsigned" if _unsigned(dform) else ("dimorder-default" if dform is None else "dimorder-signed"),
              "positional" if case["positional"] else "keywords", "sequential" if case["sequential"] else "all-at-once")
    seq = bool(case["sequential"])
    seq_arg = np.bool_(seq) if case.get("seq_form") == "np.bool_" else seq  # e.g. the result of a NumPy comparison

    def plain(X, t):
        kw = dict(verbosity=0, sequential=seq)
        if dimorder is not None:
            kw["dimorder"] = [int(k) for k in dimorder]
        if ranks_in is not None:
            kw["ranks"] = [int(r) for r in ranks_in]
        with H.captured():
            return ttb.hosvd(X, float(t), **kw)

    with ctx.sut("hosvd-plain"):
        T0 = plain(X1, tol)
    D0, ranks0, err0 = _judge_h(ctx, T0, A, tol, ranks_in, "plain-", np.asarray(X1.data).dtype == np.float32)
    # presented request
    r_arg, d_arg = present(ranks_in, rform), present(dimorder, dform)
    t_arg = _present_tol(tol, tol_form)
    verbosity = case["verbosity"]
    snapX, snapA = H.snapshot(X2), _arg_snap(r_arg, d_arg)
    with ctx.sut("hosvd-presented"):
        with H.captured():
            if case["positional"]:
                T1 = ttb.hosvd(X2, t_arg, verbosity, d_arg, seq_arg, r_arg)
            else:
                kw = dict(verbosity=verbosity, sequential=seq_arg)
                if d_arg is not None:
                    kw["dimorder"] = d_arg
                if r_arg is not None:
                    kw["ranks"] = r_arg
                T1 = ttb.hosvd(X2, t_arg, **kw)
    ctx.check(H.snapshot(X2) == snapX, "data-unchanged")
    ctx.check(_arg_snap(r_arg, d_arg) == snapA, "argument-arrays-unchanged")
    rel = 1e-6 if tol_form == "np.float32" else 1e-9  # a single-precision tol fixes tol^2 to 1e-7 relative
    D1, ranks1, err1 = _judge_h(ctx, T1, A, tol, ranks_in, "presented-", f32, rel)
    ctx.nt = any(r < n for r, n in zip(ranks1, shape)) and err1 > 1e-6 * n2
    # the same answer.  Automatic ranks: when the request differs by rounding (single-precision tol, second holder) the choice
    # is compared only where it is the same for tol (1 - delta) and tol (1 + delta)
    delta = 0.0
    if ranks_in is None:
        if tol_form == "np.float32":
            delta = 1e-5
        if X1 is not X2:
            delta = max(delta, 1e-3 if f32 else 1e-7)
    stable = True
    if delta > 0:
        with ctx.sut("hosvd-plain"):
            lo, hi = plain(X1, tol * (1 - delta)), plain(X1, min(tol * (1 + delta), 1 - 1e-15))
        stable = [u.shape[1] for u in lo.factor_matrices] == [u.shape[1] for u in hi.factor_matrices] == ranks0
    ctx.label("choice-stable" if stable else "choice-on-a-rounding-edge")
    if stable:
        ctx.check(ranks1 == ranks0, "same-ranks-in-both-presentations", (ranks0, ranks1))
        if ranks1 == ranks0:
            if X1 is X2:
                ctx.check(H.sq(D1 - D0) <= 1e-20 * n2, "same-model-in-both-presentations",
                          f"||T1 - T0||^2 = {H.sq(D1 - D0)!r}, ||X||^2 = {n2!r}")
            else:
                # another holder: the Gram matrices agree to rounding only, so tied directions may be split differently;
                # the captured energy is well conditioned
                ctx.check(abs(err1 - err0) <= (1e-4 if f32 else 1e-9) * n2, "same-error-in-both-presentations", (err0, err1))


_INIT_FORMS = ["same", "c-order", "float32", "readonly", "strided", "first-none", "c-order", "float32"]


def _present_init(init, form, first):
    """(baseline list, presented list): the same start matrices as F-ordered float64 arrays and in another presentation"""
    if not isinstance(init, list):
        return init, init
    base, alt = [], []
    for k, M in enumerate(init):
        if form == "float32" and M.dtype.kind == "f":
            M32 = np.asfortranarray(M.astype(np.float32))
            base.append(np.asfortranarray(M32.astype(float)))
            alt.append(M32)
            continue
        base.append(M)
        if form == "c-order":
            alt.append(np.ascontiguousarray(M))
        elif form == "readonly":
            R = M.copy(order="F")
            R.setflags(write=False)
            alt.append(R)
        elif form == "strided":
            big = np.zeros((2 * M.shape[0], M.shape[1]), dtype=M.dtype)
            big[::2] = M
            alt.append(big[::2])
        elif form == "first-none" and k == first:
            alt.append(None)  # what a previous call returns as its start for the mode solved first
        else:
            alt.append(M)
    return base, alt


@st.composite
def _tucker_pres_case(draw, tier):
    c = draw(_tucker_case(tier))
    N = len(c["shape"])
    if c["dtype"] == "float64" and draw(st.integers(0, 5)) == 0:
        c["dtype"] = "float32"
        c["prov"] = draw(st.sampled_from(PROVS_ANY))
    c["init"] = draw(st.sampled_from(["random", "nvecs", "list", "list", "list-orth", "list-zeros", "list-int", "list-unit",
                                      "list-near-eye", "list-tiny", "list-huge"]))
    c["maxiters"] = draw(st.integers(1, 3))
    c["stoptol"] = draw(st.sampled_from([0.0, 0.0, 0.0, 1e-3, 2.5]))
    c["printitn"] = draw(st.sampled_from([0, 0, 0, 1]))
    scalar_ok = len(set(c["rank"])) == 1
    c["rank_form2"] = draw(_int_form(1, bare_ok=True)) if scalar_ok and draw(st.booleans()) else draw(_int_form(N))
    c["dimorder_form"] = draw(_int_form(N))
    c["init_form"] = draw(st.sampled_from(_INIT_FORMS))
    c["maxiters_form"] = draw(st.sampled_from(["int", "int64", "int32", "uint8", "uint64"]))
    c["printitn_form"] = draw(st.sampled_from(["int", "int64", "int16"]))
    c["stoptol_form"] = draw(st.sampled_from(["float", "np.float64", "np.float32"]))
    c["data_alt"] = draw(st.sampled_from(["same", "same", "float64-holder", "readonly-buffer"]))
    c["positional"] = draw(st.booleans())
    return c


def _np_int(v, form):
    return int(v) if form == "int" else np.dtype(form).type(v)


def _judge_t(ctx, res, A, rank, tag, f32=False):
    ctx.require(isinstance(res, tuple) and len(res) == 3, tag + "returns-triple")
    T, Uinit, out = res
    D, got = _structure(ctx, T, A, tag, f32)
    ctx.check(got == rank, tag + "requested-ranks-are-returned", (got, rank))
    if not f32:
        err2 = _tucker_reported(ctx, out, A, D, tag)
    else:
        # float32 data: ||X|| is taken in single precision (1e-7 relative), so the reported quantities are judged to 1e-5 ||X||^2
        n2 = H.sq(A)
        nX = float(np.sqrt(n2))
        ctx.require(isinstance(out, dict) and all(k in out for k in ("fit", "normresidual", "iters")), f"{tag}output-keys")
        fit, nr = out["fit"], out["normresidual"]
        ctx.require(H.is_float(fit) and H.is_float(nr) and np.isfinite(fit) and np.isfinite(nr), f"{tag}fit-is-finite-number",
                    (fit, nr))
        fit, nr = float(fit), float(nr)
        err2 = H.sq(A - D)
        ctx.check(nr >= 0 and abs(nr * nr - err2) <= 1e-5 * n2, f"{tag}normresidual-vs-recomputed", (nr * nr, err2))
        ctx.check(abs(((1 - fit) * nX) ** 2 - err2) <= 1e-5 * n2 and fit <= 1 + 1e-6, f"{tag}fit-vs-recomputed",
                  f"reported {fit!r} recomputed {1 - np.sqrt(err2) / nX!r}")
    return T, Uinit, out, err2



def _well_posed(case, A, U0, rank, order, sweeps):
    """False for requests whose extra columns are arbitrary (see ASSUMPTIONS): cross-run comparisons are not made for them"""
    shape = list(A.shape)
    N = len(shape)
    if not all(r <= ref.prod(rank) // r for r in rank):
        return False
    if case["kind"] == "tucker-noise" and float(case["noise"]) == 0.0 and any(m < r for m, r in zip(case["mlrank"], rank)):
        return False
    ok_init = isinstance(U0, list) and len(U0) == N and all(
        isinstance(u, np.ndarray) and u.shape == (shape[k], rank[k]) and np.all(np.isfinite(u))
        for k, u in enumerate(U0) if k != order[0])
    return bool(ok_init and hooi_margin(A, U0, rank, order, sweeps) >= 1e-12)


@cell("C10/tucker_als/presentations", strategy=_tucker_pres_case, quick=100, thorough=1000, shards=(4, 16))
def tucker_presentations(ctx, case):
    """the same tucker_als request in two presentations: rank / mode order in every integer form (scalar where all ranks are
    equal), start matrices C-ordered / float32 / read-only / strided / with None for the mode solved first, maxiters and
    printitn as NumPy integer scalars, stoptol as NumPy float scalar, options positionally, data in a second holder (float32
    and integer dtypes vs float64).  Both runs must satisfy the property's clauses, take the same number of sweeps (stoptol 0)
    and reach the same residual; the caller's arrays must stay what they were."""
    shape = [int(s) for s in case["shape"]]
    N = len(shape)
    rank = [int(r) for r in case["rank"]]
    A = tucker_data(case)
    dtype = case.get("dtype", "float64")
    f32 = dtype == "float32"
    if f32:
        A = A.astype(np.float32).astype(float)
    n2 = H.sq(A)
    if n2 == 0 or not np.isfinite(n2):
        ctx.skip("zero-data")
    X2, prov = hold(A, dtype, case.get("prov", "ctor"), int(case["data_seed"]))
    if case["data_alt"] == "readonly-buffer":
        X1 = X2
        X2 = _readonly_holder(A, dtype) or X2
    else:
        X1 = X2 if case["data_alt"] == "same" else hold(A, "float64", "ctor", int(case["data_seed"]))[0]
    dimorder = case["dimorder"]
    order = [int(k) for k in dimorder] if dimorder is not None else list(range(N))
    init0, init1 = _present_init(_tucker_init(case), case["init_form"], order[0])
    maxiters, stoptol, printitn = int(case["maxiters"]), float(case["stoptol"]), int(case["printitn"])
    if case["stoptol_form"] == "np.float32":
        stoptol = float(np.float32(stoptol))
    rform = case["rank_form2"]
    dform = case["dimorder_form"] if dimorder is not None else None
    arpack = any(r < n - 1 for r, n in zip(rank, shape))
    ctx.label("dtype-" + dtype, "prov-" + prov, "data-" + case["data_alt"], "init-" + case["init"],
              "init-as-" + (case["init_form"] if isinstance(init1, list) else "string"), "rank-" + rform,
              "rank-unsigned" if _unsigned(rform) else "rank-signed", "dimorder-" + (dform or "default"),
              "dimorder-unsigned" if _unsigned(dform) else ("dimorder-default" if dform is None else "dimorder-signed"),
              "maxiters-" + case["maxiters_form"], "stoptol-" + case["stoptol_form"], "positional" if case["positional"] else "keywords",
              "arpack-path" if arpack else "dense-eig-path", f"order{N}")
    ctx.nt = any(r < n for r, n in zip(rank, shape))

    def seed():
        if case["init"] == "random":
            np.random.seed(case["np_seed"])

    with ctx.sut("tucker_als-plain"):
        seed()
        with H.captured():
            kw = dict(stoptol=stoptol, maxiters=maxiters, init=init0, printitn=0)
            if dimorder is not None:
                kw["dimorder"] = list(order)
            res0 = ttb.tucker_als(X1, list(rank), **kw)
    _, U0, out0, err0 = _judge_t(ctx, res0, A, rank, "plain-", np.asarray(X1.data).dtype == np.float32)
    r_arg, d_arg = present(rank if not rform.startswith("bare") else rank[:1], rform), present(dimorder, dform)
    m_arg, p_arg = _np_int(maxiters, case["maxiters_form"]), _np_int(printitn, case["printitn_form"])
    s_arg = _present_tol(stoptol, case["stoptol_form"])
    snapX, snapI, snapA = H.snapshot(X2), H.snapshot(init1), _arg_snap(r_arg, d_arg)
    with ctx.sut("tucker_als-presented"):
        seed()
        with H.captured():
            if case["positional"]:
                res1 = ttb.tucker_als(X2, r_arg, s_arg, m_arg, d_arg, init1, p_arg)
            else:
                kw = dict(stoptol=s_arg, maxiters=m_arg, init=init1, printitn=p_arg)
                if d_arg is not None:
                    kw["dimorder"] = d_arg
                res1 = ttb.tucker_als(X2, r_arg, **kw)
    ctx.check(H.snapshot(X2) == snapX, "data-unchanged")
    ctx.check(H.snapshot(init1) == snapI, "guess-unchanged")
    ctx.check(_arg_snap(r_arg, d_arg) == snapA, "argument-arrays-unchanged")
    _, U1, out1, err1 = _judge_t(ctx, res1, A, rank, "presented-", f32)
    if isinstance(init1, list):
        same = isinstance(U1, list) and len(U1) == N and all(
            (g is None and u is None) or (isinstance(u, np.ndarray) and g is not None and u.shape == g.shape and np.array_equal(u, g))
            for u, g in zip(U1, init1))
        ctx.check(same, "returned-guess-is-the-given-one")
    it0, it1 = H.as_int(out0["iters"]), H.as_int(out1["iters"])
    ctx.require(it0 is not None and it1 is not None and 0 <= it1 <= maxiters - 1, "iters-within-limit", (out0["iters"], out1["iters"]))
    feasible = _well_posed(case, A, U0, rank, order, maxiters)
    ctx.label("well-posed" if feasible else "degenerate")
    if stoptol == 0 or stoptol > 2:
        ctx.check(it0 == it1, "same-number-of-sweeps-in-both-presentations", (it0, it1))
    if feasible and it0 == it1:
        # float32 start matrices: with integer / float32 data NumPy forms data x start in single precision, so the first sweep
        # is a single-precision computation (with float64 data the product is formed in float64 and nothing changes)
        single = f32 or (case["init_form"] == "float32" and isinstance(init1, list))
        bound = 1e-5 if single else (1e-6 if arpack else 1e-9)
        ctx.check(abs(err1 - err0) <= bound * n2, "same-residual-in-both-presentations",
                  f"||X-T||^2 plain {err0!r}, presented {err1!r}, ||X||^2 = {n2!r}")


# --------------------------------------------------------------------------
# round 4, class 13: reporting options and the logging level of the process
# --------------------------------------------------------------------------


@st.composite
def _hosvd_report_case(draw, tier):
    c = draw(_hosvd_case(tier))
    c["verbosity"] = draw(st.sampled_from([-1, 0, 0]))
    c["verbosity2"] = draw(st.sampled_from([1, 1, 3, 6, 6, 11, 0.5, 2.5, 5, 5.5, 1000, 0, -7.5]))
    c["debug"] = draw(st.sampled_from([True, True, False]))
    return c


@cell("C10/hosvd/reporting", strategy=_hosvd_report_case, quick=150, thorough=1500, shards=(4, 16))
def hosvd_reporting(ctx, case):
    """the same hosvd request quiet and at another print level (stdout captured), the second with the root logger at DEBUG:
    the computation is deterministic, so core and factors must be bit for bit the same."""
    A = hosvd_data(case)
    dtype = case.get("dtype", "float64")
    f32 = dtype == "float32"
    if f32:
        A = A.astype(np.float32).astype(float)
    n2 = H.sq(A)
    if n2 == 0 or not np.isfinite(n2):
        ctx.skip("zero-data")
    tol, tlabel = resolve_tol(case, A)
    if f32:
        tol = max(tol, 1e-2)
    X, prov = hold(A, dtype, case.get("prov", "ctor"), int(case["data_seed"]))
    kw = dict(sequential=bool(case["sequential"]))
    if case["dimorder"] is not None:
        kw["dimorder"] = _form(case["dimorder"], case["form"])
    if case["ranks"] is not None:
        kw["ranks"] = _form(case["ranks"], case["form"])
    ctx.label("dtype-" + dtype, f"quiet-{case['verbosity']}", f"verbose-{case['verbosity2']}", "logger-DEBUG" if case["debug"] else
              "logger-default", "ranks-given" if case["ranks"] is not None else "ranks-auto", f"order{A.ndim}",
              "sequential" if case["sequential"] else "all-at-once")
    with ctx.sut("hosvd-quiet"):
        with H.captured():
            T0 = ttb.hosvd(X, tol, verbosity=case["verbosity"], **kw)
    D0, ranks0, err0 = _judge_h(ctx, T0, A, tol, case["ranks"], "quiet-", f32)
    snapX = H.snapshot(X)
    with ctx.sut("hosvd-verbose"):
        with H.captured():
            if case["debug"]:
                with _debug_logging():
                    T1 = ttb.hosvd(X, tol, verbosity=case["verbosity2"], **kw)
            else:
                T1 = ttb.hosvd(X, tol, verbosity=case["verbosity2"], **kw)
    ctx.check(H.snapshot(X) == snapX, "data-unchanged")
    D1, ranks1, err1 = _judge_h(ctx, T1, A, tol, case["ranks"], "verbose-", f32)
    ctx.nt = any(r < n for r, n in zip(ranks1, A.shape))
    ctx.check(ranks0 == ranks1, "same-ranks-quiet-and-verbose", (ranks0, ranks1))
    ctx.check(H.snapshot(T0) == H.snapshot(T1), "same-result-quiet-and-verbose",
              f"||T1 - T0||^2 = {H.sq(D1 - D0)!r}" if D1.shape == D0.shape else (D0.shape, D1.shape))


@st.composite
def _tucker_report_case(draw, tier):
    c = draw(_tucker_case(tier))
    c["maxiters"] = draw(st.integers(1, 4))
    c["printitn"] = draw(st.sampled_from([0, 0, -1]))
    c["printitn2"] = draw(st.sampled_from([1, 1, 2, 3, 7, 1000, -5, 0]))
    c["debug"] = draw(st.sampled_from([True, True, False]))
    if draw(st.booleans()):
        # every mode on the dense eigen-solver (r_n >= n_n - 1): the run is deterministic and compared bit for bit
        c["rank"] = [max(1, n - draw(st.integers(0, 1))) for n in c["shape"]]
        if c["rank_form"] == "scalar":
            c["rank_form"] = "list"
    return c


@cell("C10/tucker_als/reporting", strategy=_tucker_report_case, quick=120, thorough=1200, shards=(4, 16))
def tucker_reporting(ctx, case):
    """the same tucker_als request quiet and printing (stdout captured), the second with the root logger at DEBUG: same number
    of sweeps and same residual; where every mode goes through the dense eigen-solver the run is deterministic and everything
    returned (model, start, fit, normresidual, iters) must be bit for bit the same."""
    shape = [int(s) for s in case["shape"]]
    N = len(shape)
    rank = [int(r) for r in case["rank"]]
    A = tucker_data(case)
    n2 = H.sq(A)
    if n2 == 0:
        ctx.skip("zero-data")
    X, prov = hold(A, case.get("dtype", "float64"), case.get("prov", "ctor"), int(case["data_seed"]))
    init = _tucker_init(case)
    maxiters, stoptol = int(case["maxiters"]), float(case["stoptol"])
    arpack = any(r < n - 1 for r, n in zip(rank, shape))
    ctx.label("dtype-" + case.get("dtype", "float64"), "init-" + case["init"], f"quiet-{case['printitn']}", f"printing-{case['printitn2']}",
              "logger-DEBUG" if case["debug"] else "logger-default", "arpack-path" if arpack else "dense-eig-path", f"order{N}",
              "stoptol-0" if stoptol == 0 else "stoptol>0")
    ctx.nt = any(r < n for r, n in zip(rank, shape))
    with ctx.sut("tucker_als-quiet"):
        res0, _ = _tucker_run(X, case, init, maxiters, stoptol, int(case["printitn"]))
    _, U0, out0, err0 = _judge_t(ctx, res0, A, rank, "quiet-")
    snapX, snapI = H.snapshot(X), H.snapshot(init)
    with ctx.sut("tucker_als-printing"):
        if case["debug"]:
            with _debug_logging():
                res1, text = _tucker_run(X, case, init, maxiters, stoptol, int(case["printitn2"]))
        else:
            res1, text = _tucker_run(X, case, init, maxiters, stoptol, int(case["printitn2"]))
    ctx.check(H.snapshot(X) == snapX, "data-unchanged")
    ctx.check(H.snapshot(init) == snapI, "guess-unchanged")
    _, U1, out1, err1 = _judge_t(ctx, res1, A, rank, "printing-")
    it0, it1 = H.as_int(out0["iters"]), H.as_int(out1["iters"])
    ctx.require(it0 is not None and it1 is not None, "iters-is-integer", (out0["iters"], out1["iters"]))
    if not arpack:
        same = (H.snapshot(res0[0]), H.snapshot(U0), float(out0["fit"]), float(out0["normresidual"]), it0) == \
               (H.snapshot(res1[0]), H.snapshot(U1), float(out1["fit"]), float(out1["normresidual"]), it1)
        ctx.check(same, "same-result-quiet-and-printing", (out0["fit"], out1["fit"], it0, it1))
        return
    order = [int(k) for k in case["dimorder"]] if case["dimorder"] is not None else list(range(N))
    feasible = _well_posed(case, A, U0, rank, order, maxiters)
    ctx.label("well-posed" if feasible else "degenerate")
    if stoptol == 0 or stoptol > 2:
        ctx.check(it0 == it1, "same-number-of-sweeps-quiet-and-printing", (it0, it1))
    if feasible and it0 == it1:
        ctx.check(abs(err1 - err0) <= 1e-6 * n2, "same-residual-quiet-and-printing", (err0, err1, n2))


# --------------------------------------------------------------------------
# round 4, class 12: state after a request that was turned down
# --------------------------------------------------------------------------

_BAD_H = ["ranks-short", "ranks-long", "dimorder-duplicate", "dimorder-out-of-range", "dimorder-short", "dimorder-negative-duplicate",
          "tol-string", "ranks-negative"]
_BAD_T = ["init-short", "init-wrong-shape", "init-unknown-string", "stoptol-string", "maxiters-negative", "printitn-string",
          "dimorder-duplicate", "dimorder-out-of-range", "dimorder-negative-duplicate", "rank-short", "init-not-arrays"]


def _bad_dimorder(bad, N, rng):
    p = [int(k) for k in rng.permutation(N)]
    if bad == "dimorder-duplicate":
        p[int(rng.integers(0, N))] = p[int(rng.integers(0, N)) - 1] if N > 1 else 1
        if sorted(p) == list(range(N)):
            p[0] = p[-1] if N > 1 else 1
    elif bad == "dimorder-out-of-range":
        p[int(rng.integers(0, N))] = N
    elif bad == "dimorder-short":
        p = p[:-1] if N > 1 else [0, 0]
    elif bad == "dimorder-negative-duplicate":  # -1 next to N-1: a duplicate even under NumPy's reading of negative axes
        i = p.index(N - 1)
        p[(i + 1) % N if N > 1 else 0] = -1
        if N == 1:
            p = [0, -1]
    return np.array(p, dtype=np.int64)


@st.composite
def _rejected_case(draw, tier):
    fn = draw(st.sampled_from(["hosvd", "tucker_als"]))
    if fn == "hosvd":
        c = draw(_hosvd_case(tier))
        if c["dtype"] == "float32":
            c["dtype"] = "float64"
        c["verbosity"] = 0
        c["bad"] = draw(st.sampled_from(_BAD_H))
    else:
        c = draw(_tucker_case(tier))
        c["init"] = draw(st.sampled_from(["list", "list", "list-int", "list-orth", "random", "nvecs"]))
        c["maxiters"] = draw(st.integers(1, 3))
        c["stoptol"] = draw(st.sampled_from([0.0, 0.0, 1e-3]))
        c["printitn"] = 0
        c["bad"] = draw(st.sampled_from(_BAD_T))
    c["fn"] = fn
    c["bad_seed"] = draw(st.integers(0, 10**6))
    return c


@cell("C10/rejected-requests", strategy=_rejected_case, quick=120, thorough=1200, shards=(4, 16))
def rejected_requests(ctx, case):
    """a valid request, then an ill-formed one on the same data / start objects (wrong-length or non-permutation mode order,
    wrong-length ranks, start list of wrong length / shape / kind, non-numeric options), then the valid request again.  Whether
    the ill-formed request is turned down is not judged here; if it is, the data, the caller's start matrices and the caller's
    argument arrays must be what they were, and the repeated valid request must give the result of the first one."""
    fn = case["fn"]
    hos = fn == "hosvd"
    A = hosvd_data(case) if hos else tucker_data(case)
    n2 = H.sq(A)
    if n2 == 0 or not np.isfinite(n2):
        ctx.skip("zero-data")
    shape = [int(s) for s in A.shape]
    N = len(shape)
    X, prov = hold(A, case.get("dtype", "float64"), case.get("prov", "ctor"), int(case["data_seed"]))
    rng = np.random.default_rng([113, int(case["bad_seed"])])
    bad = case["bad"]
    if hos:
        tol, _ = resolve_tol(case, A)
        kw = dict(verbosity=0, sequential=bool(case["sequential"]))
        if case["dimorder"] is not None:
            kw["dimorder"] = _form(case["dimorder"], case["form"])
        if case["ranks"] is not None:
            kw["ranks"] = _form(case["ranks"], case["form"])
        init = None
        rank = None

        def valid():
            with H.captured():
                return ttb.hosvd(X, tol, **kw)

        def snap(res):
            return H.snapshot(res)

        def judge(res, tag):
            D, ranks, err2 = _judge_h(ctx, res, A, tol, case["ranks"], tag)
            return err2, snap(res)
    else:
        rank = [int(r) for r in case["rank"]]
        init = _tucker_init(case)
        maxiters, stoptol = int(case["maxiters"]), float(case["stoptol"])

        def valid():
            return _tucker_run(X, case, init, maxiters, stoptol, 0)[0]

        def snap(res):  # judged before: a triple with the documented keys
            return (H.snapshot(res[0]), H.snapshot(res[1]), float(res[2]["fit"]), H.as_int(res[2]["iters"]))

        def judge(res, tag):
            _, U, out, err2 = _judge_t(ctx, res, A, rank, tag)
            return err2, snap(res)
    arpack = (not hos) and any(r < n - 1 for r, n in zip(rank, shape))
    with ctx.sut(fn + "-first"):
        R0 = valid()
    err0, s0 = judge(R0, "first-")
    # the ill-formed request
    args = []
    bkw = {}
    if bad.startswith("dimorder"):
        bkw["dimorder"] = _bad_dimorder(bad, N, rng)
    elif bad == "ranks-short":
        bkw["ranks"] = np.array([1] * (N - 1), dtype=np.int64) if N > 1 else np.array([], dtype=np.int64)
    elif bad == "ranks-long":
        bkw["ranks"] = np.array([1] * (N + 1), dtype=np.int64)
    elif bad == "ranks-negative":
        bkw["ranks"] = np.array([-1] * N, dtype=np.int64)
    elif bad == "rank-short":
        bkw["rank"] = np.array([1] * (N - 1), dtype=np.int64) if N > 2 else np.array([], dtype=np.int64)
    elif bad == "tol-string":
        bkw["tol"] = "0.1"
    elif bad == "stoptol-string":
        bkw["stoptol"] = "1e-4"
    elif bad == "printitn-string":
        bkw["printitn"] = "1"
    elif bad == "maxiters-negative":
        bkw["maxiters"] = -1
    elif bad == "init-unknown-string":
        bkw["init"] = "randomm"
    elif bad in ("init-short", "init-wrong-shape", "init-not-arrays"):
        # built from the caller's own start matrices (or generic ones when the valid request uses a named start)
        base = init if isinstance(init, list) else [H.F(rng.standard_normal((n, r))) for n, r in zip(shape, rank)]
        order = [int(k) for k in case["dimorder"]] if case["dimorder"] is not None else list(range(N))
        if bad == "init-short":
            bkw["init"] = list(base[:-1])
        elif bad == "init-wrong-shape":
            k = order[-1]
            bl = list(base)
            bl[k] = H.F(rng.standard_normal((shape[k] + 1, rank[k])))
            bkw["init"] = bl
        else:
            bkw["init"] = [M.tolist() for M in base]
    ctx.label(fn, "bad-" + bad, "dtype-" + case.get("dtype", "float64"), f"order{N}", "arpack-path" if arpack else "deterministic")
    snapX, snapI = H.snapshot(X), H.snapshot(init)
    held = [v for v in bkw.values() if isinstance(v, np.ndarray)] + [M for v in bkw.values() if isinstance(v, list) for M in v
                                                                      if isinstance(M, np.ndarray)]
    snapB = [H.snapshot(v) for v in held]
    raised = None
    try:
        with H.captured():
            if hos:
                k2 = dict(kw)
                k2.update({k: v for k, v in bkw.items() if k != "tol"})
                ttb.hosvd(X, bkw.get("tol", tol), **k2)
            else:
                k2 = dict(stoptol=stoptol, maxiters=maxiters, init=init, printitn=0)
                if case["dimorder"] is not None:
                    k2["dimorder"] = _form(case["dimorder"], case["form"])
                k2.update({k: v for k, v in bkw.items() if k != "rank"})
                if isinstance(k2["init"], str) and k2["init"] == "random":
                    np.random.seed(case["np_seed"])
                ttb.tucker_als(X, bkw.get("rank", _form(rank, "list")), **k2)
    except Exception as e:  # noqa: BLE001
        raised = type(e).__name__
    ctx.label("turned-down" if raised else "accepted", f"{bad}:{raised}")
    ctx.nt = raised is not None
    ctx.check(H.snapshot(X) == snapX, "data-unchanged-by-ill-formed-request")
    ctx.check(H.snapshot(init) == snapI, "guess-unchanged-by-ill-formed-request")
    ctx.check([H.snapshot(v) for v in held] == snapB, "argument-arrays-unchanged-by-ill-formed-request")
    ctx.check(snap(R0) == s0, "earlier-result-unchanged-by-ill-formed-request")
    with ctx.sut(fn + "-after-ill-formed-request"):
        R2 = valid()
    err2, s2 = judge(R2, "after-ill-formed-")
    if not arpack:
        ctx.check(s2 == s0, "valid-request-after-ill-formed-one-gives-the-same-result", (err0, err2))
    else:
        order = [int(k) for k in case["dimorder"]] if case["dimorder"] is not None else list(range(N))
        if s2[3] == s0[3] and _well_posed(case, A, R0[1], rank, order, int(case["maxiters"])):
            ctx.check(abs(err2 - err0) <= 1e-6 * n2, "valid-request-after-ill-formed-one-gives-the-same-residual", (err0, err2, n2))
