"""C01, round 4 - how a caller presents a valid conversion request (class 11), reporting environment (13), a rejected
request in between (12 / 14).

The cells of c01.py hand pyttb its own favourite forms (int64 index arrays, python-int shape tuples, freshly allocated
F-ordered float64 arrays, keyword arguments).  Here the *same* requests are made the way ordinary callers make them:

* index arrays (rdims / cdims / subscripts) in int32 / uint8 / uint16 / uint64 / int16 / uint32 / intp, also a
  different dtype on each side (uint64 next to int64 promotes to float64 in NumPy), empty arrays of those dtypes;
* shapes / tshapes as tuple / list / integer array / tuple of numpy integer scalars of those dtypes, a bare int or a
  numpy integer scalar for a 1-way tensor, or left out (inferred);
* data arrays that are read-only, strided (every other element of a larger buffer holding junk), negatively strided,
  C-ordered, or views at an offset into a larger buffer; with copy=True and copy=False;
* optional arguments passed positionally in their documented order;
* value dtypes float32 / int32 / int16 / uint8 / uint16 (conversions move data: exact; Tucker / sums of float32 data
  are judged by a single-precision bound);
* scipy matrices (COO / CSR / CSC: int32 coordinates) for sptenmat.from_array and as Tucker factor matrices, under
  copy=True and copy=False, in a list or a tuple;
* sparse tensors whose modes fit int32 / uint32 / uint16 coordinates but whose cell count does not (linear-index
  arithmetic in the coordinates' own dtype wraps), judged entry by entry with python integers;
* the root logger at DEBUG with a NullHandler (and logging not disabled) during the calls.

Oracle: the absolute clauses of c01.py (NumPy array computed from the case) on the presented request, plus the
metamorphic clause that the presented request and the plain request give the same values.  After the calls the arrays
that were handed over must be what they were (conversions only read).  In between, a request that cannot be honoured
(a mode listed twice / missing / out of range / counted from the end with a negative number, or no mode at all) is made: whether it is rejected is not judged here (C19), but the
operand must be unchanged and the following valid request must still give the tensor.
"""

from __future__ import annotations

import logging

import numpy as np
from hypothesis import strategies as st

import pyttb as ttb

from .. import gen, ref
from ..core import cell
from . import c01 as B

EPS32 = float(np.finfo(np.float32).eps)
INT_DT = ["int64", "int32", "uint8", "uint16", "uint64", "intp", "int16", "uint32", "int8"]
VIEWS = ["plain", "strided", "readonly", "readonly-strided", "negstride", "corder", "offset"]


def _fits(values, dt):
    info = np.iinfo(np.dtype(dt))
    return all(info.min <= int(v) <= info.max for v in values)


def _dt_for(values, dt):
    """dt if every value fits, else the next wider dtype of the same signedness (the caller's data decides)"""
    for cand in [dt, "uint16" if dt.startswith("u") else "int16", "uint32" if dt.startswith("u") else "int32",
                 "uint64" if dt.startswith("u") else "int64"]:
        if _fits(values, cand):
            return cand
    return "int64"


def iarr(values, dt):
    values = list(values)
    return np.array(values, dtype=_dt_for(values, dt)) if values else np.array([], dtype=dt)


def shape_arg(shape, pres):
    """the shape of the case as a caller may write it; pres = form[:dtype]"""
    shape = [int(s) for s in shape]
    form, _, dt = pres.partition(":")
    dt = _dt_for(shape, dt) if dt else None
    if form == "list":
        return list(shape)
    if form == "tuple-np":
        return tuple(np.dtype(dt).type(s) for s in shape)
    if form == "list-np":
        return [np.dtype(dt).type(s) for s in shape]
    if form == "array":
        return np.array(shape, dtype=dt)
    if form == "scalar" and len(shape) == 1:
        return shape[0]
    if form == "npscalar" and len(shape) == 1:
        return np.dtype(dt).type(shape[0])
    return tuple(shape)


def present(A, how, junk=77):
    """an array equal to A (same dtype) in the memory presentation `how`"""
    A = np.array(A)
    if A.ndim == 0 or how == "plain":
        return A.copy(order="F")
    ro = how.startswith("readonly")
    if how in ("strided", "readonly-strided"):
        big = np.full(tuple(2 * s + 1 for s in A.shape), junk, dtype=A.dtype)
        v = big[tuple(slice(1, None, 2) for _ in A.shape)]
        v[...] = A
    elif how == "negstride":
        rev = tuple(slice(None, None, -1) for _ in A.shape)
        v = A[rev].copy()[rev]
    elif how == "corder":
        v = np.ascontiguousarray(A)
    elif how == "offset":
        big = np.full(A.size + 3, junk, dtype=A.dtype)
        v = big[2:2 + A.size].reshape(A.shape, order="F" if A.ndim > 1 else "C")
        v[...] = A
    else:
        v = A.copy(order="F")
    if ro:
        v.flags.writeable = False
    return v


class _Loud:
    """root logger at DEBUG with a NullHandler and logging enabled, restored on exit (class 13)"""

    def __init__(self, on):
        self.on = on

    def __enter__(self):
        if self.on:
            root = logging.getLogger()
            self.level, self.disabled, self.handlers = root.level, root.manager.disable, list(root.handlers)
            root.handlers[:] = [logging.NullHandler()]  # (logging.warning() installs a stderr handler when there is none)
            root.setLevel(logging.DEBUG)
            logging.disable(logging.NOTSET)
        return self

    def __exit__(self, *exc):
        if self.on:
            root = logging.getLogger()
            root.setLevel(self.level)
            root.handlers[:] = self.handlers
            logging.disable(self.disabled)
        return False


PRES_INT = st.sampled_from(INT_DT)
SHAPE_PRES = st.one_of(
    st.sampled_from(["tuple", "list", "scalar"]),
    st.tuples(st.sampled_from(["tuple-np", "list-np", "array", "npscalar"]), st.sampled_from(INT_DT[:8])).map(":".join))
TSHAPE_PRES_TUPLE = st.one_of(st.just("tuple"), st.sampled_from(INT_DT[:8]).map(lambda d: "tuple-np:" + d))


@st.composite
def _common(draw, c):
    c["rdt"], c["cdt"] = draw(PRES_INT), draw(PRES_INT)
    c["copy"] = draw(st.booleans())
    c["positional"] = draw(st.booleans())
    c["loud"] = draw(st.integers(0, 2)) == 0
    c["bad"] = draw(st.sampled_from(["none", "dup", "missing", "range", "both-empty", "negative"]))
    c["bad_k"] = draw(st.integers(0, 50))
    return c


def _split_args(spec, rdt, cdt, positional, copy=None):
    """(args, kwargs) of a to_tenmat / to_sptenmat request with the dims in the given dtypes; `copy` only for
    to_tenmat (None: not passed)"""
    form = spec["form"]
    r = iarr(spec["rdims"], rdt) if "rdims" in spec else None
    c = iarr(spec["cdims"], cdt) if "cdims" in spec else None
    cyc = None
    if form in ("fc", "bc", "t"):
        r, cyc = iarr([spec["n"]], rdt), form
    if positional:
        args = [r, c, cyc] + ([] if copy is None else [copy])
        while copy is None and args and args[-1] is None:
            args.pop()
        return tuple(args), {}
    kw = {}
    if r is not None:
        kw["rdims"] = r
    if c is not None:
        kw["cdims"] = c
    if cyc is not None:
        kw["cdims_cyclic"] = cyc
    if copy is not None:
        kw["copy"] = copy
    return (), kw


def _ctor_dims(spec, rd, cd, rdt, cdt):
    """(rdims, cdims) for the tenmat / sptenmat constructors (no cyclic forms there): one side may be left out"""
    if spec["form"] == "rdims":
        return iarr(rd, rdt), None
    if spec["form"] == "cdims":
        return None, iarr(cd, cdt)
    return iarr(rd, rdt), iarr(cd, cdt)


def _bad_dims(N, kind, k, rd, cd):
    """a split request that cannot be honoured (None when the shape has no such request)"""
    if kind == "dup" and N >= 2 and rd:
        return [rd[0]] + rd, cd
    if kind == "dup" and N >= 2 and cd:
        return rd, cd + [cd[-1]]
    if kind == "missing" and N >= 2 and len(rd) + len(cd) == N and rd and cd:
        return rd[:-1], cd
    if kind == "range":
        return [N + k % 3], [m for m in range(N)]
    if kind == "both-empty" and N >= 1:
        return [], []
    if kind == "negative" and N >= 1:
        # NumPy's own way of naming the last modes: not a mode number here
        if rd:
            return [rd[0] - N] + rd[1:], cd
        return rd, cd[:-1] + [cd[-1] - N]
    return None


def _reject_between(ctx, what, obj, request, N, case, rd, cd, after, snap_equal):
    """a request that cannot be honoured, then a valid one: the object is unchanged and still converts correctly.
    Whether the ill-formed request is rejected is C19's business; here it must not leave a trace."""
    bad = _bad_dims(N, case.get("bad", "none"), case.get("bad_k", 0), list(rd), list(cd))
    if bad is None:
        ctx.label("rejected-none")
        return
    ctx.label("rejected-" + case["bad"])
    try:
        request(iarr(bad[0], case["rdt"]), iarr(bad[1], case["cdt"]))
        ctx.label("ill-formed-request-returned")
    except Exception:  # noqa: BLE001
        ctx.label("ill-formed-request-raised")
    ctx.check(snap_equal(obj), f"{what}:unchanged-after-rejected-request")
    after()


# --------------------------------------------------------------------------
# dense: tensor(), to_tenmat, tenmat(), to_tensor
# --------------------------------------------------------------------------

DENSE_DT = ["float64", "float32", "int64", "int32", "int16", "uint8", "uint16"]


@st.composite
def _dense_case(draw, tier):
    c = draw(B.dense_holder(tier, min_order=1, kinds=("int", "float")))
    c["prov"], c["layout"] = "ctor", "F"
    c["wide"] = draw(st.integers(0, 3)) == 0
    if c["wide"]:
        # more cells than a uint8 / int8 holds (a shape handed over in such a dtype must not be multiplied in it); the
        # data are expanded from a drawn seed
        c["shape"] = list(draw(st.sampled_from(WIDE_SHAPES)))
        rs = np.random.RandomState(draw(st.integers(0, 2**31 - 1)))
        n = ref.prod(c["shape"])
        v = np.round(rs.uniform(-6, 6, size=n)) if c["vkind"] == "int" else rs.uniform(-3, 3, size=n)
        v[rs.uniform(size=n) < [0.0, 0.5, 0.95][rs.randint(3)]] = 0.0
        c["data"], c["pattern"] = [float(x) for x in v], "some"
    if c["vkind"] == "int":
        c["dtype"] = draw(st.sampled_from(DENSE_DT))
        if c["dtype"].startswith("u"):
            c["data"] = [abs(v) for v in c["data"]]
    else:
        c["dtype"] = draw(st.sampled_from(["float64", "float32"]))
    c["view"], c["mview"] = draw(st.sampled_from(VIEWS)), draw(st.sampled_from(VIEWS))
    c["flat"] = draw(st.booleans())
    c["shape_pres"], c["tshape_pres"] = draw(SHAPE_PRES), draw(SHAPE_PRES)
    if c["wide"]:
        narrow = st.sampled_from(["array:uint8", "array:int8", "tuple-np:uint8", "list-np:int8", "array:uint16"])
        c["shape_pres"] = draw(st.one_of(narrow, SHAPE_PRES))
        c["tshape_pres"] = draw(st.one_of(narrow, SHAPE_PRES))
    c["split"] = draw(B.split_spec(len(c["shape"])))
    return draw(_common(c))


@cell("C01/present/dense", strategy=_dense_case, quick=100, thorough=800)
def present_dense(ctx, case):
    """tensor() / to_tenmat / tenmat() / to_tensor with the arguments presented as ordinary callers present them"""
    Bd, A = B.dense_array(case)
    shape = tuple(case["shape"])
    N = len(shape)
    spec = case["split"]
    rd, cd = B.expected_split(N, spec)
    B._labels(ctx, case)
    B._split_labels(ctx, spec, rd, cd)
    ctx.label("view-" + case["view"], "mview-" + case["mview"], "shape-" + case["shape_pres"].split(":")[0],
              "tshape-" + case["tshape_pres"].split(":")[0], "rdt-" + case["rdt"], "cdt-" + case["cdt"],
              "copy" if case["copy"] else "nocopy", "positional" if case["positional"] else "keywords",
              "loud" if case["loud"] else "quiet", "flat-data" if case["flat"] else "nd-data",
              "wide-shape" if case.get("wide") else "small-shape")
    ctx.nt = B._nt_array(A) and B._nt_split(case["shape"], rd, cd)
    given = present(np.ravel(Bd, order="F") if case["flat"] else Bd, case["view"])
    snap = given.copy()
    shp = shape_arg(shape, case["shape_pres"])
    cp, pos = case["copy"], case["positional"]
    with _Loud(case["loud"]):
        with ctx.sut("tensor()"):
            X = ttb.tensor(given, shp, cp) if pos else ttb.tensor(given, shape=shp, copy=cp)
        B._check_tensor(ctx, X, A, "tensor()")
        ctx.check(all(isinstance(n, (int, np.integer)) for n in X.shape), "tensor()-shape-entries-integers", repr(X.shape))
        B._stage(ctx, "tensor.to_sptensor", X.to_sptensor, lambda S: B._check_sptensor(ctx, S, A, "to_sptensor"))
        B._stage(ctx, "tensor.double", X.double, lambda a: B._check_ndarray(ctx, a, A, "tensor.double"))
        args, kw = _split_args(spec, case["rdt"], case["cdt"], pos, cp)
        M = None
        if case["dtype"] != "bool":
            with ctx.sut("tensor.to_tenmat"):
                M = X.to_tenmat(*args, **kw)
            E = B._check_tenmat(ctx, M, A, rd, cd, "to_tenmat")
            B._stage(ctx, "tenmat.to_tensor", (lambda: M.to_tensor(cp)) if pos else (lambda: M.to_tensor(copy=cp)),
                     lambda D: B._check_tensor(ctx, D, A, "tenmat.to_tensor"))
            B._stage(ctx, "tenmat.double", M.double, lambda a: B._check_ndarray(ctx, a, E, "tenmat.double"))
            # the same request in the library's favourite presentation
            with ctx.sut("tensor.to_tenmat-plain"):
                M0 = ttb.tensor(np.asfortranarray(Bd)).to_tenmat(**B.split_kwargs(spec))
            same = (isinstance(M0, ttb.tenmat) and M0.data.shape == M.data.shape and np.array_equal(M0.data, M.data)
                    and B._ints(M0.rindices) == B._ints(M.rindices) and B._ints(M0.cindices) == B._ints(M.cindices)
                    and B._shape_of_t(M0.tshape) == B._shape_of_t(M.tshape))
            ctx.check(same, "to_tenmat:two-presentations-agree")

            def valid_again():
                B._stage(ctx, "tensor.to_tenmat-after-rejected", lambda: X.to_tenmat(*args, **kw),
                         lambda M2: B._check_tenmat(ctx, M2, A, rd, cd, "to_tenmat-after-rejected"))

            _reject_between(ctx, "tensor", X, lambda r, c: X.to_tenmat(r, c), N, case, rd, cd, valid_again,
                            lambda X_: B.tup(X_.shape) == shape and ref.same_exact(ref.den(X_), A))
            # the constructor given the formula matrix
            Ed = ref.matricize(Bd, rd, cd)
            mgiven = present(Ed, case["mview"])
            msnap = mgiven.copy()
            r_, c_ = _ctor_dims(spec, rd, cd, case["rdt"], case["cdt"])
            tsh = shape_arg(shape, case["tshape_pres"])
            with ctx.sut("tenmat()"):
                Mc = ttb.tenmat(mgiven, r_, c_, tsh, cp) if pos else ttb.tenmat(mgiven, rdims=r_, cdims=c_, tshape=tsh,
                                                                                copy=cp)
            B._check_tenmat(ctx, Mc, A, rd, cd, "tenmat()")
            B._stage(ctx, "tenmat().to_tensor", Mc.to_tensor, lambda D: B._check_tensor(ctx, D, A, "tenmat().to_tensor"))
            B._stage(ctx, "tenmat().double", Mc.double, lambda a: B._check_ndarray(ctx, a, E, "tenmat().double"))
            B._stage(ctx, "tenmat().copy", Mc.copy, lambda M2: B._check_tenmat(ctx, M2, A, rd, cd, "tenmat().copy"))
            ctx.check(np.array_equal(mgiven, msnap), "tenmat():given-array-unchanged")
    ctx.check(np.array_equal(given, snap), "tensor():given-array-unchanged")
    ctx.check(ref.same_exact(ref.den(X), A), "operand-unchanged")


# --------------------------------------------------------------------------
# sparse: sptensor(), full, to_sptenmat, sptenmat(), from_array
# --------------------------------------------------------------------------

SP_VDT = ["float64", "float32", "int64", "int32", "int16", "uint8", "uint16"]
WIDE_SHAPES = [[16, 17], [7, 6, 8], [3, 5, 4, 6], [300], [130, 3], [2, 129, 2], [33, 8]]


@st.composite
def _sparse_case(draw, tier):
    wide = draw(st.integers(0, 3)) == 0
    if wide:
        # more cells than a uint8 / int8 holds: linear-index arithmetic in the subscripts' own dtype wraps
        shape = draw(st.sampled_from(WIDE_SHAPES))
        n = draw(st.integers(0, 6))
        subs = set()
        for _ in range(n):
            subs.add(tuple(draw(st.sampled_from([0, s - 1, s - 1, max(0, s - 2), draw(st.integers(0, s - 1))]))
                           for s in shape))
        subs = [list(s) for s in draw(st.permutations(sorted(subs)))]
        vkind = draw(st.sampled_from(["int", "float"]))
        vals = draw(st.lists(gen.values(vkind, nonzero=True), min_size=len(subs), max_size=len(subs)))
        c = dict(holder="sptensor", shape=list(shape), subs=subs, vals=vals, vkind=vkind, pattern="some", order="random",
                 prov="ctor", prov_k=0, zsubs=[], zpos=[], junk=[])
    else:
        c = draw(B.sparse_holder(tier, min_order=1, kinds=("int", "float")))
        c["prov"], c["zsubs"], c["zpos"], c["junk"] = "ctor", [], [], []
    c["wide"] = wide
    if c["vkind"] == "int":
        c["dtype"] = draw(st.sampled_from(SP_VDT))
        if c["dtype"].startswith("u"):
            c["vals"] = [abs(v) for v in c["vals"]]
    else:
        c["dtype"] = draw(st.sampled_from(["float64", "float32"]))
    c["sdt"], c["mdt"] = draw(PRES_INT), draw(PRES_INT)
    if wide:  # subscripts that fit a dtype the cell count does not
        c["sdt"] = draw(st.sampled_from(["uint8", "uint8", "int8", "int16", "uint16", "int32", "uint64"]))
    c["sview"], c["vview"] = draw(st.sampled_from(VIEWS)), draw(st.sampled_from(VIEWS))
    c["shape_pres"] = draw(st.one_of(SHAPE_PRES, st.just("inferred")))
    c["tshape_pres"] = draw(TSHAPE_PRES_TUPLE)
    if wide:
        narrow = st.sampled_from(["array:uint8", "array:int8", "tuple-np:uint8", "list-np:int8", "array:uint16"])
        c["shape_pres"] = draw(st.one_of(narrow, SHAPE_PRES, st.just("inferred")))
        c["tshape_pres"] = draw(st.sampled_from(["tuple-np:uint8", "tuple-np:int8", "tuple", "tuple-np:uint16"]))
    c["source"] = draw(st.sampled_from(["subs", "subs", "coo", "csr", "csc", "dense"]))
    c["split"] = draw(B.split_spec(len(c["shape"])))
    return draw(_common(c))


def _sp_vals(case):
    v = np.array(case["vals"], dtype=float).astype(case["dtype"])
    return v.reshape(-1, 1)


@cell("C01/present/sparse", strategy=_sparse_case, quick=90, thorough=700)
def present_sparse(ctx, case):
    """sptensor() / full / to_sptenmat / sptenmat() / from_array with the arguments presented as callers present them"""
    from scipy import sparse

    shape = tuple(case["shape"])
    N = len(shape)
    vals = _sp_vals(case)
    A = np.zeros(shape)
    for s, v in zip(case["subs"], vals[:, 0]):
        A[tuple(s)] = float(v)
    if np.count_nonzero(A) != len(case["subs"]):
        ctx.skip("a value rounds to zero in the narrow dtype")
    spec = case["split"]
    rd, cd = B.expected_split(N, spec)
    n = len(case["subs"])
    sdt = _dt_for([v for s in case["subs"] for v in s], case["sdt"])
    ctx.label(*gen.shape_classes(case["shape"]), "v-" + case["vkind"], "vals-" + case["dtype"], "subs-" + sdt,
              "wide-shape" if case["wide"] else "small-shape", "nnz0" if n == 0 else ("nnz1" if n == 1 else "nnz2+"),
              "sview-" + case["sview"], "vview-" + case["vview"], "shape-" + case["shape_pres"].split(":")[0],
              "tshape-" + case["tshape_pres"].split(":")[0], "rdt-" + case["rdt"], "cdt-" + case["cdt"],
              "copy" if case["copy"] else "nocopy", "positional" if case["positional"] else "keywords",
              "loud" if case["loud"] else "quiet", "source-" + case["source"])
    B._split_labels(ctx, spec, rd, cd)
    ctx.nt = B._nt_array(A) and B._nt_split(case["shape"], rd, cd)
    cp, pos = case["copy"], case["positional"]
    inferred = case["shape_pres"] == "inferred" and n and tuple(
        int(v) + 1 for v in np.max(np.asarray(case["subs"]), axis=0)) == shape
    shp = None if inferred else shape_arg(shape, "tuple" if case["shape_pres"] == "inferred" else case["shape_pres"])
    ctx.label("shape-left-out" if inferred else "shape-given")
    with _Loud(case["loud"]):
        if n:
            gs = present(np.array(case["subs"], dtype=sdt).reshape(n, N), case["sview"], junk=1)
            gv = present(vals, case["vview"])
            snaps = gs.copy(), gv.copy()
            with ctx.sut("sptensor()"):
                S = ttb.sptensor(gs, gv, shp, cp) if pos else ttb.sptensor(gs, gv, shape=shp, copy=cp)
        else:
            gs = gv = snaps = None
            with ctx.sut("sptensor()"):
                S = ttb.sptensor(shape=shape_arg(shape, "tuple" if case["shape_pres"] == "inferred" else case["shape_pres"]))
        B._check_sptensor(ctx, S, A, "sptensor()")
        B._stage(ctx, "sptensor.full", S.full, lambda D: B._check_tensor(ctx, D, A, "full"))
        B._stage(ctx, "sptensor.double", S.double, lambda a: B._check_ndarray(ctx, a, A, "double"))
        if N == 2:

            def chk_sp(m):
                ctx.require(hasattr(m, "toarray") and hasattr(m, "nnz"), "spmatrix-returns-scipy-sparse", type(m).__name__)
                ctx.check(B.tup(m.shape) == A.shape, "spmatrix-shape", m.shape)
                ctx.check(ref.same_exact(np.asarray(m.toarray(), dtype=float), A), "spmatrix-denotes")

            B._stage(ctx, "sptensor.spmatrix", S.spmatrix, chk_sp)
        args, kw = _split_args(spec, case["rdt"], case["cdt"], pos)
        with ctx.sut("sptensor.to_sptenmat"):
            M = S.to_sptenmat(*args, **kw)
        E = B._check_sptenmat(ctx, M, A, rd, cd, "to_sptenmat")
        B._sptenmat_conversions(ctx, M, A, E, rd, cd, "sptenmat")
        with ctx.sut("sptensor.to_sptenmat-plain"):
            M0 = B._sp(case["subs"], [float(v) for v in vals[:, 0]], shape, case["dtype"]).to_sptenmat(**B.split_kwargs(spec))
        ctx.check(isinstance(M0, ttb.sptenmat) and _mat_entries(M0) == _mat_entries(M) and B._ints(M0.rdims) == B._ints(M.rdims)
                  and B._ints(M0.cdims) == B._ints(M.cdims) and B._shape_of_t(M0.tshape) == B._shape_of_t(M.tshape),
                  "to_sptenmat:two-presentations-agree")

        def valid_again():
            B._stage(ctx, "sptensor.to_sptenmat-after-rejected", lambda: S.to_sptenmat(*args, **kw),
                     lambda M2: B._check_sptenmat(ctx, M2, A, rd, cd, "to_sptenmat-after-rejected"))

        _reject_between(ctx, "sptensor", S, lambda r, c: S.to_sptenmat(r, c), N, case, rd, cd, valid_again,
                        lambda S_: B.tup(S_.shape) == shape and not ref.sptensor_problems(S_) and ref.same_exact(ref.den(S_), A))
        # the constructors given the formula matrix: subscripts / scipy matrix (int32 coordinates) / dense array
        rows = [ref.lin_index([s[d] for d in rd], [shape[d] for d in rd]) for s in case["subs"]]
        cols = [ref.lin_index([s[d] for d in cd], [shape[d] for d in cd]) for s in case["subs"]]
        r_, c_ = _ctor_dims(spec, rd, cd, case["rdt"], case["cdt"])
        tsh = shape_arg(shape, case["tshape_pres"])
        src = case["source"] if n else "subs"
        mgiven = []
        with ctx.sut(f"sptenmat-from-{src}"):
            if not n:
                Mc = ttb.sptenmat(None, None, r_, c_, tsh) if pos else ttb.sptenmat(rdims=r_, cdims=c_, tshape=tsh)
            elif src == "subs":
                mdt = _dt_for(rows + cols, case["mdt"])
                ctx.label("msubs-" + mdt)
                mgiven = [present(np.array([rows, cols], dtype=mdt).T, case["sview"], junk=0), present(vals, case["vview"])]
                Mc = ttb.sptenmat(mgiven[0], mgiven[1], r_, c_, tsh, cp) if pos else ttb.sptenmat(
                    mgiven[0], mgiven[1], rdims=r_, cdims=c_, tshape=tsh, copy=cp)
            elif src == "dense":
                mgiven = [present(ref.matricize(A, rd, cd).astype(case["dtype"]), case["vview"])]
                Mc = ttb.sptenmat.from_array(mgiven[0], r_, c_, tsh) if pos else ttb.sptenmat.from_array(
                    mgiven[0], rdims=r_, cdims=c_, tshape=tsh)
            else:
                coo = sparse.coo_matrix((vals[:, 0].copy(), (np.array(rows, dtype=np.int32), np.array(cols, dtype=np.int32))),
                                        shape=E.shape)
                m = coo.tocsr() if src == "csr" else (coo.tocsc() if src == "csc" else coo)
                ctx.label("scipy-index-" + str(getattr(m, "row", getattr(m, "indices", None)).dtype))
                mgiven = [m]
                Mc = ttb.sptenmat.from_array(m, r_, c_, tsh) if pos else ttb.sptenmat.from_array(m, rdims=r_, cdims=c_,
                                                                                                tshape=tsh)
        msnap = [g.copy() for g in mgiven]
        B._check_sptenmat(ctx, Mc, A, rd, cd, "sptenmat()")
        B._sptenmat_conversions(ctx, Mc, A, E, rd, cd, "sptenmat()")
        S2 = B._stage(ctx, "sptenmat().to_sptensor", Mc.to_sptensor)
        if isinstance(S2, ttb.sptensor):
            # the result fed into the next conversion (another split: rows and columns swapped)
            B._stage(ctx, "sptenmat().to_sptensor.to_sptenmat", lambda: S2.to_sptenmat(iarr(cd, case["rdt"]), iarr(rd, case["cdt"])),
                     lambda M3: B._check_sptenmat(ctx, M3, A, cd, rd, "sptenmat().to_sptensor.to_sptenmat"))
        for g, s0 in zip(mgiven, msnap):
            same = (g != s0).nnz == 0 if sparse.issparse(g) else np.array_equal(g, s0)
            ctx.check(bool(same), "sptenmat():given-array-unchanged")
    if snaps is not None:
        ctx.check(np.array_equal(gs, snaps[0]) and np.array_equal(gv, snaps[1]), "sptensor():given-arrays-unchanged")
    ctx.check(ref.same_exact(ref.den(S), A), "operand-unchanged")


def _mat_entries(M):
    try:
        if not M.subs.size:
            return {}
        return {(int(r[0]), int(r[1])): float(v) for r, v in zip(M.subs, np.asarray(M.vals).reshape(-1))}
    except Exception:  # noqa: BLE001
        return None


# --------------------------------------------------------------------------
# coordinates that fit a narrow dtype on shapes whose cell count does not
# --------------------------------------------------------------------------

MODES32 = [300, 46341, 65536, 70000, 2**31 - 1, 2**31, 2**32 - 1, 2**32]
CO_DT = ["uint16", "int32", "uint32", "int64", "uint64"]


@st.composite
def _coords_case(draw, tier):
    N = draw(st.integers(2, 3))
    scipy_sized = draw(st.integers(0, 2)) == 0  # both sides below 2**31 (a scipy matrix with int32 coordinates), the product above
    for _ in range(20):
        shape = [draw(st.sampled_from((MODES32[1:4] if scipy_sized else MODES32) + [1, 2, 3])) for _ in range(N)]
        if scipy_sized:
            i = draw(st.integers(0, N - 1))
            j = (i + draw(st.integers(1, N - 1))) % N
            shape = [draw(st.sampled_from(MODES32[1:4])) if d in (i, j) else draw(st.sampled_from([1, 2, 3])) for d in range(N)]
            rest = draw(st.permutations([d for d in range(N) if d not in (i, j)]))
            rd, cd = [i] + list(rest[:1]), [j] + list(rest[1:])
            rd, cd = list(draw(st.permutations(rd))), list(draw(st.permutations(cd)))
            if ref.prod(shape[d] for d in rd) < 2**31 and ref.prod(shape[d] for d in cd) < 2**31 < ref.prod(shape):
                break
            continue
        if ref.prod(shape) <= 2**31:
            shape[draw(st.integers(0, N - 1))] = draw(st.sampled_from(MODES32[2:]))
            shape[draw(st.integers(0, N - 1))] = draw(st.sampled_from(MODES32[1:]))
        rd, cd = draw(gen.ordered_partition(N))
        if 2**31 < ref.prod(shape) and ref.prod(shape[d] for d in rd) < 2**63 and ref.prod(shape[d] for d in cd) < 2**63:
            break
    else:
        shape, rd, cd = [70000, 70000] + [2] * (N - 2), [0], list(range(1, N))
    k = draw(st.integers(1, 5))
    subs = set()
    for _ in range(k):
        subs.add(tuple(draw(st.sampled_from([0, n - 1, n - 1, max(0, n - 2), draw(st.integers(0, n - 1))])) for n in shape))
    subs = [list(r) for r in draw(st.permutations(sorted(subs)))]
    vals = draw(st.lists(gen.NZ_INT_VALUES, min_size=len(subs), max_size=len(subs)))
    c = dict(shape=shape, rdims=rd, cdims=cd, subs=subs, vals=vals, form=draw(st.sampled_from(["both", "both", "rdims", "cdims"])),
             sdt=draw(st.sampled_from(CO_DT)), mdt=draw(st.sampled_from(CO_DT)), vdt=draw(st.sampled_from(["float64", "float32", "int32"])),
             tshape_pres=draw(TSHAPE_PRES_TUPLE), shape_pres=draw(SHAPE_PRES))
    return draw(_common(c))


@cell("C01/present/coords", strategy=_coords_case, quick=50, thorough=400)
def present_coords(ctx, case):
    """sparse <-> sparse-matricized with int32 / uint32 / uint16 coordinates on shapes with more than 2**31 cells"""
    from scipy import sparse

    shape, rd, cd = case["shape"], case["rdims"], case["cdims"]
    N = len(shape)
    sdt = _dt_for([n - 1 for n in shape], case["sdt"])
    ctx.label(f"order{N}", "subs-" + sdt, "cells>2^32" if ref.prod(shape) > 2**32 else "cells>2^31",
              "cells>2^63" if ref.prod(shape) >= 2**63 else "cells<2^63", "form-" + case["form"], "rdt-" + case["rdt"],
              "rows-empty" if not rd else ("cols-empty" if not cd else "both-sides"), "vals-" + case["vdt"],
              "loud" if case["loud"] else "quiet")
    ctx.nt = len(case["subs"]) >= 2
    spec = dict(form=case["form"], rdims=rd, cdims=cd)
    if case["form"] == "rdims":
        spec.pop("cdims")
        case = dict(case, cdims=[m for m in range(N) if m not in rd])
    elif case["form"] == "cdims":
        spec.pop("rdims")
        case = dict(case, rdims=[m for m in range(N) if m not in cd])
    rd, cd = case["rdims"], case["cdims"]
    nr, nc = ref.prod(shape[d] for d in rd), ref.prod(shape[d] for d in cd)
    if nr >= 2**63 or nc >= 2**63:
        ctx.skip("a side of the split has 2**63 or more rows / columns")
    vals = np.array(case["vals"], dtype=float).astype(case["vdt"]).reshape(-1, 1)
    gs = np.array(case["subs"], dtype=sdt).reshape(-1, N)
    snap = gs.copy()
    with _Loud(case["loud"]):
        with ctx.sut("sptensor()"):
            S = ttb.sptensor(gs, vals, shape_arg(shape, case["shape_pres"]), case["copy"])
        B._check_huge_sptensor(ctx, S, case, "sptensor()")
        args, kw = _split_args(spec, case["rdt"], case["cdt"], case["positional"])
        with ctx.sut("sptensor.to_sptenmat"):
            M = S.to_sptenmat(*args, **kw)
        want = B._check_huge_sptenmat(ctx, M, case, "to_sptenmat")
        B._stage(ctx, "sptenmat.to_sptensor", M.to_sptensor, lambda S2: B._check_huge_sptensor(ctx, S2, case, "sptenmat.to_sptensor"))
        if N == 2 and max(shape) < 2**31:

            def chk_sp(m):
                ctx.require(sparse.issparse(m), "spmatrix-returns-scipy-sparse", type(m).__name__)
                m = m.tocoo()
                ctx.check(tuple(int(v) for v in m.shape) == tuple(shape), "spmatrix-shape", m.shape)
                got = {(int(i), int(j)): float(v) for i, j, v in zip(m.row, m.col, m.data)}
                ctx.check(got == {tuple(s): float(v) for s, v in zip(case["subs"], vals[:, 0])}, "spmatrix-entries")

            B._stage(ctx, "sptensor.spmatrix", S.spmatrix, chk_sp)
        rc = sorted(want)
        r_, c_ = _ctor_dims(spec, rd, cd, case["rdt"], case["cdt"])
        tsh = shape_arg(shape, case["tshape_pres"])
        mdt = _dt_for([v for k in rc for v in k], case["mdt"])
        ctx.label("msubs-" + mdt)

        def ctor():
            return ttb.sptenmat(np.array([list(k) for k in rc], dtype=mdt).reshape(-1, 2),
                                np.array([want[k] for k in rc]).astype(case["vdt"]).reshape(-1, 1), r_, c_, tsh, case["copy"])

        M2 = B._stage(ctx, "sptenmat()", ctor, lambda M2: B._check_huge_sptenmat(ctx, M2, case, "sptenmat()"))
        if M2 is not None:
            B._stage(ctx, "sptenmat().to_sptensor", M2.to_sptensor,
                     lambda S2: B._check_huge_sptensor(ctx, S2, case, "sptenmat().to_sptensor"))
        if nr < 2**31 and nc < 2**31:
            # a scipy COO matrix carries int32 coordinates; rows * columns may still exceed 2**31
            ctx.label("scipy-int32-coordinates")
            coo = sparse.coo_matrix((np.array([want[k] for k in rc]), (np.array([k[0] for k in rc], dtype=np.int32),
                                                                       np.array([k[1] for k in rc], dtype=np.int32))), shape=(nr, nc))
            M3 = B._stage(ctx, "sptenmat.from_array", lambda: ttb.sptenmat.from_array(coo, r_, c_, tsh),
                          lambda M3: B._check_huge_sptenmat(ctx, M3, case, "from_array"))
            if M3 is not None:
                S3 = B._stage(ctx, "from_array.to_sptensor", M3.to_sptensor,
                              lambda S3: B._check_huge_sptensor(ctx, S3, case, "from_array.to_sptensor"))
                if isinstance(S3, ttb.sptensor) and not rd == cd:
                    swapped = dict(case, rdims=cd, cdims=rd)
                    B._stage(ctx, "from_array.to_sptensor.to_sptenmat", lambda: S3.to_sptenmat(iarr(cd, case["rdt"]), iarr(rd, case["cdt"])),
                             lambda M4: B._check_huge_sptenmat(ctx, M4, swapped, "from_array.to_sptensor.to_sptenmat"))
    ctx.check(np.array_equal(gs, snap), "sptensor():given-array-unchanged")


# --------------------------------------------------------------------------
# Kruskal / Tucker / sums: how the factor matrices, the core and the parts are handed over
# --------------------------------------------------------------------------

FACTOR_FORMS = ["ndarray", "view", "view", "coo", "coo", "csr-as-coo", "float32", "coo-float32", "int"]


@st.composite
def _factors_case(draw, tier):
    kind = draw(st.sampled_from(["ktensor", "ktensor", "ttensor", "ttensor", "sumtensor"]))
    if kind == "ktensor":
        c = draw(B.kt_case(tier, min_order=1))
        c["kprov"] = "ctor"
        c["fviews"] = [draw(st.sampled_from(VIEWS)) for _ in c["shape"]]
        c["wview"] = draw(st.sampled_from(VIEWS))
        c["split"] = draw(B.split_spec(len(c["shape"])))
    elif kind == "ttensor":
        c = draw(gen.ttensor_case(tier, min_order=1))
        c["cscale"], c["core_prov"], c["sparse_factors"] = 1.0, "ctor", False
        c["fforms"] = [draw(st.sampled_from(FACTOR_FORMS)) for _ in c["shape"]]
        c["fviews"] = [draw(st.sampled_from(VIEWS)) for _ in c["shape"]]
        c["core_dt"] = draw(st.sampled_from(["float64", "float64", "float32", "int32"]))
        c["core_view"] = draw(st.sampled_from(VIEWS))
    else:
        shape = draw(gen.shapes(tier, min_order=1, max_order=3))
        vkind = draw(st.sampled_from(["int", "float"]))
        parts = []
        for _ in range(draw(st.integers(1, 3))):
            h = draw(st.sampled_from(["tensor", "sptensor", "ktensor"]))
            if h == "tensor":
                p = draw(B.dense_holder(tier, shape=shape, kinds=(vkind,)))
                p["prov"], p["layout"] = "ctor", "F"
            elif h == "sptensor":
                p = draw(B.sparse_holder(tier, shape=shape, kinds=(vkind,)))
                p["prov"], p["zsubs"], p["zpos"], p["junk"], p["shapekind"] = "ctor", [], [], [], "int"
            else:
                p = draw(B._kt_part(tier, shape, vkind))
                p["kprov"] = "ctor"
            if h != "ktensor":
                p["dtype"] = draw(st.sampled_from(["float64", "float32", "float32"] + (["int32"] if vkind == "int" else [])))
            parts.append(p)
        c = dict(shape=list(shape), vkind=vkind, parts=parts)
    c["kind"], c["seq"] = kind, draw(st.sampled_from(["list", "tuple"]))
    c["split"] = c.get("split") or draw(B.split_spec(len(c["shape"])))
    return draw(_common(c))


def _f32(x):
    return np.asarray(x, dtype=float).astype(np.float32).astype(float)


def _cmp32(A, Babs, nterms, exact, single):
    if exact:
        return lambda d, *a: ref.same_exact(d, A)
    factor = 64.0 * (EPS32 / ref.EPS if single else 1.0)
    return lambda d, *a: ref.same_bound(d, A, Babs, nterms, factor)


@cell("C01/present/factors", strategy=_factors_case, quick=90, thorough=700)
def present_factors(ctx, case):
    """Kruskal / Tucker / sum -> dense with factor matrices, core and parts handed over as callers hand them over"""
    from scipy import sparse

    kind, seq = case["kind"], (list if case["seq"] == "list" else tuple)
    cp, pos = case["copy"], case["positional"]
    shape = tuple(case["shape"])
    N = len(shape)
    ctx.label(kind, "seq-" + case["seq"], "copy" if cp else "nocopy", "positional" if pos else "keywords",
              "loud" if case["loud"] else "quiet", *gen.shape_classes(case["shape"]), "v-" + case["vkind"])
    given, K = [], None
    exact = case["vkind"] == "int"
    single = False
    with _Loud(case["loud"]):
        if kind == "ktensor":
            fm = [np.array(f, dtype=float).reshape(n, case["rank"]) for f, n in zip(case["factors"], case["shape"])]
            w = B._kt_weights(case)
            exact = exact and case.get("wscale", 1.0) >= 1.0
            A, Babs = ref.den_kruskal(w, fm), ref.abs_kruskal(w, fm)
            nterms = case["rank"]
            given = [present(f, v) for f, v in zip(fm, case["fviews"])] + [present(w, case["wview"])]
            for v in case["fviews"]:
                ctx.label("factor-view-" + v)
            ctx.label("weights-view-" + case["wview"])
            with ctx.sut("ktensor()"):
                K = ttb.ktensor(seq(given[:-1]), given[-1], cp) if pos else ttb.ktensor(seq(given[:-1]), weights=given[-1], copy=cp)
        elif kind == "ttensor":
            core = gen.arr_F(case["cshape"], case["core"])
            fm = [np.array(f, dtype=float).reshape(s, c) for f, s, c in zip(case["factors"], case["shape"], case["cshape"])]
            cdt = case["core_dt"] if (exact or case["core_dt"] != "int32") else "float64"
            single = cdt == "float32"
            if single:
                core = _f32(core)
            fgiven = []
            for f, form, v in zip(fm, case["fforms"], case["fviews"]):
                if form == "int" and not exact:
                    form = "ndarray"
                ctx.label("factor-" + form)
                if "float32" in form:
                    single = True
                    f = _f32(f)
                if form == "ndarray":
                    g = f.copy(order="F")
                elif form == "view":
                    g = present(f, v)
                    ctx.label("factor-view-" + v)
                elif form == "coo":
                    g = sparse.coo_matrix(f)
                elif form == "csr-as-coo":
                    g = sparse.csr_matrix(f).tocoo()  # unsorted-by-column entries, int32 coordinates
                elif form == "float32":
                    g = np.asfortranarray(f.astype(np.float32))
                elif form == "coo-float32":
                    g = sparse.coo_matrix(f.astype(np.float32))
                else:
                    g = np.asfortranarray(f.astype(np.int64))
                fgiven.append(g)
                fm[len(fgiven) - 1] = f
            A = ref.den_tucker(core, fm)
            Babs = ref.den_tucker(np.abs(core), [np.abs(f) for f in fm])
            nterms = ref.prod(case["cshape"])
            ctx.label("core-" + cdt, "sparse-core" if case["sparse_core"] else "dense-core", "core-view-" + case["core_view"])
            cgiven = present(core.astype(cdt), case["core_view"])
            with ctx.sut("ttensor-core"):
                C = ttb.tensor(cgiven, copy=cp)
                if case["sparse_core"]:
                    C = C.to_sptensor()
            given = [cgiven] + fgiven
            with ctx.sut("ttensor()"):
                K = ttb.ttensor(C, seq(fgiven), cp) if pos else ttb.ttensor(C, seq(fgiven), copy=cp)
        else:
            built = []
            for p in case["parts"]:
                q = dict(p)
                if q["holder"] != "ktensor" and q.get("dtype") == "float32" and case["vkind"] != "int":
                    single = True
                if q["holder"] == "tensor":
                    Bd, Ad = B.dense_array(q)
                    built.append((ttb.tensor(np.asfortranarray(Bd)), Ad, np.abs(Ad), 1))
                elif q["holder"] == "sptensor":
                    v = np.array(q["vals"], dtype=float).astype(q["dtype"]).astype(float)
                    if np.any(v == 0):
                        ctx.skip("a value rounds to zero in float32")
                    q["vals"] = [float(x) for x in v]
                    Ad = gen.dense_of_sparse_case(q)
                    built.append((B._sp(q["subs"], q["vals"], shape, q["dtype"]), Ad, np.abs(Ad), 1))
                else:
                    built.append(B._build_part(q))
                ctx.label("part-" + q["holder"] + "-" + q.get("dtype", "float64"))
            A = sum(b[1] for b in built)
            Babs = sum(b[2] for b in built)
            nterms = sum(b[3] for b in built) + len(built)
            exact = exact and all(p.get("kprov", "ctor") in B.KT_EXACT for p in case["parts"])
            with ctx.sut("sumtensor()"):
                K = ttb.sumtensor([b[0] for b in built], cp) if pos else ttb.sumtensor([b[0] for b in built], copy=cp)
        ctx.label("single-precision-bound" if single and not exact else ("exact" if exact else "double-precision-bound"))
        ctx.nt = B._nt_array(A)
        snaps = [g.copy() for g in given]
        cmp = _cmp32(A, Babs, nterms, exact, single)
        ctx.check(B.tup(K.shape) == A.shape and K.ndims == A.ndim, "shape", K.shape)
        # float32 data: the result's dtype is not promised, _check_ndarray demands float64 of double() only
        B._stage(ctx, f"{kind}.full", K.full, lambda D: B._check_tensor(ctx, D, A, "full", cmp))
        B._stage(ctx, f"{kind}.to_tensor", K.to_tensor, lambda D: B._check_tensor(ctx, D, A, "to_tensor", cmp))
        B._stage(ctx, f"{kind}.double", K.double, lambda a: B._check_ndarray(ctx, a, A, "double", cmp))
        if kind == "ktensor":
            spec = case["split"]
            rd, cd = B.expected_split(N, spec)
            B._split_labels(ctx, spec, rd, cd)
            ctx.label("rdt-" + case["rdt"], "cdt-" + case["cdt"])
            args, kw = _split_args(spec, case["rdt"], case["cdt"], pos, cp)

            def cmpm(got, r, c):
                E = ref.matricize(A, r, c)
                return ref.same_exact(got, E) if exact else ref.same_bound(got, E, ref.matricize(Babs, r, c), nterms)

            M = B._stage(ctx, "ktensor.to_tenmat", lambda: K.to_tenmat(*args, **kw),
                         lambda M: B._check_tenmat(ctx, M, A, rd, cd, "to_tenmat", cmpm))
            if M is not None:
                B._stage(ctx, "tenmat.to_tensor", M.to_tensor, lambda D: B._check_tensor(ctx, D, A, "tenmat.to_tensor", cmp))

            def valid_again():
                B._stage(ctx, "ktensor.to_tenmat-after-rejected", lambda: K.to_tenmat(*args, **kw),
                         lambda M2: B._check_tenmat(ctx, M2, A, rd, cd, "to_tenmat-after-rejected", cmpm))

            ksnap = B._kt_snapshot(K)
            _reject_between(ctx, "ktensor", K, lambda r, c: K.to_tenmat(r, c), N, case, rd, cd, valid_again,
                            lambda K_: B._kt_unchanged(K_, ksnap))
        elif kind == "ttensor":
            B._stage(ctx, "ttensor.reconstruct", K.reconstruct, lambda D: B._check_tensor(ctx, D, A, "reconstruct", cmp))
        for g, s0 in zip(given, snaps):
            same = (g != s0).nnz == 0 if sparse.issparse(g) else np.array_equal(g, s0)
            ctx.check(bool(same), "given-array-unchanged")
