"""C12 — GCP losses, gradients and their tensor-level evaluation are mutually consistent."""

from __future__ import annotations

import contextlib
import logging

import numpy as np
from hypothesis import strategies as st

import pyttb as ttb
from pyttb.gcp import fg, fg_est, fg_setup

from .. import gen, ref
from ..core import cell
from . import _c12_helpers as H

PROPERTY = "C12"
RULE = (
    "handle cells: for each of the ten losses, vectors of (data value in the loss's data domain incl. magnitudes "
    "1e-6..1e6, model value in [lower bound, ...) incl. 0 for bounded losses, extra parameter over its range, also a "
    "Python int for num_trials) drawn by Hypothesis; integer-valued data also held in int64/int32/uint8/uint16 (bool "
    "for the Bernoulli losses) and compared with its float64 image; oracle = complex-step derivative (h=1e-30) of "
    "function_handle for the nine analytic losses, Richardson central differences for Huber (kept 2% of the "
    "threshold away from the kink); a second setup with another parameter leaves the first pair alone and carries "
    "its own parameter.  evaluate cells: loss x Kruskal model (N 2..5, R 1..4, non-cubical, zero entries; fresh or "
    "after copy / weight absorption (C-ordered factor) / permute, and weighted: explicit weights / normalize / "
    "arrange) x dense (constructor F/C input, grown) / sparse (stored order, NumPy-int shape, stored zeros) data in "
    "float or integer dtype x weights none / mask (float, int64, bool, uint8) / positive in C or F order; oracle = "
    "sum of w*f over den(model) and, for unit-weight models, einsum of w*g and <G[k],V> = directional derivative of "
    "the objective recomputed by me (complex step through the Kruskal sum).  mttkrps: == per-mode mttkrp and == "
    "einsum definition (integer data exact; integer-typed tensors and factor lists, mixed with float).  estimate: "
    "all subscripts in generated order / arbitrary sample multisets with weights and correction range, values / "
    "subscripts / sample weights in integer dtypes, lambda_check default/True/False, weighted models with the check "
    "on; oracle = per-sample loop on den(model) incl. weights; gradients w.r.t. the unit-weight factor matrices the "
    "model has after the call.  Model classes: generic entries (exact zeros included), entries next to zero (1e-290 / "
    "1e-200 / 1e-12: not zeros), identity factors exactly and perturbed by 1e-9..1e-4, columns scaled by exactly "
    "balanced powers of two (2^60 .. 2^480 in one mode, the inverse in another), model weights 1 +- 1e-9..1e-5; weight "
    "arrays also mostly missing (0, 1, 2, ... observed entries, at most a quarter) and 1 +- 1e-9..1e-5; data / model "
    "values down to 1e-12 / 1e-15 in the handle cells.  evaluate: what it returns is overwritten (operands must not "
    "change), then data (item assignment) and / or model (ktensor.update) are edited in place and the same objects are "
    "evaluated again (objective and gradients of the operands as they stand).  large cells: a few problems per run "
    "with 60000 cells, 1e4..3e4 non-zero data entries (sparse or dense), mostly-missing weights; estimate on 1e4..3e4 "
    "samples (block edges 10000 / 16384 +-1), expanded deterministically from a seed, same bodies.  Round 4 - the same "
    "request as another caller presents it: sample subscripts in int8 / uint8 / int16 / uint16 / int32 / uint32 / uint64 (always "
    "a dtype that holds every subscript), C / Fortran ordered, a strided view or read-only; sample values in float32 / int16 / "
    "uint64, sample weights in float32 / int32 / uint8 / uint16, correction range in int32 / uint8 / int16 / uint64; models with "
    "one long mode (length x rank above 127 / 255 / 32767 / 65535 while every subscript fits the narrow dtype; rows near the "
    "end sampled; also every entry of such a tensor as the sample), judged by the per-sample definition and by the answer "
    "to the same request in the plain presentation (int64, float64, C order); evaluate: weights in float32 / int16 / int32 / "
    "uint16 / uint64, read-only or strided; dense / sparse data in float32, int8 / int16 / uint64; sparse data built from "
    "int32 / uint8 / int16 / uint16 / uint64 subscripts (large cells: the linear index does not fit the narrow dtype); mttkrp(s): "
    "factor lists of C-ordered / strided / read-only arrays, the mode as a NumPy integer; handles: data in float32 / int8 / "
    "int16 / uint64, strided / read-only / F-ordered arguments.  The root logger at DEBUG (NullHandler) must not change any "
    "answer (estimate: bit for bit against the quiet call).  A rejected request (no handles, missing loss parameter, data "
    "outside the loss's domain, MTTKRP factor of the wrong size) between two identical evaluations leaves model, data, weights "
    "and arguments bit for bit and the second evaluation equals the first.  Non-trivial: N>=3, R>=2 and non-constant data (tensor cells); data value not 0 and "
    "model value not 0 (handle cells)."
)
ASSUMPTIONS = [
    "factor-matrix gradients are specified for unit-weight models (fg.evaluate takes the model as is: for a weighted "
    "model only its objective is checked; fg_est.estimate documents that its lambda check brings a weighted model to "
    "unit weights - in place - and the returned gradients refer to those factor matrices; with lambda_check=False "
    "only unit-weight models are generated)",
    "after estimate the caller's model must denote the same tensor: either untouched or unit weights with the same "
    "einsum within 64 (N+R+2) eps x the sum of absolute terms",
    "N >= 2: MTTKRP (hence the GCP gradient) is rejected by pyttb for 1-way tensors",
    "the handles' documented 1e-10 shift inside log/division is part of the loss: the derivative is taken of "
    "function_handle as implemented, so model value 0 is inside the domain of the bounded losses",
    "tolerances: 64 eps x (sum of absolute terms of f resp. df/dm) per entry, plus the handle's variation over "
    "the rounding interval of the model value (8 (N+R) eps x Kruskal sum of absolute values, x2..x4 for weighted "
    "models); sums over n entries get 64 n eps x sum of absolute summands.  Huber: rounding of a central difference, "
    "8*err(f)/h.  All tolerances are relative (they scale with the data / model magnitude)",
    "Huber is checked at least 2% of the threshold away from |x-m| = threshold (not differentiable there)",
    "beta loss: b outside [-0.05,0.05] and [0.95,1.05] (the loss divides by b and b-1)",
    "an integer dtype is used only when it holds every data value exactly; the derivative property is judged on the "
    "float64 image and 'independent of data dtype' is a clause of its own (16 eps x term scale)",
    "single precision (float32 data / sample values / weights): the request is the rounded array (its float64 image is the "
    "reference) and every tolerance is multiplied by eps32/eps - a single-precision bound; Huber data is never held in float32 "
    "(kink margin).  ktensor rejects float32 factor matrices, so float32 models do not exist; C-ordered factors arise through "
    "normalize(k) (state 'absorbed')",
    "rejections asserted (ctx.raises) are those pyttb documents: evaluate / estimate without any handle, setup without the "
    "parameter of Huber / negative binomial / beta, setup with data outside what it documents to check (non-binary, non-integer, "
    "negative), mttkrp with a factor matrix whose row count differs from the mode length",
    "extreme magnitudes are generated so that no product of factor entries is a subnormal number or depends on the "
    "order of the factors (one tiny magnitude class per model; power-of-two column scalings balanced per component; "
    "never a huge entry next to tiny ones); a model with entries below 1e-150 is not sent through normalize() (the "
    "square underflows: column 2-norms are not meaningful) and its directional derivative is not recomputed by "
    "complex step (1e-30 x 1e-290 underflows in my oracle)",
    "setup's domain check (valid_binary / valid_nonneg look at the stored values of a sparse tensor) is not asserted "
    "for sparse data that stores explicit zeros: whether a stored 0 passes it is outside C12",
]

EPS = H.EPS


@contextlib.contextmanager
def _env(kind):
    """process environment of a call: None = as the harness runs it (logging silenced); 'debug-logging' = the root logger
    at DEBUG with a NullHandler and logging enabled (restored afterwards).  What is computed must not depend on it."""
    if kind != "debug-logging":
        yield
        return
    root = logging.getLogger()
    old, old_disable, old_handlers = root.level, root.manager.disable, root.handlers[:]
    root.handlers[:] = [logging.NullHandler()]  # (records are produced and handled, nothing is printed)
    root.setLevel(logging.DEBUG)
    logging.disable(logging.NOTSET)
    try:
        yield
    finally:
        logging.disable(old_disable)
        root.setLevel(old)
        root.handlers[:] = old_handlers


def _sample_arrays(case, subs, vals, wts, crng):
    """the sample as the caller presents it (dtypes / memory layouts drawn in the case) and the float64 images of the
    values and weights it then denotes; slack = 1, or eps32/eps when a single-precision array takes part"""
    a_subs = H.present_array(subs.copy(), case.get("slayout"))
    a_vals, vals = H.as_presented(vals, case.get("vdtype") if case["loss"] != "huber" else None)
    swd = case.get("swdtype")
    if swd in (None, "float64"):
        a_wts = wts.copy()
    else:
        a_wts, wts = H.as_presented(wts, swd)
    a_vals = H.present_array(a_vals, case.get("vlayout"))
    a_wts = H.present_array(a_wts, case.get("vlayout"))
    a_crng = None if crng is None else H.present_array(crng.astype(case.get("cdtype") or "int64"), case.get("clayout"))
    slack = H.SLACK32 if np.float32 in (a_vals.dtype, a_wts.dtype) else 1.0
    return a_subs, a_vals, a_wts, a_crng, vals, wts, slack


def _layout_label(a):
    return ("ro-" if not a.flags.writeable else "") + ("C" if a.flags["C_CONTIGUOUS"] else ("F" if a.flags["F_CONTIGUOUS"] else "strided"))


def _nb_case_has_x_not_1(case):
    """negative-binomial problem in which some entry with non-zero weight has data != 1 (for data == 1 the
    coded gradient (r+1)/(1+m) coincides with the true (r+x)/(1+m))."""
    if case.get("loss") != "negative_binomial":
        return False
    if case.get("large") and "fill" in case:  # evaluate/large: the data the compact case stands for
        case = H.expand_large(case)
    if "vals" in case:  # estimate/samples
        crng = case.get("crng")
        if crng:  # the correction evaluates the gradient at data 0
            return True
        return any(v != 1 and w != 0 for v, w in zip(case["vals"], case["sweights"]))
    data = case["data"]
    w = case.get("weights") or [1.0] * len(data)
    return any(x != 1 and wi != 0 for x, wi in zip(data, w))


def _case_data(case):
    """(dtype name, data values) of a handle / evaluate / estimate case"""
    if "x" in case:
        return case.get("xdtype"), case["x"][:1] if case.get("form") == "scalar" else case["x"]
    if "vals" in case:
        return case.get("vdtype"), case["vals"] or []
    if "order" in case:  # estimate/all-entries: the sample values are the data in dtype 'vdtype'
        return case.get("vdtype"), case.get("data") or []
    return case.get("ddtype"), case.get("data") or []


def _held_in(case, dtypes):
    """the case's data is integer-valued, fits the drawn dtype (so it is really held in it) and that dtype is listed"""
    dt, vals = _case_data(case)
    if dt not in dtypes or not vals:
        return False
    return all(v == int(v) and 0 <= v <= H.DTYPE_MAX.get(dt, 2**53) for v in vals)


def _rayleigh_overflow(case):
    dt, vals = _case_data(case)
    limit = {"uint8": 16, "uint16": 256, "int32": 46341}.get(dt)
    return case.get("loss") == "rayleigh" and limit is not None and _held_in(case, (dt,)) and any(v >= limit for v in vals)


PREDICATES = {
    "nb_int_trials_small_int_data": lambda case: case.get("loss") == "negative_binomial" and isinstance(case.get("param"), int)
    and _held_in(case, ("uint8", "uint16", "int32")),
    "gamma_unsigned_data": lambda case: case.get("loss") == "gamma" and _held_in(case, ("uint8", "uint16")) and any(
        v != 0 for v in _case_data(case)[1]),
    "rayleigh_square_overflows_dtype": _rayleigh_overflow,
    "nb_some_data_not_1": _nb_case_has_x_not_1,
    "ktensor_nonunit_weights": lambda case: case.get("ukind") == "ktensor" and any(w != 1 for w in case["uweights"]),
    "no_samples": lambda case: len(case.get("subs", [0])) == 0,
    "uint64_sparse_subs_then_item_assignment": lambda case: case.get("spsubs") == "uint64" and case.get("holder") == "sparse"
    and case.get("edit") in ("data", "both"),
}


# --------------------------------------------------------------------------
# (a) element-wise handle pairs
# --------------------------------------------------------------------------


def _handle_strategy(name):
    @st.composite
    def s(draw, tier):
        p = draw(H.param_strategy(name))
        n = draw(st.integers(1, 5))
        if name == "huber":
            xs = draw(st.lists(H.data_value("real"), min_size=n, max_size=n))
            rs = draw(st.lists(H.huber_ratio(), min_size=n, max_size=n))
            ms = [x - s_ * r * p for x, (s_, r) in zip(xs, rs)]
        else:
            xs = draw(st.lists(H.data_value(H.LOSSES[name]["data"]), min_size=n, max_size=n))
            ms = draw(st.lists(H.model_value(name), min_size=n, max_size=n))
        form = draw(st.sampled_from(["vector", "vector", "matrix", "scalar"]))
        # integer-valued data is naturally held in an integer (binary data also in a boolean) array
        xdtype = draw(st.sampled_from(H.data_dtypes(name) + (["float32", "float32", "int16", "uint64", "int8"] if name != "huber" else [])))
        xlayout = draw(st.sampled_from([None, None, None, "strided", "readonly", "F"]))
        if name == "negative_binomial" and p == int(p) and draw(st.booleans()):
            p = int(p)  # the number of trials given as a Python int
        other = draw(H.param_strategy(name))
        return dict(loss=name, param=p, x=xs, m=ms, form=form, xdtype=xdtype, other_param=other, xlayout=xlayout)

    return s


def _setup(ctx, name, p, data=None):
    with ctx.sut("fg_setup.setup"):
        out = fg_setup.setup(H.objective(name), data, p)
    ctx.require(isinstance(out, tuple) and len(out) == 3 and callable(out[0]) and callable(out[1]),
                "setup-returns-handle-pair-and-bound", type(out).__name__)
    return out


def _handle_body(ctx, case):
    name, p = case["loss"], case["param"]
    fh, gh, lb = _setup(ctx, name, p)
    ctx.check(float(lb) == H.LOSSES[name]["lb"], "lower-bound-is-domain-boundary", f"{lb}")
    x = np.array(case["x"], dtype=float)
    m = np.array(case["m"], dtype=float)
    if case["form"] == "matrix":
        x, m = x.reshape(1, -1), m.reshape(1, -1)
    elif case["form"] == "scalar":
        x, m = x[:1].reshape(()), m[:1].reshape(())
    # the data as the caller holds it (dtype, memory layout) and its float64 image (single precision: the rounded values)
    x, xf = H.as_presented(x, case.get("xdtype"))
    if x.dtype == np.bool_ and not np.all(np.isin(xf, [0, 1])):
        x = xf
    s32 = H.SLACK32 if x.dtype == np.float32 else 1.0
    if x.ndim:
        x, m = H.present_array(x, case.get("xlayout")), H.present_array(m, case.get("xlayout"))
        ctx.label("x-layout-" + _layout_label(x))
    x0, m0 = x.copy(), m.copy()
    ctx.label("form-" + case["form"], "x-dtype-" + str(x.dtype), "param-" + type(p).__name__)
    for xv in np.ravel(x):
        ctx.label(H.data_class(float(xv)))
    for mv in np.ravel(m):
        ctx.label("m=0" if mv == 0 else ("m<0" if mv < 0 else "m>0"))
    ctx.nt = bool(np.any((np.ravel(x) != 0) & (np.ravel(m) != 0)))
    with ctx.sut("function_handle"):
        f = fh(x, m)
    with ctx.sut("gradient_handle"):
        g = gh(x, m)
    ctx.check(np.array_equal(x, x0) and x.dtype == x0.dtype and np.array_equal(m, m0), "handles-leave-arguments")
    f, g = np.asarray(f), np.asarray(g)
    ctx.require(f.shape == x.shape and g.shape == x.shape, "handle-result-shape", f"{f.shape} {g.shape} vs {x.shape}")
    ctx.require(bool(np.all(np.isfinite(f)) and np.all(np.isfinite(g))), "handle-finite-on-domain", f"{f} {g}")
    sg = H.scale_g(name, xf, m, p)
    if x.dtype != np.float64:
        # the same data values held in float64 must give the same loss and gradient values
        with ctx.sut("handles-on-float64-image"):
            ff, gf = np.asarray(fh(xf, m)), np.asarray(gh(xf, m))
        ctx.check(H.within(f, ff, 16 * EPS * s32 * H.scale_f(name, xf, m, p) + 1e-300), "loss-independent-of-data-dtype",
                  f"{x.dtype}: {H.worst(f, ff, 16 * EPS * s32 * H.scale_f(name, xf, m, p))}")
        ctx.check(H.within(g, gf, 16 * EPS * s32 * sg + 1e-300), "gradient-independent-of-data-dtype",
                  f"{x.dtype}: {H.worst(g, gf, 16 * EPS * s32 * sg)}")
        ctx.require(ff.shape == x.shape and gf.shape == x.shape and bool(np.all(np.isfinite(ff)) and np.all(np.isfinite(gf))),
                    "handle-finite-on-domain", f"{ff} {gf}")
        f, g = ff, gf  # the derivative property is then judged on the float64 image
    if H.LOSSES[name]["param"] is not None and case.get("other_param") is not None:
        # a handle pair obtained earlier keeps its own parameter when setup is called again with another one
        with ctx.sut("function_handle"):
            fh_first, gh_first = fh(xf, m), gh(xf, m)
        p2 = case["other_param"]
        fh2, gh2, _ = _setup(ctx, name, p2)
        with ctx.sut("function_handle"):
            f2 = np.asarray(fh2(xf, m))
        ctx.check(H.within(f2, H.param_loss(name, xf, m, p2), 64 * EPS * H.scale_f(name, xf, m, p2) + 1e-300),
                  "each-setup-carries-its-own-parameter", f"p={p!r} then p={p2!r}")
        with ctx.sut("function_handle"):
            f_again, g_again = np.asarray(fh(xf, m)), np.asarray(gh(xf, m))
        ctx.check(np.array_equal(f_again, np.asarray(fh_first)) and np.array_equal(g_again, np.asarray(gh_first)),
                  "handles-keep-their-parameter-after-a-later-setup")
    x = xf  # the derivative oracle below works on the float64 image
    if name == "huber":
        t = p
        h = np.full(m.shape, 1e-3 * t)
        with ctx.sut("function_handle-shifted"):
            d = H.richardson(lambda mm: fh(xf, mm), m, h)
        a = np.abs(x) + np.abs(m) + t
        ef = 16 * EPS * a * (2 * a)  # |f| <= a^2, df/d(x-m) <= 2a, rounding of x-m <= eps*a
        tol = 8 * ef / h + 64 * EPS * sg
    else:
        with ctx.sut("function_handle-complex"):
            d = H.complex_step(fh, x, m)
        tol = 64 * EPS * sg + 1e-300
    d = np.asarray(d, dtype=float)
    xr, gr, dr, tr, mr = np.ravel(x), np.ravel(g), np.ravel(d), np.ravel(tol), np.ravel(m)
    for i in range(xr.size):
        ok = abs(gr[i] - dr[i]) <= tr[i]
        ctx.check(ok, f"gradient-is-derivative[{H.data_class(float(xr[i]))}]",
                  f"x={xr[i]!r} m={mr[i]!r} p={p!r}: gradient_handle {gr[i]!r} vs d/dm function_handle {dr[i]!r} (tol {tr[i]:.3g})")
    # vectorised evaluation = element-wise evaluation
    if x.size > 1:
        with ctx.sut("handles-elementwise"):
            fe = np.array([float(fh(np.array(a_), np.array(b_))) for a_, b_ in zip(xr, mr)])
            ge = np.array([float(gh(np.array(a_), np.array(b_))) for a_, b_ in zip(xr, mr)])
        # (the vectorised and the scalar code paths of numpy's pow/log/exp may differ in the last bits)
        ctx.check(H.within(fe, np.ravel(f), 16 * EPS * np.ravel(H.scale_f(name, x, m, p)) + 1e-300)
                  and H.within(ge, np.ravel(g), 16 * EPS * np.ravel(sg) + 1e-300), "handles-are-elementwise")


for _name in H.LOSS_NAMES:
    cell(f"C12/handle/{_name}", strategy=_handle_strategy(_name), quick=400, thorough=10000, shards=(1, 2))(_handle_body)


# --------------------------------------------------------------------------
# (b) fg.evaluate
# --------------------------------------------------------------------------


@st.composite
def _evaluate_case(draw, tier, holders):
    c = draw(H.problem(tier, holders=holders))
    r = c["rank"]
    dv = st.one_of(st.integers(-2, 2).map(float), H.sfloats(0.01, 1.0))
    c["dirs"] = [draw(st.lists(st.lists(dv, min_size=r, max_size=r), min_size=n, max_size=n)) for n in c["shape"]]
    # afterwards the operands are changed in place and the evaluation is repeated on the same objects
    c["edit"] = draw(st.sampled_from([None, None, None, "data", "model", "both"]))
    c["edit_pos"] = draw(st.integers(0, 10**6))
    c["edit_val"] = draw(st.sampled_from([0.5, 1.0, 2.0, 3.0]))
    # round 4: the same problem as another caller presents it - weights in other dtypes / read-only / a strided view, data
    # in single precision, a sparse tensor whose subscripts came in another integer dtype, root logger at DEBUG
    c["wform"] = draw(st.sampled_from([None, None, None, "readonly", "strided", "float32", "int32", "int16", "uint16", "uint64"]))
    c["d32"] = draw(st.sampled_from([False, False, False, True]))
    if c["loss"] != "huber" and draw(st.sampled_from([False, False, False, True])):
        c["ddtype"] = draw(st.sampled_from(["int16", "uint64", "int8"]))  # (used where it holds every data value exactly)
    c["spsubs"] = draw(st.sampled_from([None, None, "int32", "int32", "uint8", "uint16", "uint64", "int16"]))
    c["env"] = draw(st.sampled_from(H.ENVS))
    return c


def _present_problem(ctx, case, data, w_arr):
    """(data, weights as handed over, float64 image of the weights, slack) in the presentation drawn in the case"""
    s32 = 1.0
    if isinstance(data, ttb.sptensor):
        subs, vals = data.subs, data.vals
        if case.get("spsubs") and subs.size:
            subs = subs.astype(case["spsubs"])
        if case.get("d32") and vals.dtype == np.float64:
            vals = vals.astype(np.float32)
        if subs is not data.subs or vals is not data.vals:
            data = ttb.sptensor(subs.copy(), vals.copy(), data.shape)
            ctx.label("sparse-data-subs-" + str(data.subs.dtype))
        s32 = H.SLACK32 if data.vals.dtype == np.float32 else s32
    elif case.get("d32") and data.data.dtype == np.float64:
        data = ttb.tensor(data.data.astype(np.float32))
        s32 = H.SLACK32 if data.data.dtype == np.float32 else s32
    w_in = None
    if w_arr is not None:
        wf = case.get("wform")
        if wf == "float32":
            w_arr = w_arr.astype(np.float32)
            s32 = H.SLACK32
        elif wf in ("int32", "int16", "uint16", "uint64") and case.get("wkind") in ("mask", "sparse-mask"):
            w_arr = H.typed(w_arr, wf).astype(wf, order="K") if np.all(w_arr == np.round(w_arr)) else w_arr
        w_in = H.present_array(w_arr.copy(order="K"), wf)
    return data, w_arr, w_in, s32


def _labels(ctx, case, X):
    shape = case["shape"]
    ctx.label("loss-" + case["loss"], *gen.shape_classes(shape), f"rank{case['rank']}", "w-" + case["wkind"])
    const = bool(np.all(X == X.flat[0])) if X.size else True
    ctx.nt = len(shape) >= 3 and case["rank"] >= 2 and not const
    if any(0.0 in row for f in case["factors"] for row in f):
        ctx.label("factor-has-zero")
    ctx.label(H.factor_class(case))
    if case.get("mscale") and any(e for _, _, e in case["mscale"]):
        ctx.label("columns-scaled-2^" + str(max(e for _, _, e in case["mscale"])))


def _sum_tol(w, vals, tol_entry):
    """tolerance of a weighted sum of n entry values"""
    n = max(1, vals.size)
    aw = np.abs(w) if w is not None else 1.0
    return float(np.sum(aw * tol_entry) + 64 * n * EPS * np.sum(aw * np.abs(vals))) + 1e-300


def _grad_refs(A, Yg, tolY, w, N, R):
    """reference gradients einsum(w*g, other factors) and entry-wise tolerances"""
    Yw = Yg if w is None else Yg * w
    tw = tolY if w is None else tolY * np.abs(w)
    absA = [np.abs(a) for a in A]
    out = []
    for k in range(N):
        Gk = H.mttkrp_ref(Yw, A, k)
        n = max(1, ref.prod(Yw.shape) // max(1, Yw.shape[k]))
        tk = H.mttkrp_ref(tw + 64 * (n + R + N) * EPS * np.abs(Yw), absA, k)
        out.append((Gk, tk + 1e-300))
    return out


def _model_labels(ctx, case, model, lam):
    ctx.label("model-" + case.get("mprov", "ctor"), "model-weights-unit" if np.all(lam == 1) else (
        "model-weights-near-one" if np.all(np.abs(lam - 1) <= 1e-4) else "model-weights-nonunit"))
    if any(not f.flags["F_CONTIGUOUS"] for f in model.factor_matrices if f.ndim == 2 and min(f.shape) > 1):
        ctx.label("model-has-C-ordered-factor")


def _data_labels(ctx, data):
    if isinstance(data, ttb.sptensor):
        ctx.label("data-dtype-" + str(data.vals.dtype))
        if not all(type(n) is int for n in data.shape):
            ctx.label("data-shape-holds-numpy-ints")
        if data.vals.size and np.any(data.vals == 0):
            ctx.label("data-stores-explicit-zero")
    else:
        ctx.label("data-dtype-" + str(data.data.dtype))
        if gen.is_grown(data):
            ctx.label("data-buffer-not-F-ordered")


def _evaluate_body(ctx, case):
    try:
        _evaluate_main(ctx, case)
    finally:
        ops = ctx.notes.pop("operands", None)
    if ops is not None:
        _edit_phase(ctx, case, *ops)


def _evaluate_main(ctx, case):
    case = H.expand_large(case)
    if case.get("large"):
        ctx.label("large-60000-cells", f"fill={case['fill']}", f"weights-density={case['wdensity'] if case['wkind'].startswith('sparse') else '-'}")
    name, p = case["loss"], case["param"]
    fh, gh, lb = _setup(ctx, name, p)
    model = H.build_model(case)
    lam, A = H.read_model(model)  # the model as it stands (after the operations that produced it)
    unit = bool(np.all(lam == 1))
    N, R = len(A), case["rank"]
    Aw = A if unit else H.absorb(lam, A)
    M = H.kruskal_c(Aw)
    dM = H.model_rounding(Aw) * (1 if unit else 2)
    X = H.data_array(case, M)
    if case.get("d32") and name != "huber" and not case.get("large"):
        X = X.astype(np.float32).astype(float)  # (the data a single-precision holder denotes)
    _labels(ctx, case, X)
    ctx.label("holder-" + case["holder"])
    _model_labels(ctx, case, model, lam)
    data = H.build_data(case, X)
    w_arr = H.weight_array(case)
    s32 = 1.0
    w_in = None if w_arr is None else w_arr.copy(order="K")
    # (Huber data is tied to the model values by the kink margin: never rounded to single precision)
    data, w_arr, w_in, s32 = _present_problem(ctx, dict(case, d32=bool(case.get("d32")) and name != "huber" and not case.get("large")),
                                              data, w_arr)
    _data_labels(ctx, data)
    w = None if w_arr is None else w_arr.astype(float)
    if w_arr is not None:
        ctx.label("weights-" + str(w_arr.dtype) + ("-F" if w_arr.flags["F_CONTIGUOUS"] and not w_arr.flags["C_CONTIGUOUS"]
                                                  else ("-C" if not w_arr.flags["F_CONTIGUOUS"] else "-CF")),
                  "weights-handed-over-" + _layout_label(w_in))
    ctx.label("env-" + str(case.get("env")), "single-precision-operand" if s32 != 1 else "double-precision-operands")
    data_before = ref.den(data).copy()
    ctx.require(np.array_equal(data_before, X), "harness-data-holder-denotes-the-data")

    with ctx.sut("fg.evaluate"), _env(case.get("env")):
        out = fg.evaluate(model, data, w_in, fh, gh)
    ctx.require(isinstance(out, tuple) and len(out) == 2, "evaluate-returns-F-and-G", type(out).__name__)
    F, G = out
    ctx.require(isinstance(F, (float, np.floating)) and isinstance(G, list) and len(G) == N
                and all(isinstance(g, np.ndarray) and g.shape == a.shape for g, a in zip(G, A)),
                "evaluate-result-types-and-shapes")
    # operands untouched
    ctx.check(w_arr is None or (np.array_equal(w_in, w_arr) and w_in.dtype == w_arr.dtype), "evaluate-leaves-weights")
    ctx.check(np.array_equal(ref.den(data), data_before), "evaluate-leaves-data")
    lam2, A2 = H.read_model(model)
    ctx.check(len(A2) == N and all(a.shape == b.shape and np.array_equal(a, b) for a, b in zip(A2, A))
              and np.array_equal(lam2, lam), "evaluate-leaves-model")

    pr = H.PointwiseRef(name, p, fh, gh, X, M, dM)
    # --- objective = weighted sum of the loss over all entries
    Yf = pr.f if w is None else pr.f * w
    F_ref = float(np.sum(Yf))
    tolF = _sum_tol(w, pr.f, pr.tol_f) * s32
    ctx.check(abs(F - F_ref) <= tolF, "objective-is-weighted-sum-of-loss", f"{F!r} vs {F_ref!r} tol {tolF:.3g}")
    with ctx.sut("fg.evaluate-function-only"):
        F1 = fg.evaluate(model, data, None if w_arr is None else w_arr.copy(order="K"), fh, None)
    ctx.check(isinstance(F1, (float, np.floating)) and F1 == F, "function-only-call-agrees")
    # --- what evaluate handed back is the caller's: writing into it changes neither operand nor a later evaluation
    G_kept = [g.copy() for g in G]
    for g in G:
        g[...] = 7.25
    lam3, A3 = H.read_model(model)
    ctx.check(all(np.array_equal(a, b) for a, b in zip(A3, A)) and np.array_equal(lam3, lam) and np.array_equal(ref.den(data), data_before),
              "writing-into-returned-gradients-leaves-operands")
    G = G_kept
    ctx.notes["operands"] = (model, data, w_arr, w, fh, gh, name, p, unit, s32)  # (for the edit phase, run last)
    if not unit:
        # (the factor-matrix gradients are specified for unit-weight models only, see ASSUMPTIONS)
        return
    # --- gradients = MTTKRP of the weighted element-wise derivative
    refs = [(Gk, tk * s32) for Gk, tk in _grad_refs(A, pr.g, pr.tol_g, w, N, R)]
    for k, (Gk, tk) in enumerate(refs):
        ctx.check(H.within(G[k], Gk, tk), "gradient-is-mttkrp-of-elementwise-derivative",
                  f"mode {k} of {case['shape']}: {H.worst(G[k], Gk, tk)}")
    # --- gradients = partial derivatives of the objective (recomputed from function_handle only)
    if any(np.any((a != 0) & (np.abs(a) < 1e-180)) for a in A):
        # (my complex step of 1e-30 times an entry of 1e-300 underflows: the directional derivative is not recomputed
        #  for such models; the clause above judges their gradients)
        ctx.label("no-complex-step-for-tiny-entries")
        V = None
    else:
        # directions on the scale of the columns they perturb (exact powers of two), so that the model moves by O(1)
        V = [H.scaled_direction(np.array(d, dtype=float).reshape(a.shape), A, k) for k, (d, a) in enumerate(zip(case["dirs"], A))]
    aw = 1.0 if w is None else np.abs(w)
    for k in range(N if V is not None else 0):
        Ak_dir = list(A)
        Ak_dir[k] = V[k]
        dMk = H.kruskal_c(Ak_dir)  # derivative of the model entries along V[k]
        absdir = [np.abs(a) for a in A]
        absdir[k] = np.abs(V[k])
        dMabs = H.kruskal_c(absdir)
        got = float(np.sum(G[k] * V[k]))
        if name == "huber":
            # central differences of my objective along A_k + s V_k; no entry may cross the kink
            D = np.abs(X - M)
            gap = np.min(np.abs(D - p)) if D.size else p
            hmax = 0.25 * gap / (1.0 + (float(np.max(dMabs)) if dMabs.size else 0.0))
            h = min(1e-3 * p, hmax)

            def obj(s):
                Ms = M + s * dMk
                Y = fh(X, Ms)
                return float(np.sum(Y if w is None else Y * w))

            with ctx.sut("function_handle-shifted"):
                want = float(H.richardson(obj, 0.0, h))
            a = np.abs(X) + np.abs(M) + p
            ef = float(np.sum(aw * (16 * EPS * a * 2 * a))) * (1 + 64 * X.size * EPS)
            tol = 8 * ef / h + float(np.sum(refs[k][1] * np.abs(V[k])))
        else:
            Ac = [a.astype(complex) for a in A]
            Ac[k] = A[k] + 1j * H.CS_H * V[k]
            with ctx.sut("function_handle-complex"):
                Yc = fh(X, H.kruskal_c(Ac))
            want = float(np.sum(np.imag(Yc) if w is None else np.imag(Yc) * w) / H.CS_H)
            tol = float(np.sum(refs[k][1] * np.abs(V[k]))) + float(
                np.sum(aw * (pr.tol_g + 64 * (X.size + N + R) * EPS * H.scale_g(name, X, M, p)) * dMabs))
        tol = tol * s32
        ctx.check(abs(got - want) <= tol + 1e-300, "gradient-is-derivative-of-objective",
                  f"mode {k}: <G,V>={got!r} vs dF/ds={want!r} tol {tol:.3g}")
    # --- single-output calls agree with the joint call
    with ctx.sut("fg.evaluate-gradient-only"):
        G1 = fg.evaluate(model, data, None if w_arr is None else w_arr.copy(order="K"), None, gh)
    ctx.check(isinstance(G1, list) and len(G1) == N and all(np.array_equal(a, b) for a, b in zip(G1, G)),
              "gradient-only-call-agrees")
    # --- the domain check of setup accepts this data (only asserted for data pyttb documents as valid:
    #     strictly positive entries for the 'non-negative' losses)
    stores_zero = isinstance(data, ttb.sptensor) and data.vals.size and bool(np.any(data.vals == 0))
    if stores_zero:
        # (setup's domain check looks at the stored values only; whether a stored 0 passes it is not part of C12)
        return
    if not (H.LOSSES[name]["data"] == "nonneg" or name == "negative_binomial") or bool(np.all(X > 0)):
        with ctx.sut("fg_setup.setup-with-data"):
            fg_setup.setup(H.objective(name), data, p)


def _edit_phase(ctx, case, model, data, w_arr, w, fh, gh, name, p, unit, s32=1.0):
    """the operands are edited in place - data by item assignment, the model by ktensor.update - and the SAME objects
    are evaluated again: objective and gradients must be those of the operands as they stand now"""
    edit = case.get("edit")
    if not edit or name == "huber" or case.get("large"):  # (Huber data is tied to the model values: kink margin)
        return
    shape = tuple(case["shape"])
    try:
        if edit in ("data", "both"):
            X0 = ref.den(data)
            sub = tuple(int(i) for i in np.unravel_index(case["edit_pos"] % X0.size, shape, order="F"))
            old_v = float(X0[sub])
            new_v = 1.0 - old_v if H.LOSSES[name]["data"] == "binary" else old_v + 1.0
            data[sub] = new_v
            want = X0.copy()
            want[sub] = new_v
            if not np.array_equal(ref.den(data), want):
                ctx.skip("item assignment did not produce the wanted data")
        if edit in ("model", "both"):
            lam0, A0 = H.read_model(model)
            k = case["edit_pos"] % len(A0)
            B = A0[k].copy()
            i, r = (case["edit_pos"] // 7) % B.shape[0], (case["edit_pos"] // 3) % B.shape[1]
            # (the new entry is on the scale of the column it is written into: exact power of two)
            v = float(case["edit_val"])
            if not any(np.any((a != 0) & (np.abs(a) < 1e-180)) for a in A0):  # (never a huge entry next to tiny ones)
                v = float(H.scaled_direction(np.full((1, B.shape[1]), v), A0, k)[0, r])
            B[i, r] = v if B[i, r] != v else 2.0 * v
            model.update([k], B.flatten(order="F"))
            lam1, A1 = H.read_model(model)
            if not (np.array_equal(A1[k], B) and all(np.array_equal(a, b) for j, (a, b) in enumerate(zip(A1, A0)) if j != k)
                    and np.array_equal(lam1, lam0)):
                ctx.skip("ktensor.update did not produce the wanted model")
    except (AssertionError, ValueError, IndexError, TypeError):  # (the editing operations are judged by other properties)
        ctx.skip("editing operation raised")
    ctx.label("edited-in-place-" + edit)
    lam, A = H.read_model(model)
    N, R = len(A), len(lam)
    Aw = A if unit else H.absorb(lam, A)
    M = H.kruskal_c(Aw)
    dM = H.model_rounding(Aw) * (1 if unit else 2)
    X = ref.den(data)
    with ctx.sut("fg.evaluate-after-in-place-edit"):
        out = fg.evaluate(model, data, None if w_arr is None else w_arr.copy(order="K"), fh, gh)
    ctx.require(isinstance(out, tuple) and len(out) == 2 and isinstance(out[1], list) and len(out[1]) == N
                and all(isinstance(g, np.ndarray) and g.shape == a.shape for g, a in zip(out[1], A)), "evaluate-returns-F-and-G")
    F, G = out
    pr = H.PointwiseRef(name, p, fh, gh, X, M, dM)
    F_ref = float(np.sum(pr.f if w is None else pr.f * w))
    tolF = _sum_tol(w, pr.f, pr.tol_f) * s32
    ctx.check(abs(F - F_ref) <= tolF, "objective-follows-in-place-edit", f"{edit}: {F!r} vs {F_ref!r} tol {tolF:.3g}")
    if unit:
        for k, (Gk, tk) in enumerate(_grad_refs(A, pr.g, pr.tol_g, w, N, R)):
            ctx.check(H.within(G[k], Gk, tk * s32), "gradient-follows-in-place-edit", f"{edit}, mode {k}: {H.worst(G[k], Gk, tk)}")


cell("C12/evaluate/dense", strategy=lambda tier: _evaluate_case(tier, ("dense",)), quick=500, thorough=10000,
     shards=(2, 8))(_evaluate_body)
cell("C12/evaluate/sparse", strategy=lambda tier: _evaluate_case(tier, ("sparse",)), quick=300, thorough=6000,
     shards=(2, 8))(_evaluate_body)
# a few large problems per run: 60000 cells, 1e4..3e4 stored nonzeros, mostly-missing weight arrays


@st.composite
def _large_case(draw, tier):
    """a large problem, its sparse data built from subscripts in an integer dtype that holds every subscript (narrow
    dtypes included: the linear index of a cell does not fit them), weights also read-only / strided / in other dtypes"""
    c = draw(H.large_problem())
    top = max(c["shape"]) - 1
    fits = [d for d, cap in (("int8", 127), ("uint8", 255), ("int16", 32767), ("uint16", 65535), ("int32", 2**31 - 1),
                             ("uint64", 2**63)) if top <= cap]
    c["spsubs"] = draw(st.sampled_from([None] + fits[:2] * 2 + fits))
    c["wform"] = draw(st.sampled_from([None, None, "readonly", "strided", "float32", "int32", "uint16"]))
    c["env"] = draw(st.sampled_from(H.ENVS))
    return c


cell("C12/evaluate/large", strategy=_large_case, quick=5, thorough=40, shards=(1, 4))(_evaluate_body)


# --------------------------------------------------------------------------
# (c) tensor.mttkrps == per-mode mttkrp == definition
# --------------------------------------------------------------------------


@st.composite
def _mttkrps_case(draw, tier):
    c = draw(gen.dense_case(tier, min_order=2, max_order=5, max_cells=64 if tier == "quick" else 400))
    r = draw(st.integers(1, 4))
    vk = c["vkind"]
    c["rank"] = r
    c["factors"] = [draw(st.lists(st.lists(gen.values(vk), min_size=r, max_size=r), min_size=n, max_size=n))
                    for n in c["shape"]]
    c["ukind"] = draw(st.sampled_from(["list", "tuple", "ktensor", "ktensor"]))
    if c["ukind"] == "ktensor":
        unit = draw(st.booleans())
        c["uweights"] = [1.0] * r if unit else draw(st.lists(gen.values(vk, nonzero=True), min_size=r, max_size=r))
    else:
        c["uweights"] = [1.0] * r
    # integer-valued operands held in integer arrays, also mixed with float ones (a ktensor holds float factors)
    c["tdtype"] = draw(st.sampled_from(["float64", "float64", "int64", "int32", "uint8"])) if vk == "int" else "float64"
    c["udtype"] = (draw(st.sampled_from(["float64", "int64", "int32"]))
                   if vk == "int" and c["ukind"] != "ktensor" else "float64")
    # round 4: factor matrices of a list / tuple as C-ordered, read-only or strided arrays; the mode as a NumPy integer
    c["ulayout"] = draw(st.sampled_from([None, None, "C", "readonly", "strided"]))
    c["nform"] = draw(st.sampled_from([None, None, "int64", "int32", "uint8", "intp"]))
    return c


@cell("C12/mttkrps", strategy=_mttkrps_case, quick=600, thorough=12000, shards=(2, 8))
def mttkrps(ctx, case):
    shape, r = case["shape"], case["rank"]
    N = len(shape)
    A = H.build_factors(case)
    Xa = gen.arr_F(shape, case["data"])
    T = gen.build_tensor(case)
    Xt = H.typed(Xa, case.get("tdtype"))
    if Xt.dtype != np.float64 and not gen.is_grown(T):  # (a grown tensor holds float64 data whatever it started from)
        T = ttb.tensor(Xt.copy(order="F"), tuple(shape))
    lam = np.array(case["uweights"], dtype=float)
    if case["ukind"] == "ktensor":
        U = ttb.ktensor([a.copy() for a in A], lam.copy())
    else:
        ul = case.get("ulayout")
        U = [np.ascontiguousarray(H.typed(a, case.get("udtype"))) if ul == "C" else H.present_array(H.typed(a, case.get("udtype")).copy(), ul)
             for a in A]
        U0 = [u.copy() for u in U]
        U = tuple(U) if case["ukind"] == "tuple" else U
        ctx.label("factor-list-layout-" + str(ul))
    ctx.label("mode-given-as-" + str(case.get("nform") or "int"))
    ctx.label("tensor-" + str(T.data.dtype), "factors-" + str((U.factor_matrices if case["ukind"] == "ktensor" else U)[0].dtype),
              "tensor-buffer-not-F-ordered" if gen.is_grown(T) else "tensor-buffer-F-ordered")
    unit = bool(np.all(lam == 1))
    ctx.label(*gen.shape_classes(shape), "U-" + case["ukind"], "unit-weights" if unit else "nonunit-weights",
              case["vkind"], f"rank{r}")
    ctx.nt = N >= 3 and r >= 2 and len(set(shape)) >= 2
    with ctx.sut("tensor.mttkrps"):
        V = T.mttkrps(U)
    ctx.require(isinstance(V, list) and len(V) == N and all(isinstance(v, np.ndarray) for v in V),
                "mttkrps-returns-one-matrix-per-mode")
    ctx.check(np.array_equal(ref.den(T), Xa), "mttkrps-leaves-tensor")
    if case["ukind"] == "ktensor":
        ctx.check(all(np.array_equal(a, b) for a, b in zip(U.factor_matrices, A)) and np.array_equal(U.weights, lam),
                  "mttkrps-leaves-factors")
    else:
        ctx.check(len(U) == N and all(np.array_equal(a, b) and a.dtype == b.dtype for a, b in zip(U, U0)), "mttkrps-leaves-factors")
    exact = ref.is_intvalued(Xa, lam, *A)
    absA = [np.abs(a) for a in A]
    for k in range(N):
        want = H.mttkrp_ref(Xa, A, k) * lam[None, :]
        bound = H.mttkrp_ref(np.abs(Xa), absA, k) * np.abs(lam)[None, :]
        n = ref.prod(shape) // shape[k]
        with ctx.sut("tensor.mttkrp"):
            one = T.mttkrp(U, k if not case.get("nform") else np.dtype(case["nform"]).type(k))
        ctx.require(V[k].shape == (shape[k], r), "mttkrps-shape", f"mode {k}: {V[k].shape}")
        if exact:
            ok_def, ok_one = ref.same_exact(V[k], want), ref.same_exact(V[k], one)
        else:
            ok_def = ref.same_bound(V[k], want, bound, n * N)
            ok_one = ref.same_bound(V[k], one, bound, 2 * n * N)
        ctx.check(ok_one, "mttkrps-equals-per-mode-mttkrp", f"mode {k} of {shape}: {ref.diff_info(V[k], one)}")
        if unit:  # (for a ktensor with non-unit weights only the documented equivalence with mttkrp is asserted)
            ctx.check(ok_def, "mttkrps-equals-definition", f"mode {k} of {shape}: {ref.diff_info(V[k], want)}")


# --------------------------------------------------------------------------
# (d) fg_est.estimate
# --------------------------------------------------------------------------


@st.composite
def _estimate_full_case(draw, tier):
    c = draw(H.problem(tier, holders=("dense",), with_weights=False, max_order=4))
    n = ref.prod(c["shape"])
    c["order"] = list(draw(st.permutations(range(n)))) if draw(st.booleans()) else list(range(n))
    c.update(draw(_sample_forms()))
    return c


@st.composite
def _sample_forms(draw):
    """array forms of a sample: dtype of the values (when integer-valued), of the subscripts, of the sample weights"""
    # (round 4: every integer dtype that holds the subscripts - the modes of these cells are shorter than 128 -, single
    #  precision values / weights, memory layouts, process environment)
    return dict(vdtype=draw(st.sampled_from(H.VAL_DTYPES)),
                sdtype=draw(st.sampled_from(["int64", "int64", "int32", "uint32", "int16", "uint8", "uint16", "uint64", "int8"])),
                swdtype=draw(st.sampled_from(H.SW_DTYPES)), slayout=draw(st.sampled_from(H.LAYOUTS)),
                vlayout=draw(st.sampled_from([None, None, None, "strided", "readonly"])), env=draw(st.sampled_from(H.ENVS)))


def _estimate_refs(case, model):
    """the model as it stands before the call, and the reference factor matrices of its unit-weight form"""
    lam, A = H.read_model(model)
    unit = bool(np.all(lam == 1))
    Aref = A if unit else H.normalize0_ref(lam, A)
    return lam, A, unit, Aref


def _check_model_after(ctx, model, lam, A, unit, Aref):
    """what estimate may do to the caller's model: leave it alone (always so for unit weights), or - as the
    lambda check announces - bring it to unit weights; it must denote the same tensor afterwards.  Returns the
    factor matrices the returned gradients refer to."""
    lam2, A2 = H.read_model(model)
    same = len(A2) == len(A) and all(a.shape == b.shape and np.array_equal(a, b) for a, b in zip(A2, A)) and np.array_equal(lam2, lam)
    if unit:
        ctx.check(same, "estimate-leaves-model")
        return A
    if same:
        ctx.label("weighted-model-left-alone")
        return Aref
    ctx.label("weighted-model-normalised-in-place")
    ok = (len(A2) == len(A) and all(a.shape == b.shape for a, b in zip(A2, A)) and bool(np.all(lam2 == 1)))
    if ok:
        M_before = H.kruskal_c(H.absorb(lam, A))
        bound = 64 * (len(A) + len(lam) + 2) * EPS * H.kruskal_c([np.abs(a) for a in H.absorb(lam, A)])
        ok = H.within(H.kruskal_c(A2), M_before, bound + 1e-300)
    ctx.check(ok, "normalised-model-has-unit-weights-and-denotes-the-same-tensor")
    return A2 if ok else Aref


@cell("C12/estimate/all-entries", strategy=_estimate_full_case, quick=400, thorough=8000, shards=(2, 8))
def estimate_all(ctx, case):
    """the sampled estimator on every subscript (any order) with unit weights equals the exact evaluation"""
    name, p = case["loss"], case["param"]
    fh, gh, lb = _setup(ctx, name, p)
    case = H.expand_long(case)
    model = H.build_model(case)
    lam, A, unit, Aref = _estimate_refs(case, model)
    N, R = len(A), case["rank"]
    Aw = A if unit else H.absorb(lam, A)
    M = H.kruskal_c(Aw)
    dM = H.model_rounding(Aw) * (1 if unit else 4)
    X = H.data_array(case, M)
    _labels(ctx, case, X)
    _model_labels(ctx, case, model, lam)
    ctx.label("order-identity" if case["order"] == "identity" or (case["order"] != "permuted" and case["order"] == sorted(case["order"]))
              else "order-permuted")
    if case.get("long"):
        lin = np.arange(X.size) if case["order"] == "identity" else np.random.RandomState(case["seed"]).permutation(X.size)
        isubs = np.array(np.unravel_index(lin, tuple(case["shape"]), order="F")).T.reshape(X.size, N)
    else:
        allsubs = ref.all_subs_F(case["shape"])
        isubs = np.array([allsubs[i] for i in case["order"]], dtype=np.int64).reshape(len(case["order"]), N)
    subs = isubs.astype(case.get("sdtype", "int64"))
    vals = X[tuple(isubs.T)] if len(isubs) else np.zeros(0)
    subs, vals, wts, _, valsf, _, s32 = _sample_arrays(case, subs, vals, np.ones(len(subs)), None)
    if s32 != 1 and vals.dtype == np.float32:
        X = gen.arr_F(case["shape"], [0.0] * X.size)  # (the data the single-precision sample denotes)
        X[tuple(isubs.T)] = valsf
    ctx.label("vals-" + str(vals.dtype), "subs-" + str(subs.dtype), "sample-weights-" + str(wts.dtype),
              "subs-layout-" + _layout_label(subs), "env-" + str(case.get("env")))
    if case.get("long"):
        cap = H.NARROW_MAX.get(str(subs.dtype))
        ctx.label("mode-length-x-rank-" + ("above" if cap is not None and max(n * R for n in case["shape"]) > cap + 1 else "within")
                  + "-subscript-dtype")
    subs0, vals0, wts0 = subs.copy(), vals.copy(), wts.copy()
    ev_model = model.copy()  # (for the exact evaluation below)
    with ctx.sut("fg_est.estimate"), _env(case.get("env")):
        out = fg_est.estimate(model, subs, vals, wts, fh, gh)
    ctx.require(isinstance(out, tuple) and len(out) == 2, "estimate-returns-F-and-G")
    Fe, Ge = out
    ctx.require(np.ndim(Fe) == 0 and isinstance(Ge, list) and len(Ge) == N
                and all(isinstance(g, np.ndarray) and g.shape == a.shape for g, a in zip(Ge, A)),
                "estimate-result-types-and-shapes")
    ctx.check(np.array_equal(subs, subs0) and subs.dtype == subs0.dtype and np.array_equal(vals, vals0) and np.array_equal(wts, wts0)
              and vals.dtype == vals0.dtype and wts.dtype == wts0.dtype, "estimate-leaves-samples")
    Ag = _check_model_after(ctx, model, lam, A, unit, Aref)
    with ctx.sut("fg.evaluate"):
        Fx, Gx = fg.evaluate(ev_model, ttb.tensor(X.copy(order="F"), tuple(case["shape"])), None, fh, gh)
    pr = H.PointwiseRef(name, p, fh, gh, X, M, dM)
    tolF = _sum_tol(None, pr.f, pr.tol_f) * s32
    ctx.check(abs(float(Fe) - float(Fx)) <= 2 * tolF, "estimate-on-all-entries-equals-evaluate[F]",
              f"{Fe!r} vs {Fx!r} tol {2 * tolF:.3g}")
    ctx.check(abs(float(Fe) - float(np.sum(pr.f))) <= tolF, "estimate-objective-is-definition",
              f"{Fe!r} vs {float(np.sum(pr.f))!r} tol {tolF:.3g}")
    refs = _grad_refs(Ag, pr.g, pr.tol_g, None, N, R)
    for k, (Gk, tk) in enumerate(refs):
        tk = tk * s32
        if unit:  # (the exact evaluation specifies gradients for unit-weight models only)
            ctx.check(H.within(Ge[k], Gx[k], 2 * tk), "estimate-on-all-entries-equals-evaluate[G]",
                      f"mode {k} of {case['shape']}: {H.worst(Ge[k], Gx[k], 2 * tk)}")
        ctx.check(H.within(Ge[k], Gk, tk * (1 if unit else 4)), "estimate-gradient-is-definition",
                  f"mode {k} of {case['shape']}: {H.worst(Ge[k], Gk, tk)}")


@st.composite
def _estimate_samples_case(draw, tier):
    name = draw(st.sampled_from(H.LOSS_NAMES))
    p = draw(H.param_strategy(name))
    shape = draw(H.model_shape(tier, max_order=4))
    rank = draw(st.integers(1, 4))
    factors = draw(H.factors_for(name, shape, rank))
    ncells = ref.prod(shape)
    size = draw(st.sampled_from(["empty"] + ["one"] * 2 + ["few"] * 5 + ["many"] * 4))
    ns = {"empty": 0, "one": 1}.get(size)
    if ns is None:
        ns = draw(st.integers(2, max(2, ncells))) if size == "few" else draw(st.integers(ncells, 3 * ncells))
    idx = draw(st.lists(st.integers(0, ncells - 1), min_size=ns, max_size=ns))  # with repeats
    c = dict(loss=name, param=p, shape=shape, rank=rank, factors=factors, size=size)
    allsubs = ref.all_subs_F(shape)
    c["subs"] = [list(allsubs[i]) for i in idx]
    if name == "huber":
        c["offsets"] = draw(st.lists(H.huber_ratio(), min_size=ns, max_size=ns))
        c["vals"] = None
    else:
        c["vals"] = draw(st.lists(H.data_value(H.LOSSES[name]["data"], small=True), min_size=ns, max_size=ns))
    c["sweights"] = draw(st.lists(st.one_of(st.just(1.0), st.floats(0.1, 50.0)), min_size=ns, max_size=ns))
    ck = draw(st.sampled_from(["none", "empty", "prefix"]))
    if name == "huber":
        ck = draw(st.sampled_from(["none", "empty"]))  # the correction evaluates the loss at data 0: may hit the kink
    c["crng"] = None if ck == "none" else ([] if ck == "empty" else list(range(draw(st.integers(0, ns)))))
    c["outputs"] = draw(st.sampled_from(["both", "both", "F", "G"]))
    # the model: unit weights with the check off or on, or - with the (default) lambda check on - a weighted model,
    # which estimate documents it brings to unit weights
    c["lambda_check"] = draw(st.sampled_from(["default", True, False]))
    c.update(draw(H.model_state(name, shape, rank, allow_weighted=c["lambda_check"] is not False)))
    c.update(draw(_sample_forms()))
    return c


@cell("C12/estimate/samples", strategy=_estimate_samples_case, quick=500, thorough=10000, shards=(2, 8))
def estimate_samples(ctx, case):
    """arbitrary sample multisets, weights and correction range against a per-sample loop"""
    case = H.expand_long(H.expand_large_samples(case))
    name, p = case["loss"], case["param"]
    fh, gh, lb = _setup(ctx, name, p)
    model = H.build_model(case)
    lam, A, unit, Aref = _estimate_refs(case, model)
    N, R = len(A), case["rank"]
    shape = case["shape"]
    ns = len(case["subs"])
    subs = np.array(case["subs"], dtype=case.get("sdtype", "int64")).reshape(ns, N)
    isubs = subs.astype(int)

    def rows_of(F):
        return [F[k][isubs[:, k], :] for k in range(N)]  # ns x R each

    rows_w = rows_of(A if unit else H.absorb(lam, A))
    mv = np.sum(np.prod(np.stack(rows_w, axis=0), axis=0), axis=1) if ns else np.zeros(0)
    dmv = (8 if unit else 32) * (N + R) * EPS * np.sum(np.prod(np.abs(np.stack(rows_w, axis=0)), axis=0), axis=1) if ns else np.zeros(0)
    if name == "huber":
        vals = mv + np.array([s_ * r for s_, r in case["offsets"]], dtype=float).reshape(ns) * p
    else:
        vals = np.array(case["vals"], dtype=float).reshape(ns)
    wts = np.array(case["sweights"], dtype=float).reshape(ns)
    crng = None if case["crng"] is None else np.array(case["crng"], dtype=int)
    lc = case.get("lambda_check", False)
    ctx.label("loss-" + name, "samples-" + case["size"], *gen.shape_classes(shape),
              "crng-" + ("none" if crng is None else ("empty" if crng.size == 0 else "prefix")), "out-" + case["outputs"],
              f"lambda_check-{lc}")
    _model_labels(ctx, case, model, lam)
    ctx.label(H.factor_class(case))
    if case.get("mscale") and any(e for _, _, e in case["mscale"]):
        ctx.label("columns-scaled-2^" + str(max(e for _, _, e in case["mscale"])))
    if ns and len({tuple(s) for s in case["subs"]}) < ns:
        ctx.label("repeated-subscripts")
    ctx.nt = N >= 3 and R >= 2 and ns >= 2 and len(set(case["vals"] or [0, 1])) >= 2
    want_f = case["outputs"] in ("both", "F")
    want_g = case["outputs"] in ("both", "G")
    a_subs, a_vals, a_wts, a_crng, vals, wts, s32 = _sample_arrays(case, subs, vals, wts, crng)
    ctx.label("vals-" + str(a_vals.dtype), "subs-" + str(a_subs.dtype), "sample-weights-" + str(a_wts.dtype),
              "subs-layout-" + _layout_label(a_subs), "env-" + str(case.get("env")))
    if a_crng is not None:
        ctx.label("crng-" + str(a_crng.dtype))
    if case.get("long"):
        cap = H.NARROW_MAX.get(str(a_subs.dtype))
        big = max(n * R for n in shape)
        ctx.label("mode-length-x-rank-" + ("above" if cap is not None and big > cap + 1 else "within") + "-subscript-dtype",
                  "rows-above-dtype-range-sampled" if cap is not None and ns and max(
                      int(isubs[:, k].max()) * R + R - 1 for k in range(N)) > cap else "rows-within-dtype-range")
    subs_in, vals_in, wts_in = a_subs.copy(), a_vals.copy(), a_wts.copy()
    crng_in = None if a_crng is None else a_crng.copy()

    def call(model_, subs_, vals_, wts_, crng_):
        if lc == "default":
            if crng_ is None:
                return fg_est.estimate(model_, subs_, vals_, wts_, fh if want_f else None, gh if want_g else None)
            return fg_est.estimate(model_, subs_, vals_, wts_, fh if want_f else None, gh if want_g else None, crng=crng_)
        return fg_est.estimate(model_, subs_, vals_, wts_, fh if want_f else None, gh if want_g else None, lc, crng_)

    with ctx.sut("fg_est.estimate"), _env(case.get("env")):
        out = call(model, a_subs, a_vals, a_wts, a_crng)
    if want_f and want_g:
        ctx.require(isinstance(out, tuple) and len(out) == 2, "estimate-returns-F-and-G")
        Fe, Ge = out
    elif want_f:
        Fe, Ge = out, None
    else:
        Fe, Ge = None, out
    ctx.check(np.array_equal(a_subs, subs_in) and a_subs.dtype == subs_in.dtype and np.array_equal(a_vals, vals_in)
              and a_vals.dtype == vals_in.dtype and np.array_equal(a_wts, wts_in) and a_wts.dtype == wts_in.dtype
              and (crng is None or (np.array_equal(a_crng, crng_in) and a_crng.dtype == crng_in.dtype)), "estimate-leaves-samples")
    Ag = _check_model_after(ctx, model, lam, A, unit, Aref)
    rows = rows_of(Ag)
    slack = 1 if unit else 4
    # the same request in the plain presentation (int64 C-ordered subscripts, float64 values and weights, int64
    # correction range, fresh model object, quiet environment): the answers agree to the property's bound
    plain = None
    if (a_subs.dtype != np.int64 or not a_subs.flags["C_CONTIGUOUS"] or a_vals.dtype != np.float64 or a_wts.dtype != np.float64
            or case.get("env") or case.get("vlayout") or (a_crng is not None and (a_crng.dtype != np.int64 or case.get("clayout")))):
        with ctx.sut("fg_est.estimate-plain-presentation"):
            plain = call(H.build_model(case), isubs.astype(np.int64), vals.copy(), wts.copy(), None if crng is None else crng.astype(np.int64))
        ctx.label("compared-with-plain-presentation")
    if case.get("env"):
        # the very same arguments in the quiet environment: bit for bit the same answer
        with ctx.sut("fg_est.estimate-quiet-environment"):
            quiet = call(H.build_model(case), a_subs, a_vals, a_wts, a_crng)
        qs, os_ = _snapshot(list(quiet) if isinstance(quiet, tuple) else quiet), _snapshot(list(out) if isinstance(out, tuple) else out)
        ctx.check(_same_snapshot(qs, os_), "estimate-independent-of-logging-level", str(case.get("env")))
    inc = np.zeros(ns, dtype=bool)
    if crng is not None and crng.size:
        inc[crng] = True
    zero = np.zeros(ns)
    if want_f:
        ctx.require(np.ndim(Fe) == 0, "estimate-objective-is-scalar", type(Fe).__name__)
        pf = H.PointwiseRef(name, p, fh, None, vals, mv, dmv)
        y, ty = pf.f.copy(), pf.tol_f.copy()
        if inc.any():
            pz = H.PointwiseRef(name, p, fh, None, zero, mv, dmv)
            y = y - inc * pz.f
            ty = ty + inc * (pz.tol_f + 4 * EPS * (np.abs(pf.f) + np.abs(pz.f)))
        F_ref = float(np.sum(wts * y))
        tolF = float(np.sum(wts * ty) + 64 * max(1, ns) * EPS * np.sum(wts * (np.abs(pf.f) + (inc * np.abs(pz.f) if inc.any() else 0)))) + 1e-300
        tolF = tolF * s32
        ctx.check(abs(float(Fe) - F_ref) <= tolF, "estimate-objective-is-weighted-sample-sum",
                  f"{Fe!r} vs {F_ref!r} tol {tolF:.3g}")
        if plain is not None:
            Fp = plain[0] if want_g else plain
            ctx.check(np.ndim(Fp) == 0 and abs(float(Fe) - float(Fp)) <= 2 * tolF, "estimate-objective-independent-of-presentation",
                      f"{Fe!r} vs {Fp!r} tol {2 * tolF:.3g}")
    if want_g:
        ctx.require(isinstance(Ge, list) and len(Ge) == N and all(
            isinstance(g, np.ndarray) and g.shape == a.shape for g, a in zip(Ge, A)), "estimate-gradient-shapes",
            [getattr(g, "shape", None) for g in Ge] if isinstance(Ge, list) else type(Ge).__name__)
        pg = H.PointwiseRef(name, p, None, gh, vals, mv, dmv)
        y, ty = pg.g.copy(), pg.tol_g.copy()
        if inc.any():
            pz = H.PointwiseRef(name, p, None, gh, zero, mv, dmv)
            y = y - inc * pz.g
            ty = ty + inc * (pz.tol_g + 4 * EPS * (np.abs(pg.g) + np.abs(pz.g)))
            ay = np.abs(pg.g) + inc * np.abs(pz.g)
        else:
            ay = np.abs(pg.g)
        for k in range(N):
            others = [rows[j] for j in range(N) if j != k]
            Z = np.prod(np.stack(others, axis=0), axis=0) if ns else np.zeros((0, R))
            Gk = np.zeros(A[k].shape)
            Tk = np.zeros(A[k].shape)
            if ns:  # per-sample accumulation in sample order (unbuffered, repeats add up): no sparse matrix
                np.add.at(Gk, isubs[:, k], (wts * y)[:, None] * Z)
                np.add.at(Tk, isubs[:, k], (wts * (ty + slack * 64 * (ns + N) * EPS * ay))[:, None] * np.abs(Z))
            Tk = Tk * s32
            ctx.check(H.within(Ge[k], Gk, Tk + 1e-300), "estimate-gradient-is-weighted-sample-sum",
                      f"mode {k} of {shape}: {H.worst(Ge[k], Gk, Tk)}")
            if plain is not None:
                Gp = plain[1] if want_f else plain
                ctx.check(isinstance(Gp, list) and len(Gp) == N and H.within(Ge[k], Gp[k], 2 * Tk + 1e-300),
                          "estimate-gradient-independent-of-presentation",
                          f"mode {k} of {shape}: {H.worst(Ge[k], Gp[k], 2 * Tk) if isinstance(Gp, list) and len(Gp) == N else type(Gp).__name__}")


cell("C12/estimate/large", strategy=lambda tier: H.large_samples(), quick=3, thorough=30, shards=(1, 4))(estimate_samples)


# --------------------------------------------------------------------------
# (e) round 4: the same request as another caller presents it
# --------------------------------------------------------------------------


@st.composite
def _presentation(draw, ns):
    """how the caller holds the sample: dtype and memory layout of the subscripts (dtype drawn by the caller of this
    strategy), of the values / sample weights and of the correction range; process environment"""
    return dict(slayout=draw(st.sampled_from(H.LAYOUTS)), vdtype=draw(st.sampled_from(H.VAL_DTYPES)),
                swdtype=draw(st.sampled_from(H.SW_DTYPES)), vlayout=draw(st.sampled_from([None, None, None, "strided", "readonly"])),
                cdtype=draw(st.sampled_from(["int64", "int64", "int32", "uint8", "int16", "uint64"])),
                clayout=draw(st.sampled_from([None, None, "strided", "readonly"])), env=draw(st.sampled_from(H.ENVS)))


@st.composite
def _narrow_samples_case(draw, tier):
    """sample sets of a model with one long mode, subscripts held in a dtype that holds every subscript but (mostly)
    not mode length x rank; rows near the end of the long mode are sampled"""
    name = draw(st.sampled_from(H.LOSS_NAMES))
    sdtype = draw(st.sampled_from(H.SUB_DTYPES))
    shape, rank, pos = draw(H.long_shape(sdtype))
    L = shape[pos]
    ns = draw(st.one_of(st.integers(1, 6), st.integers(1, 24)))
    long_sub = st.one_of(st.integers(0, L - 1), st.integers((L - 1) // 2, L - 1), st.integers(max(0, L - 4), L - 1))
    c = dict(loss=name, param=draw(H.param_strategy(name)), shape=shape, rank=rank, long=True, size="long-mode",
             seed=draw(st.integers(0, 2**31 - 1)), sdtype=sdtype)
    c["subs"] = [[draw(long_sub) if k == pos else draw(st.integers(0, n - 1)) for k, n in enumerate(shape)] for _ in range(ns)]
    if name == "huber":
        c["offsets"] = draw(st.lists(H.huber_ratio(), min_size=ns, max_size=ns))
        c["vals"] = None
    else:
        c["vals"] = draw(st.lists(H.data_value(H.LOSSES[name]["data"], small=True), min_size=ns, max_size=ns))
    wk = draw(st.sampled_from(["unit", "ints", "floats", "floats"]))
    wv = {"unit": st.just(1.0), "ints": st.integers(0, 5).map(float), "floats": st.one_of(st.just(1.0), st.floats(0.1, 50.0))}[wk]
    c["sweights"] = draw(st.lists(wv, min_size=ns, max_size=ns))
    ck = draw(st.sampled_from(["none", "empty", "prefix"] if name != "huber" else ["none", "empty"]))
    c["crng"] = None if ck == "none" else ([] if ck == "empty" else list(range(draw(st.integers(0, ns)))))
    c["outputs"] = draw(st.sampled_from(["both", "both", "both", "F", "G"]))
    c["lambda_check"] = draw(st.sampled_from(["default", True, False]))
    c.update(draw(H.model_state(name, shape, rank, allow_weighted=c["lambda_check"] is not False)))
    c["mscale"] = None
    c.update(draw(_presentation(ns)))
    return c


cell("C12/estimate/narrow-subscripts", strategy=_narrow_samples_case, quick=60, thorough=600, shards=(1, 4))(estimate_samples)


@st.composite
def _narrow_full_case(draw, tier):
    """every entry of a tensor with one long mode as the sample, subscripts in a dtype that holds every subscript but
    (mostly) not mode length x rank (data and factors from a seed)"""
    name = draw(st.sampled_from([n for n in H.LOSS_NAMES if n != "huber"]))
    sdtype = draw(st.sampled_from(["int8", "uint8", "uint8"] * 3 + H.SUB_DTYPES))  # (the 16-bit problems have ~1e5 cells: fewer of them)
    shape, rank, pos = draw(H.long_shape(sdtype, max_other=2))
    c = dict(loss=name, param=draw(H.param_strategy(name)), shape=shape, rank=rank, long=True, full=True,
             seed=draw(st.integers(0, 2**31 - 1)), sdtype=sdtype, order=draw(st.sampled_from(["identity", "permuted"])),
             holder="dense", wkind="none", weights=None)
    c.update(draw(H.model_state(name, shape, rank)))
    c["mscale"] = None
    pres = draw(_presentation(0))
    c.update({k: pres[k] for k in ("slayout", "vdtype", "swdtype", "vlayout", "env")})
    return c


cell("C12/estimate/all-entries-narrow-subscripts", strategy=_narrow_full_case, quick=10, thorough=80, shards=(1, 4))(estimate_all)


# --------------------------------------------------------------------------
# (f) round 4: a rejected request leaves every operand (and the module) as it was
# --------------------------------------------------------------------------

REJECTS = ["evaluate-without-handles", "estimate-without-handles", "setup-without-parameter", "setup-data-outside-domain",
           "mttkrp-wrong-factor-size"]


@st.composite
def _rejected_case(draw, tier):
    c = draw(H.problem(tier, losses=[n for n in H.LOSS_NAMES if n != "huber"], max_order=4))
    c["reject"] = draw(st.sampled_from(REJECTS))
    c["pobj"] = draw(st.sampled_from(["huber", "negative_binomial", "beta"]))
    c["pos"] = draw(st.integers(0, 10**6))
    ns = draw(st.integers(1, 6))
    c["sample_idx"] = draw(st.lists(st.integers(0, ref.prod(c["shape"]) - 1), min_size=ns, max_size=ns))
    c["lambda_check"] = draw(st.sampled_from(["default", True, False]))
    return c


def _snapshot(obj):
    """everything that parameterises a pyttb object / array, bit for bit"""
    if isinstance(obj, ttb.ktensor):
        return ("ktensor", [f.copy() for f in obj.factor_matrices], np.array(obj.weights, copy=True))
    if isinstance(obj, ttb.sptensor):
        return ("sptensor", obj.subs.copy(), obj.vals.copy(), tuple(obj.shape))
    if isinstance(obj, ttb.tensor):
        return ("tensor", obj.data.copy(order="K"), tuple(obj.shape))
    if isinstance(obj, (list, tuple)):
        return (type(obj).__name__, [_snapshot(o) for o in obj])
    return ("array", None if obj is None else np.array(obj, copy=True))


def _same_snapshot(a, b):
    if isinstance(a, np.ndarray) or isinstance(b, np.ndarray):
        return (isinstance(a, np.ndarray) and isinstance(b, np.ndarray) and a.dtype == b.dtype and a.shape == b.shape
                and np.array_equal(a, b, equal_nan=True))
    if isinstance(a, (list, tuple)) and isinstance(b, (list, tuple)):
        return len(a) == len(b) and type(a) is type(b) and all(_same_snapshot(x, y) for x, y in zip(a, b))
    return type(a) is type(b) and a == b


@cell("C12/rejected-request", strategy=_rejected_case, quick=80, thorough=1200, shards=(1, 4))
def rejected_request(ctx, case):
    """valid evaluation, a request the documentation says is rejected, the same valid evaluation again: every operand is
    bit for bit what it was and the second evaluation returns what the first returned"""
    name, p, rj = case["loss"], case["param"], case["reject"]
    fh, gh, lb = _setup(ctx, name, p)
    model = H.build_model(case)
    lam, A = H.read_model(model)
    N = len(A)
    Aw = A if np.all(lam == 1) else H.absorb(lam, A)
    X = H.data_array(case, H.kruskal_c(Aw))
    data = H.build_data(case, X)
    w_arr = H.weight_array(case)
    kind = H.LOSSES[name]["data"]
    if rj == "setup-data-outside-domain" and kind == "real":
        rj = "evaluate-without-handles"  # (every real tensor is Gaussian data)
    ctx.label("reject-" + rj, "loss-" + name, "holder-" + case["holder"], "w-" + case["wkind"])
    _model_labels(ctx, case, model, lam)
    ctx.nt = N >= 3 and case["rank"] >= 2
    with ctx.sut("fg.evaluate"):
        F0, G0 = fg.evaluate(model, data, w_arr, fh, gh)
    G0 = [np.array(g, copy=True) for g in G0]
    xs, ms = np.array([0.0, 1.0, 1.0]), np.array([0.5, 0.25, 2.0])
    with ctx.sut("function_handle"):
        f_before, g_before = np.array(fh(xs, ms)), np.array(gh(xs, ms))
    operands = [model, data, w_arr]
    extra = []
    if rj == "evaluate-without-handles":
        call = lambda: fg.evaluate(model, data, w_arr, None, None)  # noqa: E731
    elif rj == "estimate-without-handles":
        allsubs = ref.all_subs_F(case["shape"])
        subs = np.array([allsubs[i] for i in case["sample_idx"]], dtype=np.int64).reshape(len(case["sample_idx"]), N)
        vals = np.array([X[tuple(s_)] for s_ in subs], dtype=float)
        wts = np.ones(len(subs))
        extra = [subs, vals, wts]
        lc = case["lambda_check"]
        call = ((lambda: fg_est.estimate(model, subs, vals, wts, None, None)) if lc == "default"
                else (lambda: fg_est.estimate(model, subs, vals, wts, None, None, lc)))
    elif rj == "setup-without-parameter":
        call = lambda: fg_setup.setup(H.objective(case["pobj"]), data, None)  # noqa: E731
    elif rj == "setup-data-outside-domain":
        Xb = X.copy()
        sub = tuple(int(i) for i in np.unravel_index(case["pos"] % X.size, X.shape, order="F"))
        # (what setup documents it checks: binary / natural numbers / non-negative - the latter also for negative_binomial)
        Xb[sub] = -1.0 if name == "negative_binomial" else {"binary": 2.0, "count": 0.5, "nonneg": -1.0}[kind]
        bad = H.build_data(dict(case, ddtype="float64", dprov="ctor"), Xb)
        extra = [bad]
        call = lambda: fg_setup.setup(H.objective(name), bad, p)  # noqa: E731
    else:
        T = ttb.tensor(X.copy(order="F"), tuple(case["shape"]))
        k = case["pos"] % N
        j = (k + 1 + (case["pos"] // 7) % (N - 1)) % N  # another mode
        U = [a.copy() for a in A]
        U[j] = np.vstack((U[j], U[j][-1:, :]))  # one row too many
        extra = [T, U]
        call = lambda: T.mttkrp(U, k)  # noqa: E731
    before = [_snapshot(o) for o in operands + extra]
    ctx.raises(rj, call)
    after = [_snapshot(o) for o in operands + extra]
    names = ["model", "data", "weights"] + [f"argument-{i}" for i in range(len(extra))]
    for nm, b, a in zip(names, before, after):
        ctx.check(_same_snapshot(a, b), "rejected-request-leaves-" + ("operands" if nm.startswith("arg") else nm), f"{rj}: {nm}")
    # the module is as it was: a new setup hands out the same functions, the old handles still work
    fh2, gh2, _ = _setup(ctx, name, p)
    with ctx.sut("function_handle"):
        same = (np.array_equal(np.array(fh2(xs, ms)), f_before) and np.array_equal(np.array(gh2(xs, ms)), g_before)
                and np.array_equal(np.array(fh(xs, ms)), f_before) and np.array_equal(np.array(gh(xs, ms)), g_before))
    ctx.check(same, "handles-unchanged-after-rejected-request", rj)
    with ctx.sut("fg.evaluate-after-rejected-request"):
        out = fg.evaluate(model, data, w_arr, fh, gh)
    ctx.require(isinstance(out, tuple) and len(out) == 2 and isinstance(out[1], list) and len(out[1]) == N, "evaluate-returns-F-and-G")
    ctx.check(out[0] == F0 and all(isinstance(g, np.ndarray) and np.array_equal(g, g0) for g, g0 in zip(out[1], G0)),
              "evaluation-after-rejected-request-as-before", rj)
